#!/bin/sh
# Builds /verif/.deps (git-ignored) from the offline wheelhouse. Touches nothing outside /verif.
set -e
cd "$(dirname "$0")"
WH=/opt/veriftools/wheels
if [ -f .deps/.ok ] && [ -d .deps/six.py -o -f .deps/six.py ] && [ -d .deps/icontract ]; then
  echo "setup: .deps already present"
  exit 0
fi
rm -rf .deps
mkdir -p .deps
PIP_NO_INDEX=1 /venv/bin/python -m pip install --quiet --no-index --find-links "$WH" --target .deps \
  six==1.17.0 icontract deal jsonschema >/dev/null 2>&1 || \
PIP_NO_INDEX=1 /venv/bin/python -m pip install --no-index --find-links "$WH" --target .deps \
  six==1.17.0 icontract deal jsonschema
touch .deps/.ok
mkdir -p evidence replays
echo "setup: ok"
