#!/usr/bin/env python3
"""Prepares one round of seeded-change briefs: scratch worktrees /tmp/seed<N>/<ID> at /repo's HEAD and prompt files.
usage: tools/seedprep.py <round number> <clauses.json>   (clauses.json: {"C01": "clause text", ...})"""
import json, os, re, subprocess, sys
V = os.path.dirname(os.path.dirname(os.path.abspath(__file__)))
n, clauses = sys.argv[1], json.load(open(sys.argv[2]))
NO_AVOID = "--no-avoid" in sys.argv
base = "/tmp/seed%s" % n
os.makedirs(base, exist_ok=True)
T = open(os.path.join(V, "tools", "seed_prompt_template.txt")).read()
for l in open(os.path.join(V, "properties.jsonl")):
    d = json.loads(l)
    i = d["id"]
    if i not in clauses:
        continue
    used = set()
    root = os.path.join(V, "seeded", i)
    for dp, dn, fn in os.walk(root):
        if "patch.diff" in fn:
            used |= set(re.findall(r"^\+\+\+ b/(\S+)", open(os.path.join(dp, "patch.diff")).read(), re.M))
    wt = os.path.join(base, i)
    if not os.path.isdir(wt):
        subprocess.check_call(["git", "-C", "/repo", "worktree", "add", "-q", "--detach", wt, "HEAD"])
    open(os.path.join(base, "prompt_%s.txt" % i), "w").write(T.replace("__WT__", wt).replace("__AVOID__", "(no restriction this time)" if NO_AVOID else ", ".join(sorted(used))).replace("__CLAUSE__", clauses[i]).replace("__PROP__", json.dumps(d, indent=1)))
print("prepared", len(clauses), "in", base)
