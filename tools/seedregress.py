#!/usr/bin/env python3
"""Regression over every seeded change kept under seeded/: each patch is applied to a scratch worktree of /repo's HEAD
(never to /repo itself) and the checks that caught it are run again with VERIF_REPO pointing there.
usage: tools/seedregress.py [--only C04] [--seeds 0]      prints one line per patch; exit 1 if a patch is no longer caught."""
import argparse, json, os, subprocess, sys, shutil
V = os.path.dirname(os.path.dirname(os.path.abspath(__file__)))


def sh(cmd, cwd=None, timeout=3600):
    p = subprocess.run(cmd, shell=True, cwd=cwd, stdout=subprocess.PIPE, stderr=subprocess.STDOUT, timeout=timeout)
    return p.returncode, p.stdout.decode("utf-8", "replace")


def main():
    ap = argparse.ArgumentParser()
    ap.add_argument("--only")
    ap.add_argument("--seeds", default="0")
    a = ap.parse_args()
    wt = "/tmp/seedregress-wt"
    sh("git -C /repo worktree remove --force %s" % wt)
    shutil.rmtree(wt, ignore_errors=True)
    rc, out = sh("git -C /repo worktree add -q --detach %s HEAD" % wt)
    if rc:
        print(out)
        return 2
    bad = 0
    try:
        for pid in sorted(os.listdir(os.path.join(V, "seeded"))):
            d0 = os.path.join(V, "seeded", pid)
            if not os.path.isdir(d0) or (a.only and pid != a.only):
                continue
            for sub in [""] + sorted(x for x in os.listdir(d0) if os.path.isdir(os.path.join(d0, x))):
                d = os.path.join(d0, sub)
                pf, mf = os.path.join(d, "patch.diff"), os.path.join(d, "meta.json")
                if not (os.path.exists(pf) and os.path.exists(mf)):
                    continue
                meta = json.load(open(mf))
                caught_by = meta.get("caught_by") or []
                name = "%s/%s" % (pid, sub or "r1")
                if not caught_by:
                    print("%-9s not caught when recorded (%s)" % (name, (meta.get("missed_before_strengthening") or "")[:60]))
                    continue
                sh("git checkout -q -- . ", cwd=wt)
                rc, out = sh("git apply %s" % pf, cwd=wt)
                if rc:
                    rc, out = sh("git apply -3 %s" % pf, cwd=wt)
                if rc:
                    print("%-9s patch no longer applies to HEAD (%s)" % (name, out.strip().splitlines()[-1][:80] if out.strip() else ""))
                    continue
                hit = None
                for c in caught_by:
                    for seed in a.seeds.split(","):
                        rc, out = sh("VERIF_REPO=%s ./check %s --tier quick --seed %s --no-evidence" % (wt, c, seed), cwd=V)
                        if rc == 1:
                            hit = (c, seed)
                            break
                    if hit:
                        break
                if hit:
                    print("%-9s caught by %s (seed %s)" % (name, hit[0], hit[1]))
                else:
                    bad += 1
                    print("%-9s NOT CAUGHT any more by %s" % (name, caught_by))
                sys.stdout.flush()
    finally:
        sh("git -C /repo worktree remove --force %s" % wt)
    print("patches no longer caught: %d" % bad)
    return 1 if bad else 0


if __name__ == "__main__":
    sys.exit(main())
