#!/usr/bin/env python3
"""Regenerates MANIFEST.json from the table below (single source of truth for the interface)."""
import json
import os
import sys

VERIF = os.path.dirname(os.path.dirname(os.path.abspath(__file__)))

BASELINE_OFF = ("cd /repo && env -u YOWSUP_VERIF /venv/bin/python -m pytest -ra -q -p no:cacheprovider --timeout=900 "
                "--continue-on-collection-errors")

# id -> (level, technique, level text, level note, design ref)
CHECKS = {
    "C03": ("exploration",
            "runtime monitor: offline checker over recorded send/deliver/receipt/wire logs of 2-4 real client stacks driven against an in-process server double by a seeded single-threaded scheduler, with duplicate/corruption faults and restarts",
            "Each run builds 2-4 real client stacks (network, coder, axolotl control/send/receive, all protocol layers, an "
            "application layer; real profiles and SQLite key stores; only the connection dispatcher is substituted), logs them in "
            "(key upload, reconnect) and executes a generated conversation script (text, extended text, link preview, image, "
            "location, contact; 1:1 and 1-2 groups; bursts, crossing first contacts, restarts between messages) under one of 5 "
            "scheduling strategies, with per-message server faults (duplicate delivery, one corrupted ciphertext). Message "
            "content carries unique text and binary markers; after quiescence the checker requires exactly one delivery per "
            "intended recipient with identical protobuf content, sender and group identity, none elsewhere, no delivery without "
            "a sent message, the recipient's delivery receipt at the sender, re-acknowledged duplicates, a retry receipt after "
            "corruption, and no marker in any frame that left a client. 420 runs quick / 25 000 thorough; schedules sampled. A plaintext frame is attributed to the known recipient-without-keys mechanism by what the server double observed (its directory had no keys for the recipient when the sender asked), not by the scenario. Message kinds include replies quoting an earlier message; the leading field of every delivered message (text, caption url, name, quoted text) is read from the entity itself and compared with what the sender wrote, independently of the library's converter. In a quarter of the framed runs every send happens in its own application thread while the scheduler keeps delivering to the same client (yield injection in the axolotl layers, manager and stores). A third of the accounts run with the identity auto-trust option on (nobody changes identity in these runs); one restart in four finds the key store locked at first. In 30% of the runs the server double relays group messages with the sender-key part before the pairwise part. Runs that do not become quiet within 6 000 scheduler steps (quiet ones need about 500) are livelock violations, with the number of retry receipts seen; 30% of the runs relay 1:1 retry receipts with an empty participant attribute. Overtaken cases (race placement): an application thread that has encrypted a group message is held before it hands the stanza down while the scheduler serves a retry receipt for the sender's first, damaged group message (a sender key re-distribution at a later chain iteration); all messages must still be shown exactly once. Twin-ids cases: two application threads of one account compose (which assigns the id) and send a message each, the first held inside the id generator while the second composes and sends, either may be damaged or duplicated in transit; the ids must differ and every message is shown once with its receipt.",
            "Trusted: the server double (our reading of the server's routing), python-axolotl (padding shim). Framed wiring without noise/segments (C04/C11 cover those).",
            "DESIGN.md 4/C03"),
    "C01": ("exploration",
            "runtime monitor: strict tree comparator on encoder->decoder executions of the real codec (direct and through two YowCoderLayers); systematic sweep of format boundary classes + random trees",
            "A complete systematic sweep (every dictionary word in tag/key/value position, packed digit/hex strings of every "
            "length 1..255 incl. JID users, '@' placements, content sizes around 2^8/2^16/2^20 alone, followed by a sibling "
            "and nested two levels down, list sizes around 128/256, every byte value) plus 3 000 (quick) / 160 000 (thorough, "
            "incl. two ~16 MiB nodes) random trees are round-tripped through the real encoder and decoder and compared by an "
            "independent strict comparator. Sampled above the sweep; no finite run covers all trees. Every seventh decoded tree is annotated afterwards (attributes set, a child added): later cases, compared with plain data, expose any state shared between node objects. Every 11th case a stream-end frame is decoded (and received by the coder layer) between two stanzas; what follows is judged as before. After every fifth tree a sibling (equal tag, attributes, data, child count and first child; different further down) goes through the same encoder, decoder and layers. Every 13th case a tree with a character beyond Latin-1: refused (by the encoder or by the coder layer's byte conversion) or carried, never altered.",
            "Trusted: the comparator and generators. Inputs well-formed per the quantifier.",
            "DESIGN.md 4/C01"),
    "C02": ("exploration",
            "runtime monitor: differential testing against an independent reference codec (own decoder + choice-vector encoder, frozen token tables); full product of encoder choices for small trees",
            "Direction 1: every C01 sweep case and random trees encoded by the library must be decoded to the same tree by an "
            "independently written decoder. Direction 2: the reference encoder emits every permitted encoding (full product "
            "of list-header/length-width/token-vs-literal/packed/JID/string-content/deflate choices for trees with few sites, "
            "random vectors otherwise) and the library decoder must return the tree. The 1260 dictionary entries are compared "
            "index by index with a frozen copy. The reference codec is self-checked on every vector and anchored on the byte "
            "strings pinned in the repository's coder tests; if that fails the run is inconclusive. One coder layer is driven through histories of sends in which some stanzas are refused by the encoder: every frame on the wire must be a valid encoding of exactly its stanza. One decoder (as a coder layer keeps it) through histories with damaged frames (compressed frames cut or corrupted, plain frames cut): refused, and every valid frame before and after decodes to its tree.",
            "Trusted: vf/refcodec.py (our reading of the format), data/tokens.json (frozen copy, independent in time only).",
            "DESIGN.md 4/C02"),
    "C05": ("exploration",
            "runtime monitor: list-equality oracle at probe layers around the real segments layer; exhaustive chunk partitions of short streams + random long ones",
            "Every partition of every short frame list (all 2^(L-1) chunkings, L up to 15 quick / 19 thorough, two content "
            "modes incl. header-looking payloads) plus random streams up to 16 MiB frames are pushed through the real "
            "YowNoiseSegmentsLayer; a probe above must see exactly the sent frames, a probe below exactly len3+payload. "
            "Exhaustive for short streams, sampled above; that is as much as executions can give for an unbounded input space. Reconnect cases: a stream is cut at a random byte, the 'disconnected' announcement is emitted the way the network layer does (detached, from the layer directly below) and the next stream follows before the stack's loop turns; exactly the complete frames before the cut and all later frames must come out. Real dispatchers: the loopback server writes frames around and above 64 KiB and bursts of thousands of small ones; the bytes handed to the framing layer must equal the bytes written and the connection must stay up. Real dispatchers also: local disconnect while a frame is half received (the rest arrives before the peer closes), then a new login on the same stack. Half of the mid-frame cases have an impatient application (connect requests from the moment of the disconnect request) and a peer that is slow to close: every request made while the old connection has not been announced down must be refused. Histories on one framing layer in which framing is switched on and off between writes and reads (as the Noise layer does around the prologue when the profile has edge routing info) and connections end. A second stack of the process toggles its own framing meanwhile; stacks are built with and without a props argument.",
            "Trusted: the probe layers and the list comparison. Frames are non-empty. Single-threaded delivery (one network thread).",
            "DESIGN.md 4/C05"),
    "C15": ("exploration",
            "runtime monitor: differential oracle (independent HKDF/AES-CBC/HMAC implementation anchored on a real-world vector) over exhaustive short lengths; exhaustive single-byte tamper/truncation fault enumeration",
            "Every plaintext length 0..64 (thorough 0..160) x 4 kinds x 8-24 random keys, plus random lengths to 1 MiB, is "
            "encrypted and decrypted by the real MediaCipher (generic and per-kind wrappers) and compared with an independent "
            "implementation of the WhatsApp layout; for every length 0..64 every byte position of ciphertext+tag is flipped "
            "(3 patterns quick, all 255 for <=32 B thorough), every truncation, wrong key and the 3 wrong kinds must raise. Consumer path: incoming media entities are handed to the demos' SinkWorker with the download replaced by the ciphertext (tqdm/requests stubbed): the stored file must equal the original, empty files included, tampered downloads store nothing. One cipher object shared by four threads with thread switches injected inside mediacipher.py.",
            "Trusted: cryptography's AES-CBC, hashlib HMAC, the frozen real-world vector that anchors the reference. Random keys sampled.",
            "DESIGN.md 4/C15"),
    "C20": ("exploration",
            "runtime monitor: independent oracles (hmac, urllib.parse.unquote_to_bytes, X25519+AES-GCM from cryptography) on generated inputs and on real request objects in preview mode",
            "Tokens for digit strings of every length 1..20 and generated unicode phone strings are compared with an independent "
            "HMAC-SHA1; every single byte / Latin-1 char / a spread of code points and generated str/bytes/int values must "
            "percent-decode to the original; generated parameter lists and the three real request classes (preview mode, "
            "sendRequest intercepted, harness recipient key) must decrypt to the encoded parameters in order under distinct ephemeral keys. Tokens for different numbers are also computed concurrently by 2-4 threads on the process-wide environment object with yield injection inside yowsup/env. Every request object is sent a second time and a third time after addParam: fresh ephemeral key, current parameters. A second environment class with other constants is registered: each environment's tokens are the keyed hash with its own constants, whatever was asked of the other before. Every fourth request object reuses the previous full number under another country-code split. Three (thorough: 48) fresh processes whose first use of the environment is four threads computing tokens at once.",
            "Trusted: frozen copies of the three token constants, hmac/urllib/cryptography. Input space sampled.",
            "DESIGN.md 4/C20"),
    "C18": ("exploration",
            "runtime monitor: recording layers at every position of generated stack shapes, observed call log compared with a reference propagation interpreter; flag space of the default helpers enumerated completely",
            "Every shape with <= 3 (quick) / 4 (thorough) items (layers or groups of 1-3) x 4-6 construction routes, plus random "
            "shapes to depth 6 with groups of 1-4: layer order, data propagation down/up (multiset of (layer, op, path)), every "
            "emitter x consumer x emit/broadcast x normal/detached event (exactly once, in order, nothing after the consumer, "
            "deferred part only after the library's own loop body ran), interface lookup by class; all 16 getProtocolLayers/"
            "getDefaultLayers combos, positional forms, all 32x2 getDefaultStack combos, pushDefaultLayers. Exhaustive for the "
            "small shapes and the flag space, sampled above. Every stack built by the default helpers is kept and its wiring (neighbour links, stack membership of every layer and sublayer) is verified again after later stacks were built; a builder with a pushed, popped and pushed layer is included. The library's own pass-through layer (logger) is placed as plain layer and as member of parallel groups of every size/position in explicit, implicit and builder compositions: data must reach every layer once. Four stacks carry a subclass of the library's interface layer on top: each finds the network/auth interfaces of its own stack, in any asking order. 150 stacks of random shape over the library's own YowNetworkLayer: its dispatcher callbacks are called for 2-4 connections in a row; connected seen once at once, disconnected once by the neighbour at once and by the rest only when the loop runs. 120 stacks of the library's own layers (any module selection, with/without encryption layers) under drawn values of ping interval, passive, auto-trust and reconnect: events emitted below reach a probe above exactly once, broadcasts from above reach a probe below exactly once. Eight complete default stacks (any module selection) through a whole first login against the server double: the network layer's state events are seen once, in order, above the whole stack. Two stacks from every published yowsup.stacks.YOWSUP_* tuple; earlier stacks stay wired to their own layers. 'disconnected' is announced up to three times in a row (failed connection attempts) to the stacks of library layers. 120 stacks of the library's transport layers with a frame half received, a header half received, a frame just completed or nothing: two deferred disconnected announcements and two plain events are each seen once above.",
            "Trusted: the reference interpreter (our reading of the statement). Siblings inside the emitter's/consumer's own group: only 'at most once'.",
            "DESIGN.md 4/C18"),
    "C19": ("fault_enumeration",
            "runtime monitor: field-wise equality oracle over save/load executions (formats x write routes x load paths x field subsets) + crash injection (os._exit in forked children at every line/open/chunk/close/rename boundary of a save) judged after reopen",
            "Round trips: all subsets of size <=2 and >=13 of the 15 optional fields plus random subsets, generated values "
            "(arbitrary unicode for JSON, comment-free text for key=value, random keys/blobs), written by save(profile), "
            "save(dest=), config_to_str+file and YowProfile.write_config, loaded by path with/without extension and by profile "
            "name, profile directory existing or not. Crash points: every Python line of the save path, the file open, every "
            "7-byte chunk reaching the OS, close and rename are enumerated completely for each sampled save; a forked child is "
            "killed there and the parent requires load() to return the previous or the new configuration. The previous configuration is either config.json or a key=value config.yo in the profile directory. JSON values include lone surrogates. In half of the round trips the configuration is read (keys, str, items) before it is saved. 40% of the profiles are saved a second time with other values (JSON profile routes); loads also through stack.setProfile(name). A constructed configuration must read back, field by field, what the constructor was given. Extension-less files are rewritten in the other format through the same manager object and loaded again.",
            "Trusted: os.rename atomicity and the filesystem; process death only (no power loss). Saves to enumerate are sampled, their crash points are complete.",
            "DESIGN.md 4/C19"),
    "C13": ("fault_enumeration",
            "runtime monitor: reference dict model run in lock-step with the real SQLite store + reopen comparison; crash injection (os._exit in forked children at every SQL statement/commit/Python-line boundary of an operation) judged per record after reopen",
            "Operation sequences (3-30 ops over sessions, pinned identities, one-time prekeys incl. sent flag, signed prekeys, "
            "sender keys; records are real python-axolotl blobs) are compared with a dict model live and after close+reopen; for "
            "each of 12 operation kinds on generated states (3/4 replacing an existing record) every boundary of the operation - "
            "before/after each DML statement, before/after each commit, every Python line in store/sqlite/*.py - is a crash point: "
            "a forked child is killed there, the parent reopens the file and requires every record to be its old or its new "
            "value, never missing; plus two-party conversations continued across restarts of either side. Crash points are "
            "complete per operation instance; states and sequences are sampled. Manager level: level_prekeys / generate_signed_prekey / set_prekeys_as_sent through AxolotlManager with batch sizes 1..205; after every returned call the database files are copied as a kill would leave them and the copy must show what the live store shows. Crash children first replay a state-preserving tail of the history (and sometimes an upload confirmation) on their own connection before the judged operation. Busy start: another connection holds the profile's key store lock past the busy timeout while the client starts through the factory; after the lock is gone the next start must find the stored state. Ops store...Again: a record is stored under an id that is taken; refused or replaced, whatever the live store shows has to survive the restart that follows at once in half of the cases. Profiles: 2-3 profiles in one process, two of them for the same phone number; each key store file, read on its own, shows what was stored through that profile. Profile switch: one stack connects as A, disconnects, setProfile(B), connects: keys offered afterwards are B's, A's file is untouched. saveIdentity also pins the account's own identity key for a contact (chat with one's own number). Whole clients with several threads (c13_threads.py): application threads send while the network thread confirms key uploads (the confirmation is kept back until the sender has just executed the DELETE of a session replacement); the key store connection is watched from a stand-in sqlite3 module, the files are copied as a kill would leave them after every commit, after a sample of statements and after every commit made while another thread had unfinished statements on the shared connection, and a session / identity row found in one copy must be in every later one.",
            "Trusted: SQLite's atomic commit, the filesystem, python-axolotl (with the block-aligned padding shim). Process death only.",
            "DESIGN.md 4/C13"),
    "C10": ("exploration",
            "runtime monitor: reflective field-by-field comparator over serialise->parse executions of the real converter (all optional-field subsets per message kind, nested quotes) + peer-payload parse->serialise comparison on modelled protobuf fields",
            "For each of the 10 payload kinds every subset of optional constructor fields (up to 2^10 per kind) and 6 000 (quick) / "
            "400 000 (thorough) random objects with generated values (unicode, empty strings, zeros, blobs, quoted messages nested "
            "to depth 3) go through message_to_protobytes/protobytes_to_message and through the message entity classes; a "
            "reflective comparator walks the public properties of the attribute classes and requires every field the sender set "
            "to come back equal. In the other direction protobuf payloads built directly with generated fields are parsed and "
            "re-serialised and compared on the fields the library models. Entities are also re-composed: after a first serialisation every field is changed through its property and the second payload must carry the new content. Half of the objects are composed with unset arguments left out (not passed as None); list-valued fields of earlier objects are edited in place; a field the sender did not set must not carry a non-empty value in the composed object. Message keys carry newer group ids without a dash, the status list, broadcast lists and companion-device JIDs. Every 17th object two unserialisable compositions (a text where a number belongs, one to three quotes deep) are attempted first; valid ones after them are judged as always.",
            "Trusted: protobuf runtime; field types read from the generated descriptors. Unset fields may come back as defaults (counted).",
            "DESIGN.md 4/C10"),
    "C04": ("exploration",
            "runtime monitor: real segments+noise+coder layers driven against a Noise responder double acting as strict in-order peer; chunking enumeration, reconnect histories, yield injection (sys.monitoring) and a stable-blocked-state detector for hangs",
            "Each case runs the library's real handshake worker thread against an independent Noise responder (XX, IK, "
            "IK->XXfallback) fed by a separate harness network thread: the server reply is cut at every split point (step 7 "
            "quick / 1 thorough), by 2-cuts, random k-cuts and byte by byte; delivered immediately, with jitter or only when the "
            "client is parked; with statement-level yield injection in the noise layer/worker/consonance stream; histories "
            "plain, cut-off-then-retry, cut-inside-reply-then-retry, reconnect-after-transport, corrupted reply (must surface "
            "as <failure> + event, not hang). The responder checks the presented account/passive/push name/user agent and "
            "decrypts client frames strictly in counter order; server frames glued to the reply and random traffic both ways "
            "must arrive intact and in order; the stored profile must hold a changed server key. Interleavings are sampled. A completion-race sweep holds the handshake worker inside its last write and releases it at line event k (every k) of the network thread's delivery of the first transport frames; frames sent around completion must be up before anything else is sent (a stranded frame with all threads idle is a violation). History relogin-after-server-failure: <failure/> after the handshake, the layer above closes the connection from inside that delivery, a partial further frame follows in the same segment, then a new login. Over both real dispatchers (loopback TCP): login, then a 6-12 MB stanza next to small ones while the peer does not read for 0.3-2.5 s; all must arrive whole, once, in order. In a third of the cases logins are started by the library's authentication layer on the connected announcement (also after an attempt that was cut off). 15% of the client's stanzas after the handshake carry a character beyond Latin-1: refused or arriving intact.",
            "Trusted: dissononce/consonance (with the randint shim), the responder double. Hang = stable blocked state, a bare timeout is inconclusive.",
            "DESIGN.md 4/C04"),
    "C11": ("exploration",
            "runtime monitor: strict in-order decrypting peer + frame parser on the byte stream at the wire while 2-4 real threads send concurrently; yield injection via sys.monitoring, two GIL switch intervals, exactly-once id accounting",
            "300 (quick) / 20 000 (thorough) runs: after a real handshake 2-4 sender threads enter the stack at three different "
            "places (top of stack, a protocol layer's _sendIq, below the protocol group) and in a third of the runs the library's "
            "own keep-alive thread runs on a fast clock with pongs answered; stanzas of 10 B..200 KiB; statement-level yield "
            "injection in layers/__init__, noise, segments, coder, consonance stream/transport. The responder double parses "
            "len3+payload frames and decrypts with a forward-only counter, so any torn header/payload pair or counter/wire order "
            "inversion is a decrypt failure; every stanza id must appear exactly once. Removing the lock in YowLayer.toLower is "
            "caught in the first runs. Interleavings are sampled; the evidence lists the distinct sender orders observed. "
            "In addition 24 (quick) / 960 (thorough) runs use the library's complete default stack with its real socket and "
            "asyncore dispatchers over loopback TCP against a server thread (Noise responder per connection), with statement-"
            "level yield injection inside the dispatchers and asyncore: the bytes read from the peer's socket must equal, byte "
            "for byte, what the stack handed to the network layer (this also judges the handshake thread's writes against the "
            "asyncore loop's), every frame must decrypt in counter order and every stanza id arrive exactly once. A quarter of the probe-level runs start their senders during the handshake (a refusal reported to the sender is fine; whatever is accepted must arrive once, in counter order). Stalled-write runs: one sender is held between a frame's length header and its payload for 6.5 s while the keep-alive comes due (fast clock); the ping must wait its turn and the stream stay whole. In 40% of the runs the server double floods the client with frames while its threads send (all must come up in order). Real dispatchers: the peer stops reading, senders pile up output, the connection is dropped (local disconnect or reset) and the same stack connects again: login, exactly-once and socket bytes = bytes handed to the network layer since the reconnect. Threads calling stack.send() on a stack of framing, Noise and coder layers only (no logger layer above the coder), 15% of the writes slow. Over both real dispatchers a stanza larger than the socket buffers while the peer does not read. While threads send on a core stack built without a props argument, other accounts' stacks start their logins. A third of the stanzas carry the id the library itself generates on the sending thread (short and long form; yield injection covers the id generator): two stanzas with one id are reported as such.",
            "Trusted: dissononce cipher states of the peer. In the probe-level runs senders start after the handshake (C04 covers the handshake thread's writes there).",
            "DESIGN.md 4/C11"),
    "C14": ("exploration",
            "runtime monitor: reference model of offered/confirmed/consumed one-time keys run in lock-step with a real client stack in the server-double world; upload stanzas checked on the wire, signatures verified independently",
            "600 (quick) / 30 000 (thorough) histories of 5-30 events (login, key-count request, upload result delivered / error "
            "reply / connection lost before the result, disconnect, server-side close, restart, a fresh peer's first message "
            "consuming a one-time key, replay of that message) with batches of 3-15 keys (812 in a few thorough histories). After "
            "every event the model is compared with load_unsent_prekeys, the stored keys and the uploads seen by the server: "
            "pending == stored minus confirmed, confirmed keys never re-offered, every offered (id, key) is in the store until a "
            "delivered first message consumed it and gone afterwards, a replay delivers nothing, identity/registration id match "
            "the account and the signed prekey verifies under the identity (Curve.verifySignature). Overlapping uploads: the server asks again while earlier uploads are unanswered; results arrive in order, reversed, or the last one is lost. While an upload is unanswered the application issues pings that the server answers (their ids driven past the upload's id): the upload stays unconfirmed. Signed prekey ids are tracked like one-time keys (an id names one key for ever, the server-held one must be in the store); a quarter of the histories start with an unconfirmed first upload followed by a kill; the world's restart rolls back and closes the old connection. Event stray-iq-during-upload (an iq with the unanswered upload's id and type get / set / none / unknown, then the real answer is lost); one restart in four finds the key store locked at first. The account draws the stack options reconnect-on-stream-error (on/off/unset) and auto-trust. A fifth of the logins get a success reply lacking one optional attribute; after every accepted login the keys that were pending have to be offered. Forced histories with uploads of exactly 255/256/257 keys (first upload with such a batch; two unconfirmed half batches offered at one login). Event self-chat: a message to the account's own number.",
            "Trusted: the server double (stores keys on processing the request), python-axolotl. Histories sampled.",
            "DESIGN.md 4/C14"),
    "C17": ("exploration",
            "runtime monitor: harness-side record of every identity a contact published vs. what the observer's key store trusts after each event of generated reinstall/message/restart histories in the world; deliveries judged per direction",
            "240 (quick) / 20 000 (thorough) histories of 6-20 events over 2-3 real accounts (1:1 and group messages both ways, the "
            "contact reinstalling with a fresh key store, restarts of either side) with automatic trust off (option unset) or on. "
            "After every event the harness asks the observer's store which of the contact's identities it trusts: once the two "
            "have exchanged a message a pin must exist; without automatic trust it must stay the first identity, no message from "
            "or for the new identity may be delivered; with automatic trust the pin moves forward only and the last message of "
            "each direction after the change must arrive. Mutants (trust check always true, default on) are caught. Histories include first messages that stay undecryptable on every retransmission (identity presented, no session), the server double giving up after three. In half of the histories the server double sends identity-change notifications to the other accounts when an account re-registers. Event restart-a-busy: A's first start finds its key store locked by another process. Other accounts may have the option on when A has not; clients are created in any order and in half of the histories assembled through YowStackBuilder with the options set on the builder. Event x>a-broadcast: the server relays X's message as a broadcast-list / status message (from = list, participant = X). Calls into a stack that do not return are interrupted after 6 s of processor time and judged like an exception. 40% of the histories relay 1:1 retry receipts with an empty participant attribute (the documented shape).",
            "Trusted: the server double (drops the old installation's keys on re-registration). Histories sampled.",
            "DESIGN.md 4/C17"),
    "C12": ("fault_enumeration",
            "runtime monitor: failpoints at every layer's send/receive of the real default stack (and natural failures) followed by a lock census over all layer objects, follow-up traffic judged by the strict Noise peer, and a blocked-thread detector",
            "Two real clients with the library's complete default stack are logged in against the Noise responder double. For every "
            "layer and sublayer (23 sites) x send/receive x k=1..5 (quick; k<=8 and 4 script orders thorough) the k-th call raises "
            "during a 10-operation script; 7 natural failures (un-encodable attribute, oversized stanza, send while down, "
            "undecodable frame, unknown picture notification, raising application callback, unknown stream error) are added. "
            "After each failure: the error must surface at a caller, no lock object on any layer may stay held, 6 follow-up "
            "sends/receives (one from another thread) and 4 more after a reconnect must be processed - sends are judged by the "
            "strict peer decrypting in counter order. A thread parked on a lock with an unchanged stack is the verdict for "
            "'blocks forever'; a bare timeout is inconclusive. The enumeration site x direction x position is complete.",
            "Sites at/below the cipher in the byte stream (network, segments, noise on receive) are only required not to block on the same connection and to work after a reconnect (an AEAD stream cannot lose bytes).",
            "DESIGN.md 4/C12"),
    "C16": ("exploration",
            "runtime monitor: reference connection state machine stepped in lock-step with a real full-stack client (scripted dispatcher, Noise responder double, virtual clock for the keep-alive thread), compared on probe/dispatcher/wire counters after every event",
            "300 (quick) / 30 000 (thorough) histories of 6-16 events over {connect request, connected, socket error, peer close, "
            "disconnect request, success, failure, 3 stream-error kinds, clock tick, pong} with options reconnect on/off (set or "
            "left at its default), ping interval 1-3 ticks, passive, synchronous/deferred close callback, close reported once or "
            "twice by the dispatcher. The real keep-alive thread runs on a virtual clock (module attribute substituted), deferred "
            "events go through the library's own queue. After every event the reference machine's expected counts (connect "
            "calls, connected/disconnected/authenticated announcements above the network layer and at the top, login attempts = "
            "fresh prologue+hello accepted by the responder, pings on the wire, failures/stream errors delivered upward, "
            "library-initiated closes, writes to a dead dispatcher, reported connection status, presented passive flag) are "
            "compared with what probes, dispatcher log and responder observed. Four seeded mutants are caught. In addition 14 "
            "(quick) / 168 x repetitions (thorough) scripted lifecycles run through the library's real socket and asyncore "
            "dispatchers over loopback TCP (peer close, local disconnect, refused connect, stream error with automatic "
            "reconnect, re-login after the network thread ended, immediate re-login from another thread while the first "
            "connect() has not returned, login failure), with yield injection inside the dispatchers; judged on announcement "
            "counts, network-thread termination, no spurious close, resumed (IK) handshake, exceptions in network threads. Real dispatchers: ECONNRESET is injected into the next socket write of the socket and asyncore dispatchers over loopback; the failing send and a later send from another thread must return, no lock may stay held (layer locks and the dispatcher's), the connection is announced down once and a reconnect logs in and carries a stanza. Further events: the connection going down at line event k of the keep-alive thread's step (random k in histories; k=1..20 as scripted sweeps followed by a relogin with every ping answered), a partial further frame behind a connection-ending stanza, a connect request before the stack's loop has delivered the previous 'disconnected' announcement (judged), the new connection even coming up before that (known finding reconnect-up-before-loop-turn), and for asyncore a disconnect() placed between the loop's descriptor collection and its select(). Upward failure under the real dispatchers: a layer raises on an incoming frame, the application reconnects from another thread once the announcement has reached it while the old network thread is held at its next line; the new connection must log in, stay up, be announced down zero times and carry a stanza. A pong may arrive while the keep-alive thread is still inside the send of its ping (event tick-pong-race and scripted histories), after which answered pings must never time out. After every non-critical failure two threads send at once (the thread that saw the failure inside a long send, a second one joining), with yield injection; the strict peer must still decrypt everything exactly once. Real scenario first-login-reboot: passive login, key upload confirmed by the server thread, the library's own close and non-passive reconnect, with the network thread held at its next line in the control layer until the loop thread has worked off the announcement. Race placement after every non-critical failure: the thread that saw the failure, or a fresh one, is held between cipher counter and write queue while the other sends or acknowledges (five role combinations). Key-request failures: a message from a sender without session, the key request fails (answer without keys; failpoint while it goes down), the sender's next message must be handled like the first. Event connect-request-while-up: refused, nothing changes. Real dispatchers: a layer raises on an incoming frame (harness shared with C12): announced down once, a new connect logs in. Natural failure key-request-without-t: a key-count notification the library cannot parse, then a well-formed one has to lead to an upload. Stream errors with text before condition. Natural failure truncated-compressed-frame (deflate stream without its end): has to be reported, nothing of it delivered. In half of the real upward-failure cases the application asks for a disconnect on the dead connection before it reconnects. Failure stanzas carry a reason code, a reason word or no reason. Natural failure undecryptable-message (fails inside the key manager, answered with a retry receipt), followed first by an encrypted send from another thread.",
            "Trusted: the reference machine (our reading of the statement), scripted dispatcher, loopback server thread. First login (key upload, reconnect) precedes the judged history.",
            "DESIGN.md 4/C16"),
    "C09": ("exploration",
            "runtime monitor: strict by-value tree comparator over stanza->entity->stanza executions for every receive-side class (repository fixtures with re-drawn values + 22 hand-transcribed shapes) and codec round trips (library + reference decoder) of every sendable entity",
            "57 entity fixtures taken from the repository's own entity test modules (structure kept, every free leaf value "
            "re-drawn by kind, repeated children varied) and 22 documented shapes transcribed by hand for receive-side classes "
            "without a fixture are converted to their entity and back (300 draws per class quick, 6 000 thorough) and compared "
            "with a strict comparator (numbers by value; protobuf payloads field-wise). 34 application/library-sendable entity "
            "constructors with generated arguments plus generated message entities are serialised and pushed through the "
            "library encoder, the library decoder and the independent reference decoder. Optional fields: for every receive-side class (a layer or a receive-side entity parses with it) each field is unset / an unset field is set, and when the class's own serialiser answers with pure deletions/additions that stanza must make the same round trip (an absent attribute written back as its default is accepted). Key results mix complete and incomplete users in every order: complete users unchanged, incomplete ones (and only those) reported as errors. Aliasing probe: every text/bytes field of a converted entity is edited, then the same stanza is converted again and must come out unchanged. List-valued fields now and then have 255/256/257 items (where the list header of the wire encoding changes). Stream errors come with condition and text in either order (compared order-insensitively for that node). After every message / receipt / notification stanza a second one from the same sender without its push name and offline marker: nothing of the first shows in it.",
            "Trusted: vf/catalogue.py (our transcription of the documented shapes), vf/refcodec.py. Enumeration-valued attributes keep the documented literal.",
            "DESIGN.md 4/C09"),
    "C06": ("exploration",
            "runtime monitor: recording probes below the protocol group and at the top of stacks assembled from the library's own layer helpers; observed counts/stanzas compared with an ownership rule (package of the entity class) for all 16 module selections x with/without encryption layers",
            "For each of the 16 selections of groups/media/privacy/profiles and both wirings (protocol group alone / below it the "
            "axolotl control+send+receive layers) 33 sendable entity kinds plus generated message entities of every payload "
            "kind are sent from the top, and 32 server-initiated stanza kinds (messages text/media by media type, receipts, acks, "
            "presence, chat state, picture/status/contact/group notifications, calls, ib, success/failure/stream error/features) "
            "are injected at the bottom with generated values (25 draws per cell quick, 500 thorough). Exactly one stanza equal "
            "to the entity's serialisation / one entity of the documented class re-serialising to the stanza is required when "
            "the owning module is selected, nothing and no exception otherwise. The kind x selection x wiring matrix is complete; values are sampled. All cases of one stack run interleaved in a seeded random order; a reach monitor requires an outgoing kind for every (layer, tag) send handler found in the assembled stack. Reply rounds: requests of every kind sent without callbacks, then their result/error replies in random order while others are outstanding: each reply must produce exactly one entity at the top. Delivered entities are read twice (second serialisation must equal the first); incoming receipts with <list> of items are included. With the encryption layers, really encrypted stanzas from a peer with its own key store arrive in five shapes (first message, later message, group message with sender-key distribution, sender key alone, pairwise-only group stanza as sent in answer to a retry): each gives exactly one entity with the text. Every 9th incoming stanza comes once more with an unknown extra attribute and / or child (in front of the known children for notifications, appended elsewhere): still one entity of the same class. Retry receipts that nothing below has to serve reach the application as receipts; with the media module, an encrypted group image message in the shape other clients use (mediatype on the sender-key part only) gives one image entity.",
            "Trusted: the ownership rule (package defining the entity class) and vf/catalogue.py. iq replies are C08's, encrypted stanzas C03's.",
            "DESIGN.md 4/C06"),
    "C07": ("exploration",
            "runtime monitor: stanzas injected into full protocol stacks (axolotl + protocol layers) for all 16 module selections; the answers recorded by the bottom probe are compared with the required acknowledgement (exactly one, matching id/class/type/to/participant/call id)",
            "15 notification kinds (incl. group, contact, encrypt count/identity and unknown types) with and without participant, "
            "6 call kinds, server pings with generated ids and 5 kinds of unpresentable plaintext-proto messages (revoke, empty "
            "payload, unknown media type, media-typed without media type, supported media with the media module left out) are "
            "injected into a stack of bottom probe + axolotl control/send/receive + protocol group for each of the 16 module "
            "selections (40 draws per cell quick, 1 500 thorough). Exactly one ack/receipt/pong with the stanza's id, class, "
            "type, sender, participant (absent when absent) and call id must be sent down. Four seeded mutants are caught. Encrypt-count notifications carry values over the whole range (0, 9, 10, 11, 100, 811, 812, random). Status notifications come with absent, empty, 1-byte, multi-byte and long bodies. Every 5th stanza is delivered again at once and one from 2 / 9 / 70 stanzas ago every 7th time: answered like a first delivery. Every 9th stanza carries an unknown extra attribute and / or child; senders inside newer group ids without a dash, broadcast lists and the status list. Revoke messages leave the protocol-message type at its (unserialised) default half of the time.",
            "Trusted: our reading of the required answer shapes. Kinds x selections complete, values sampled.",
            "DESIGN.md 4/C07"),
    "C08": ("exploration",
            "runtime monitor: reference registry (dict id -> pending request) run in lock-step with request/reply histories through a YowInterfaceLayer subclass on top of the full protocol group; logged callbacks compared with the prediction after every delivery",
            "12 000 (quick) / 300 000 (thorough) histories: up to 8 requests of 18 kinds (ping, last seen, picture get/set, status "
            "set/get, privacy, all group operations, contact sync, media upload request) issued through _sendIq with unique "
            "closures, then deliveries drawn from {result of the documented shape, error, duplicate of an answered reply, "
            "unknown id, non-reply stanza carrying a pending id, reply to a request of another stack instance} in random order, "
            "with and without the axolotl layers. Exactly the predicted callback must fire, once, with the original request "
            "object and the matching reply; anything else must fire nothing. Library-internal requests (key fetch incl. "
            "error/unknown/duplicate replies, key upload) are judged by their effect (message sent once / keys marked sent). "
            "Four seeded mutants (shared registry, both callbacks, entry not removed, original not attached) are caught. The send layer's internal chain for a first group message (group info, then one key request for all members without session) runs with key results that leave members out and with replayed results: the message leaves exactly once, the sender key goes to exactly the keyed members, replays trigger nothing. Concurrent runs: 2-4 application threads and a keep-alive-like sender issue requests while a receive thread answers them, with yield injection in the registry code; every callback / reply entity exactly once. Non-reply iq stanzas carrying a pending id have type get, set, none or an unknown one; upload requests are answered with both result shapes. A quarter of the requests are twins of an earlier one (same target and arguments, new id), issued while the first is outstanding or after it was answered. Group-list replies are generated lists of 0..4 groups (empty container included). Error replies carry a back-off attribute in 30% of the cases. The first group message is also sent when some members already have a pairwise session: keys are requested for exactly the others and the message leaves once.",
            "Trusted: the reference registry and the documented reply shapes of vf/catalogue.py. Histories sampled.",
            "DESIGN.md 4/C08"),
}

NOT_BUILT = "check not built yet in this session (planned, see DESIGN.md section 4)"


def main():
    props = [json.loads(l)["id"] for l in open(os.path.join(VERIF, "properties.jsonl"))]
    checks = []
    for pid in props:
        if pid not in CHECKS:
            continue
        level, tech, text, note, ref = CHECKS[pid]
        checks.append({
            "property_id": pid,
            "quick_cmd": "./check %s --tier quick" % pid,
            "thorough_cmd": "./check %s --tier thorough" % pid,
            "evidence_file": "evidence/%s.json" % pid,
            "replay_cmd_template": "./check %s --replay {path}" % pid,
            "engine": "vf",
            "level_claimed": {"category": level, "text": text, "design_ref": ref},
            "level_note": note,
            "technique": tech,
        })
    na_reasons = {}
    extra = os.path.join(VERIF, "tools", "not_applicable.json")
    if os.path.exists(extra):
        na_reasons = json.load(open(extra))
    man = {
        "version": 1,
        "setup_cmd": "./setup.sh",
        "hooks": {
            "guard": "YOWSUP_VERIF",
            "enable": "no source hooks: monitors attach from outside (probe layers in the stack, substituted dispatcher "
                      "factory / module attributes, sys.monitoring, sqlite3 connection factory); checks import /repo's "
                      "working tree afresh in new processes with YOWSUP_VERIF=1 set (unused by the repository)",
            "baseline_off_cmd": BASELINE_OFF,
            "source_commits": [],
            "add_only": True,
        },
        "engines": [{
            "name": "vf",
            "path": "vf/",
            "serves_properties": [c["property_id"] for c in checks],
            "kind_free_text": "runtime monitoring: generated/hostile/fault-injected workloads over the real code in subprocess "
                              "workers, oracles at boundaries (probe layers, reference implementations, reference models), "
                              "three-valued verdicts, evidence with reach counters",
        }],
        "checks": checks,
        "notes": "Known findings: known_findings.txt (keyed by mechanism). Exit 2 without a VIOLATION line = inconclusive.",
        "not_applicable": [{"property_id": p, "reason": na_reasons.get(p, NOT_BUILT)} for p in props if p not in CHECKS],
    }
    with open(os.path.join(VERIF, "MANIFEST.json"), "w") as f:
        json.dump(man, f, indent=1)
        f.write("\n")
    try:
        sys.path.insert(0, os.path.join(VERIF, ".deps"))
        import jsonschema
        jsonschema.validate(man, json.load(open("/root/.vp/MANIFEST.schema.json")))
        print("MANIFEST.json valid; %d checks, %d not claimed" % (len(checks), len(man["not_applicable"])))
    except ImportError:
        print("MANIFEST.json written (jsonschema not importable here)")


if __name__ == "__main__":
    main()
