#!/bin/sh
# Runs the repository's pinned test-suite with the guard off; prints the pass count (expected: 79 passed).
cd "${1:-/repo}" && env -u YOWSUP_VERIF /venv/bin/python -m pytest -q -p no:cacheprovider --timeout=900 --continue-on-collection-errors 2>&1 | tail -3
