#!/bin/sh
# usage: tools/sweep.sh <tier> <seed list> [ids...]   — runs checks without touching evidence; prints one line per run
tier=$1; seeds=$2; shift 2
ids=${@:-C01 C02 C03 C04 C05 C06 C07 C08 C09 C10 C11 C12 C13 C14 C15 C16 C17 C18 C19 C20}
cd "$(dirname "$0")/.."
./setup.sh >/dev/null
for s in $seeds; do for p in $ids; do
  out=$(./check $p --tier $tier --seed $s --no-evidence 2>&1)
  echo "$out" | grep -v KNOWN-FINDING | tail -1 | cut -c1-160
  echo "$out" | grep "VIOLATION\|what:\|INCONCLUSIVE" | cut -c1-600 | head -6
done; done
