#!/usr/bin/env python3
"""Confirms a seeded breaking change (written by an independent sub-agent in a scratch worktree) and runs checks on it.

usage: tools/seedrun.py <ID> [--worktree DIR] [--checks C01,C02] [--tier quick] [--seeds 0,1]
Steps: (1) repository baseline in the worktree still 79 passed, (2) demo fails with the change, (3) demo passes without
(git stash), (4) copy patch.diff / demo.py / notes.md to /verif/seeded/<ID>/, (5) apply the patch to /repo, run the
checks, undo (git checkout -- .), (6) write meta.json.
"""
import argparse
import json
import os
import re
import shutil
import subprocess
import sys

VERIF = os.path.dirname(os.path.dirname(os.path.abspath(__file__)))


def sh(cmd, cwd=None, timeout=1800):
    p = subprocess.run(cmd, shell=True, cwd=cwd, stdout=subprocess.PIPE, stderr=subprocess.STDOUT, timeout=timeout)
    return p.returncode, p.stdout.decode("utf-8", "replace")


def main():
    ap = argparse.ArgumentParser()
    ap.add_argument("id")
    ap.add_argument("--worktree")
    ap.add_argument("--checks")
    ap.add_argument("--tier", default="quick")
    ap.add_argument("--seeds", default="0")
    ap.add_argument("--skip-confirm", action="store_true")
    ap.add_argument("--sub", default="", help="sub-directory of seeded/<ID>/ for a further round (e.g. r2)")
    ap.add_argument("--via-worktree", action="store_true", help="run the checks with VERIF_REPO=<worktree> instead of patching /repo "
                    "(for use while background runs read /repo)")
    a = ap.parse_args()
    pid = a.id
    wt = a.worktree or (("/tmp/seed%s/%s" % (a.sub[1:], pid)) if a.sub else "/tmp/seed/%s" % pid)
    dest = os.path.join(VERIF, "seeded", pid, a.sub) if a.sub else os.path.join(VERIF, "seeded", pid)
    os.makedirs(dest, exist_ok=True)
    meta = {"property": pid, "worktree_used": wt}
    if os.path.isdir(wt) and not a.skip_confirm:
        rc, out = sh("git diff -- yowsup", cwd=wt)
        if not out.strip():
            print("no change in worktree")
            return 1
        open(os.path.join(dest, "patch.diff"), "w").write(out)
        for f in ("demo.py", "notes.md"):
            if os.path.exists(os.path.join(wt, "SEED", f)):
                shutil.copy(os.path.join(wt, "SEED", f), os.path.join(dest, f))
        rc, out = sh("/venv/bin/python -m pytest -q -p no:cacheprovider --timeout=900 --continue-on-collection-errors 2>&1 | tail -1", cwd=wt)
        m = re.search(r"(\d+) passed", out)
        meta["baseline_with_change"] = out.strip()[-120:]
        ok_tests = bool(m and int(m.group(1)) == 79)
        rc1, out1 = sh("/venv/bin/python SEED/demo.py", cwd=wt, timeout=900)
        meta["demo_with_change"] = {"exit": rc1, "tail": out1.strip()[-300:]}
        # (git stash is shared by all worktrees of a repository: revert with the patch instead)
        sh("git apply -R %s" % os.path.join(dest, "patch.diff"), cwd=wt)
        try:
            rc2, out2 = sh("/venv/bin/python SEED/demo.py", cwd=wt, timeout=900)
        finally:
            sh("git apply %s" % os.path.join(dest, "patch.diff"), cwd=wt)
        meta["demo_without_change"] = {"exit": rc2, "tail": out2.strip()[-300:]}
        meta["confirmed"] = bool(ok_tests and rc1 != 0 and rc2 == 0)
        print("confirm: tests79=%s demo_with=%s demo_without=%s => %s" % (ok_tests, rc1, rc2, meta["confirmed"]))
    else:
        old = os.path.join(dest, "meta.json")
        if os.path.exists(old):
            meta = json.load(open(old))
    # run checks against /repo with the patch applied
    checks = (a.checks.split(",") if a.checks else [pid])
    envp = ""
    if a.via_worktree:
        rc, out = sh("git diff -- yowsup", cwd=wt)
        def body(txt):
            return [l for l in txt.splitlines() if (l.startswith("+") or l.startswith("-")) and not l.startswith(("+++", "---"))]
        if body(out) != body(open(os.path.join(dest, "patch.diff")).read()):
            print("worktree does not hold exactly the patch")
            return 2
        rc, out = sh("git rev-parse HEAD", cwd=wt)
        rc, out2 = sh("git rev-parse HEAD", cwd="/repo")
        if out != out2:
            # /repo has moved on (a fix commit): move the scratch worktree to the same commit, patch re-applied
            pf = os.path.join(dest, "patch.diff")
            rc, o = sh("git apply -R %s && git checkout -q --detach %s && git apply %s" % (pf, out2.strip(), pf), cwd=wt)
            if rc != 0:
                print("cannot move the worktree to /repo's HEAD:", o)
                return 2
        envp = "VERIF_REPO=%s " % wt
        meta["checks_run_via"] = "VERIF_REPO=<scratch worktree at /repo's HEAD with the patch applied>"
    else:
        rc, out = sh("git status --short", cwd="/repo")
        if out.strip():
            print("refusing: /repo has local modifications:\n" + out)
            return 2
        rc, out = sh("git apply %s" % os.path.join(dest, "patch.diff"), cwd="/repo")
        if rc != 0:
            print("patch does not apply to /repo:", out)
            return 2
    results = meta.setdefault("check_results", {})
    try:
        for c in checks:
            for seed in a.seeds.split(","):
                rc, out = sh(envp + "./check %s --tier %s --seed %s --no-evidence" % (c, a.tier, seed), cwd=VERIF, timeout=7200)
                lines = [l for l in out.splitlines() if l.startswith("VIOLATION") or l.strip().startswith("what:") or l.startswith(c + " ") or l.startswith("INCONCLUSIVE")]
                results["%s/%s/seed%s" % (c, a.tier, seed)] = {"exit": rc, "lines": [l[:400] for l in lines[:6]]}
                print("%s %s seed=%s -> exit %d %s" % (c, a.tier, seed, rc, (lines[1][:200] if len(lines) > 1 else (lines[0][:200] if lines else ""))))
    finally:
        if not a.via_worktree:
            sh("git checkout -- .", cwd="/repo")
    meta["caught_by"] = sorted(set(k.split("/")[0] for k, v in results.items() if v["exit"] == 1))
    json.dump(meta, open(os.path.join(dest, "meta.json"), "w"), indent=1)
    return 0


if __name__ == "__main__":
    sys.exit(main())
