"""The world: several real client stacks against an in-process server double, driven by a seeded scheduler.

Clients are real YowStacks built from the library's own layer classes (network, coder, logger, axolotl control,
axolotl send/receive, protocol layers, an application layer derived from YowInterfaceLayer) with real profiles on
disk. The only substitution is the connection dispatcher. In this "framed" wiring every sendData call of the network
layer is one plaintext binary-XML frame, which the server double decodes with the independent reference codec.

Everything runs in one thread: a run is a deterministic function of (script, scheduler seed).
"""
import os
import random

from vf import refcodec, treeeq

S_NET = "s.whatsapp.net"


def tup(tag, attrs=None, children=None, data=None):
    return (tag, dict(attrs or {}), list(children or []), data)


def child(t, tag):
    for c in t[2]:
        if c[0] == tag:
            return c
    return None


def children(t, tag):
    return [c for c in t[2] if c[0] == tag]


# =============================================================================================
class FakeDispatcher(object):
    """Implements the three YowConnectionDispatcher methods; the world decides when callbacks fire."""

    def __init__(self, callbacks, client):
        from yowsup.layers.network.dispatcher.dispatcher import ConnectionCallbacks
        assert isinstance(callbacks, ConnectionCallbacks)
        self.connectionCallbacks = callbacks
        self.client = client
        self.state = "new"        # new -> connecting -> up -> closed
        self.log = []

    def connect(self, host):
        self.log.append(("connect", host))
        self.state = "connecting"
        self.connectionCallbacks.onConnecting()
        self.client.world.on_connect_request(self.client, self)

    def disconnect(self):
        self.log.append(("disconnect", self.state))
        self.client.world.on_disconnect_request(self.client, self)

    def sendData(self, data):
        self.log.append(("sendData", self.state, len(data)))
        self.client.world.on_client_bytes(self.client, self, bytes(data))


def make_app_class():
    from yowsup.layers.interface import YowInterfaceLayer, ProtocolEntityCallback

    class App(YowInterfaceLayer):
        """Echo-demo behaviour: acknowledge every message and every receipt; record everything."""

        def __init__(self):
            super(App, self).__init__()
            self.client = None
            self.auto_ack = True

        def record(self, kind, entity):
            self.client.world.log_app(self.client, kind, entity)

        @ProtocolEntityCallback("message")
        def onMessage(self, entity):
            self.record("message", entity)
            if self.auto_ack:
                self.toLower(entity.ack())

        @ProtocolEntityCallback("receipt")
        def onReceipt(self, entity):
            self.record("receipt", entity)
            if self.auto_ack:
                self.toLower(entity.ack())

        @ProtocolEntityCallback("ack")
        def onAck(self, entity):
            self.record("ack", entity)

        @ProtocolEntityCallback("success")
        def onSuccess(self, entity):
            self.record("success", entity)

        @ProtocolEntityCallback("failure")
        def onFailure(self, entity):
            self.record("failure", entity)

        @ProtocolEntityCallback("notification")
        def onNotification(self, entity):
            self.record("notification", entity)

        @ProtocolEntityCallback("iq")
        def onIq(self, entity):
            self.record("iq", entity)

        @ProtocolEntityCallback("presence")
        def onPresence(self, entity):
            self.record("presence", entity)

        @ProtocolEntityCallback("chatstate")
        def onChatstate(self, entity):
            self.record("chatstate", entity)

        @ProtocolEntityCallback("call")
        def onCall(self, entity):
            self.record("call", entity)

        @ProtocolEntityCallback("ib")
        def onIb(self, entity):
            self.record("ib", entity)

    return App


_App = []


def app_class():
    if not _App:
        _App.append(make_app_class())
    return _App[0]


class Client(object):
    def __init__(self, world, phone, modules=None, props=None, generation=0, wiring=None):
        self.world = world
        self.wiring = wiring or world.wiring
        self.phone = phone
        self.jid = "%s@%s" % (phone, S_NET)
        self.generation = generation
        self.modules = modules or {"groups": True, "media": True, "privacy": True, "profiles": True}
        self.props = dict(props or {})
        self.dispatcher = None
        self.dispatchers = []
        self.connected = False      # a dispatcher is up
        self.authed = False
        self.errors = []
        self.build()

    @property
    def profile_name(self):
        return "w%s_%s" % (self.world.wid, self.phone)

    def build(self):
        from yowsup.stacks import YowStack, YowStackBuilder
        from yowsup.layers import YowParallelLayer
        from yowsup.layers.network import YowNetworkLayer
        from yowsup.layers.coder import YowCoderLayer
        from yowsup.layers.logger import YowLoggerLayer
        from yowsup.layers.axolotl import AxolotlSendLayer, AxolotlControlLayer, AxolotlReceivelayer
        from yowsup.profile.profile import YowProfile
        from yowsup.config.manager import ConfigManager
        from yowsup.config.v1.config import Config
        from yowsup.common.tools import StorageTools
        name = self.profile_name
        if ConfigManager().load(name, profile_only=True) is None:
            from consonance.structs.keypair import KeyPair
            cfg = Config(phone=self.phone, cc=self.phone[:2], pushname="N" + self.phone[-3:], client_static_keypair=KeyPair.generate())
            ConfigManager().save(name, cfg)
        self.profile = YowProfile(name)
        self.app = app_class()()
        self.app.client = self
        if self.wiring == "full":
            # the library's own default layers: network, segments, noise, coder, logger, axolotl, protocol layers
            layers = YowStackBuilder.getDefaultLayers(**self.modules) + (self.app,)
            if self.world.with_probes:
                from vf.probes import Probe
                self.probe_low, self.probe_top = Probe("low", transparent_detached="up"), Probe("top")
                layers = (layers[0], self.probe_low) + layers[1:] + (self.probe_top,)
        else:
            layers = (YowNetworkLayer, YowCoderLayer, YowLoggerLayer, AxolotlControlLayer,
                      YowParallelLayer((AxolotlSendLayer, AxolotlReceivelayer)),
                      YowParallelLayer(YowStackBuilder.getProtocolLayers(**self.modules)), self.app)
        from yowsup.layers.protocol_iq import YowIqProtocolLayer
        # no keep-alive thread unless a check asks for it: it runs on wall-clock time and would outlive the world
        props = {"profile": self.profile, YowIqProtocolLayer.PROP_PING_INTERVAL: 0}
        props.update(self.props)
        if getattr(self.world, "builder_assembly", False):
            # assembled the way an application does it with the library's builder: options set on the builder, layers pushed
            b = YowStackBuilder()
            for k_, v_ in props.items():
                b.setProp(k_, v_)
            for l_ in layers:
                b.push(l_)
            self.stack = b.build()
            self.world.count("stacks_built_with_builder")
        else:
            self.stack = YowStack(layers, reversed=False, props=props)
        self.net = self.stack.getLayer(0)
        self.noise = None
        i = 0
        while True:
            try:
                l = self.stack.getLayer(i)
            except IndexError:
                break
            if l.__class__.__name__ == "YowNoiseLayer":
                self.noise = l
            i += 1
        client = self

        def factory(dispatcher_type):
            d = FakeDispatcher(client.net, client)
            client.dispatcher = d
            client.dispatchers.append(d)
            return d
        self.net._YowNetworkLayer__create_dispatcher = factory

    def manager(self):
        return self.profile.axolotl_manager

    def passive(self):
        from yowsup.layers.auth import YowAuthenticationProtocolLayer
        return bool(self.stack.getProp(YowAuthenticationProtocolLayer.PROP_PASSIVE, False))

    def ready(self):
        return self.connected and self.authed and not self.passive()

    def guarded(self, fn, what):
        """Run a call into the stack; an escaping exception is recorded (the checks judge it). A call that does not come back
        within HANG_SECONDS of wall time (a loop without end inside the library) is interrupted and recorded as LibraryHang."""
        import signal, threading as _th
        timed = _th.current_thread() is _th.main_thread() and hasattr(signal, "setitimer")
        if timed:
            limit = getattr(self.world, "hang_seconds", HANG_SECONDS)

            def on_alarm(signum, frame):
                raise LibraryHang("call into the stack did not return after %d s of processor time (%s)" % (limit, what))
            # (processor time of this process, not wall time: a loaded machine does not make a call look endless)
            old_h = signal.signal(signal.SIGVTALRM, on_alarm)
            signal.setitimer(signal.ITIMER_VIRTUAL, limit)
        try:
            try:
                fn()
                return True
            finally:
                if timed:
                    signal.setitimer(signal.ITIMER_VIRTUAL, 0)
                    signal.signal(signal.SIGVTALRM, old_h)
        except Exception as e:  # noqa
            import traceback
            fr = [fs for fs in traceback.extract_tb(e.__traceback__) if "/yowsup/" in fs.filename][-1:]
            where = "%s:%s" % (os.path.basename(fr[0].filename), fr[0].name) if fr else "?"
            if isinstance(e, LibraryHang):
                where = "endless"       # (the frame the interrupt happened to hit says nothing)
            self.errors.append({"what": what, "type": type(e).__name__, "msg": str(e)[:300], "where": where})
            self.world.log.append(("exception", self.phone, what, type(e).__name__, str(e)[:200]))
            if isinstance(e, LibraryHang):
                # whatever the endless loop wrote meanwhile is not worth delivering: the verdict is the hang itself
                self.world.server.inbound[self.phone] = []
                self.world.count("library_hangs")
            return False


HANG_SECONDS = 30


class LibraryHang(Exception):
    pass


# =============================================================================================
class Account(object):
    def __init__(self):
        self.identity = None
        self.registration = None
        self.djb_type = None
        self.skey = None            # (id, value, signature) bytes
        self.prekeys = []           # [(id bytes, value bytes)] FIFO
        self.uploads = []           # history of uploads: dicts
        self.consumed = []


class Server(object):
    """The behaviour of the server the client relies on (our reading)."""

    def __init__(self, world):
        self.world = world
        self.accounts = {}          # jid -> Account
        self.groups = {}            # gjid -> {"participants": [jids], "subject", "creator", "creation"}
        self.inbound = {}           # client -> [trees] (FIFO from that client's current connection)
        self.outbound = {}          # client phone -> [trees] waiting for delivery on its current connection
        self.offline = {}           # phone -> [trees] queued while disconnected
        self.t = 1600000000
        self.faults = {}            # message id -> {"dup": bool, "corrupt": bool}
        self.done_faults = set()
        self.tx_count = {}
        self.iq_ids_seen = []
        self.notify_identity_change = False
        self.identity_notes = 0
        self.keyless_answers = {}   # (requester phone, jid) -> why the directory had no keys for jid
        self.msg_routes = []        # log: (msgid, sender, recipient, kind)
        self.acked_by_client = []
        self.sid = 0
        self.key_errors = {}        # jid -> ("code","text") makes key fetch fail
        self.hold_upload_reply = set()   # phones whose key-upload result is withheld
        self.upload_reply_error = set()  # phones whose next upload gets an error reply
        self.delay_upload_reply = set()  # phones whose key-upload results are kept back until release_upload_replies()
        self.delayed_results = {}        # phone -> [(upload dict, result stanza)]
        self.ask_keys_ids = 0
        self.auto_success = True
        self.retry_participant_empty = False  # 1:1 retry receipts are relayed with participant="" (documented shape)
        self.skmsg_first = False             # group messages are relayed with the sender-key <enc> before the pairwise one
        self.reduced_success_once = set()    # phones whose next <success> lacks the attributes in reduced_success_drop
        self.reduced_success_drop = ("creation",)
        self.low_keys = 0                # ask an account for more keys when fewer than this many are left
        self.asked_low = set()

    def now(self):
        self.t += 1
        return str(self.t)

    def success_stanza(self):
        return tup("success", {"t": self.now(), "props": "4", "creation": "1500000000", "location": "frc"})

    def new_id(self, prefix="srv"):
        self.sid += 1
        return "%s%d" % (prefix, self.sid)

    # -- plumbing ---------------------------------------------------------------------------
    def to_client(self, phone, tree):
        c = self.world.clients.get(phone)
        if c is not None and c.connected:
            self.outbound.setdefault(phone, []).append(tree)
        else:
            self.offline.setdefault(phone, []).append(tree)

    def on_connected(self, client):
        self.outbound[client.phone] = []
        self.inbound.setdefault(client.phone, [])
        if self.auto_success:
            st_ = self.success_stanza()
            if client.phone in self.reduced_success_once:
                # a success reply without some of its optional attributes (once for this account)
                self.reduced_success_once.discard(client.phone)
                drop = self.reduced_success_drop
                st_ = (st_[0], {k: v for k, v in st_[1].items() if k not in drop}, st_[2], st_[3])
                self.world.count("reduced_success_sent")
            self.outbound[client.phone].append(st_)
        for st in self.offline.pop(client.phone, []):
            if st[0] in ("message", "receipt"):
                st = (st[0], dict(st[1], offline="0"), st[2], st[3])
            self.outbound[client.phone].append(st)

    def on_closed(self, client):
        # undelivered stanzas go back to the offline queue (the server only forgets what was acknowledged; we keep
        # it simple: everything not yet handed to the connection is re-queued in order)
        rest = self.outbound.pop(client.phone, [])
        rest = [s for s in rest if s[0] != "success"]
        if rest:
            self.offline[client.phone] = rest + self.offline.get(client.phone, [])
        # what the client wrote before closing has reached the server (graceful TCP close): it stays queued

    # -- stanza handling --------------------------------------------------------------------
    def process(self, client, t):
        tag, attrs = t[0], t[1]
        self.world.count("srv_in:" + tag)
        h = getattr(self, "on_" + tag.replace(":", "_"), None)
        if h is None:
            self.world.log.append(("srv-unhandled", client.phone, tag))
            return
        h(client, t)

    def on_iq(self, client, t):
        a = t[1]
        xmlns = a.get("xmlns")
        self.world.count("srv_iq:%s:%s" % (xmlns, a.get("type")))
        self.iq_ids_seen.append((client.phone, a.get("id")))
        if xmlns == "encrypt" and a.get("type") == "set":
            return self.iq_set_keys(client, t)
        if xmlns == "encrypt" and a.get("type") == "get":
            return self.iq_get_keys(client, t)
        if xmlns == "w:g2" and a.get("type") == "get" and child(t, "query") is not None:
            return self.iq_group_info(client, t)
        if xmlns == "w:p":
            return self.to_client(client.phone, tup("iq", {"id": a["id"], "type": "result", "from": S_NET}))
        hook = self.world.iq_hook
        if hook is not None and hook(self, client, t):
            return
        if a.get("type") in ("get", "set"):
            self.to_client(client.phone, tup("iq", {"id": a["id"], "type": "result", "from": a.get("to", S_NET)}))

    def iq_set_keys(self, client, t):
        acc = self.accounts.setdefault(client.jid, Account())
        up = {"id": t[1]["id"], "identity": child(t, "identity")[3], "registration": child(t, "registration")[3],
              "type": child(t, "type")[3], "keys": [(child(k, "id")[3], child(k, "value")[3]) for k in child(t, "list")[2]],
              "skey": tuple(child(child(t, "skey"), x)[3] for x in ("id", "value", "signature")), "confirmed": None}
        acc.uploads.append(up)
        self.world.log.append(("upload", client.phone, up["id"], len(up["keys"])))
        if client.phone in self.upload_reply_error:
            self.upload_reply_error.discard(client.phone)
            up["confirmed"] = False
            return self.to_client(client.phone, tup("iq", {"id": t[1]["id"], "type": "error", "from": S_NET}, [tup("error", {"code": "500", "text": "internal-server-error"})]))
        # the server stores the keys when it processes the request, whether or not the reply gets through
        if acc.identity is not None and acc.identity != up["identity"]:
            # the account re-registered with a new identity (reinstall): keys of the old installation are void
            acc.prekeys = []
            self.world.count("srv_identity_changes")
            if self.notify_identity_change:
                # like the real server: the account's contacts are told that its identity changed
                for other in list(self.world.clients):
                    if other != client.phone:
                        self.identity_notes += 1
                        self.to_client(other, tup("notification", {"from": client.jid, "type": "encrypt", "id": "idc%d" % self.identity_notes, "t": self.now()}, [tup("identity", {})]))
                        self.world.count("srv_identity_change_notifications")
        acc.identity, acc.registration, acc.djb_type, acc.skey = up["identity"], up["registration"], up["type"], up["skey"]
        acc.prekeys.extend(up["keys"])
        self.asked_low.discard(client.jid)
        if client.phone in self.hold_upload_reply:
            up["confirmed"] = False
            return
        if client.phone in self.delay_upload_reply:
            up["confirmed"] = False
            self.delayed_results.setdefault(client.phone, []).append((up, tup("iq", {"id": t[1]["id"], "type": "result", "from": S_NET})))
            return
        up["confirmed"] = True
        self.to_client(client.phone, tup("iq", {"id": t[1]["id"], "type": "result", "from": S_NET}))

    def release_upload_replies(self, phone, order="fifo", keep_last=0):
        """Send the key-upload results kept back for this connection (fifo/lifo); the last keep_last stay lost."""
        held = self.delayed_results.pop(phone, [])
        if keep_last:
            held = held[:-keep_last]
        if order == "lifo":
            held = held[::-1]
        for up, st in held:
            up["confirmed"] = True
            self.to_client(phone, st)
        return len(held)

    def iq_get_keys(self, client, t):
        users = []
        for u in child(t, "key")[2]:
            jid = u[1]["jid"]
            acc = self.accounts.get(jid)
            if jid in self.key_errors or acc is None or acc.identity is None:
                # no keys in the directory for this account (never uploaded, or forced by a test): the answer omits it
                why = "forced" if jid in self.key_errors else "never-uploaded"
                self.keyless_answers.setdefault((client.phone, jid), why)
                self.world.log.append(("keys-none", client.phone, jid, why, self.world.steps))
                continue
            kids = [tup("registration", data=acc.registration), tup("type", data=acc.djb_type), tup("identity", data=acc.identity),
                    tup("skey", {}, [tup("id", data=acc.skey[0]), tup("value", data=acc.skey[1]), tup("signature", data=acc.skey[2])])]
            if acc.prekeys:
                kid, val = acc.prekeys.pop(0)
                acc.consumed.append((kid, val, client.phone))
                kids.append(tup("key", {}, [tup("id", data=kid), tup("value", data=val)]))
                self.world.count("srv_prekeys_served")
                if len(acc.prekeys) < self.low_keys and jid not in self.asked_low:
                    # like the real server: tell the account that its stock of one-time keys runs low
                    self.asked_low.add(jid)
                    self.ask_for_keys(jid.split("@")[0], len(acc.prekeys))
            else:
                self.world.count("srv_prekeys_exhausted")
            users.append(tup("user", {"jid": jid}, kids))
        self.to_client(client.phone, tup("iq", {"id": t[1]["id"], "type": "result", "from": S_NET}, [tup("list", {}, users)]))

    def iq_group_info(self, client, t):
        gjid = t[1]["to"]
        g = self.groups.get(gjid)
        if g is None:
            return self.to_client(client.phone, tup("iq", {"id": t[1]["id"], "type": "error", "from": gjid}, [tup("error", {"code": "404", "text": "item-not-found"})]))
        parts = [tup("participant", dict({"jid": p}, **({"type": "admin"} if p == g["creator"] else {}))) for p in g["participants"]]
        grp = tup("group", {"id": gjid.split("@")[0], "creator": g["creator"], "creation": "1500000000", "subject": g["subject"], "s_t": "1500000001", "s_o": g["creator"]}, parts)
        self.to_client(client.phone, tup("iq", {"id": t[1]["id"], "type": "result", "from": gjid}, [grp]))

    def on_message(self, client, t):
        a = t[1]
        mid, to = a["id"], a["to"]
        self.world.wire_messages.append((client.phone, t))
        self.to_client(client.phone, tup("ack", {"class": "message", "id": mid, "from": to, "t": self.now()}))
        base = {"id": mid, "type": a.get("type", "text"), "t": self.now(), "notify": "N" + client.phone[-3:]}
        encs = children(t, "enc")
        plain = [c for c in t[2] if c[0] not in ("enc", "participants")]
        if "-" in to.split("@")[0]:
            g = self.groups.get(to)
            if g is None:
                return
            directed = a.get("participant")
            per = {}
            pnode = child(t, "participants")
            if pnode is not None:
                for tonode in pnode[2]:
                    per[tonode[1]["jid"]] = child(tonode, "enc")
            targets = [directed] if directed else [p for p in g["participants"] if p != client.jid]
            for p in targets:
                kids = []
                if p in per:
                    kids.append(per[p])
                kids.extend(encs)
                if self.skmsg_first and len(kids) > 1:
                    # (the order of the <enc> siblings carries nothing: this server puts the sender-key part first)
                    kids.reverse()
                    self.world.count("srv_enc_children_reversed")
                kids.extend(plain)
                self.route_message(client, mid, p, tup("message", dict(base, **{"from": to, "participant": client.jid}), kids), "group")
        else:
            self.route_message(client, mid, to, tup("message", dict(base, **{"from": client.jid}), list(t[2])), "direct")

    def route_message(self, sender, mid, recipient_jid, stanza, kind):
        phone = recipient_jid.split("@")[0]
        key = (mid, phone)
        f = self.faults.get(mid, {})
        self.msg_routes.append((mid, sender.phone, phone, kind))
        if f.get("corrupt_all"):
            # the library retries without bound; the server stops relaying a message after three damaged transmissions
            n_tx = self.tx_count[key] = self.tx_count.get(key, 0) + 1
            if n_tx > 3:
                self.world.count("undecryptable_message_dropped_by_server")
                return
        if (f.get("corrupt_all") or (f.get("corrupt") and ("corrupt", key) not in self.done_faults)) and children(stanza, "enc"):
            self.done_faults.add(("corrupt", key))
            kids = list(stanza[2])
            for i, c in enumerate(kids):
                if c[0] == "enc" and c[3]:
                    d = bytearray(c[3])
                    if f.get("corrupt_all"):
                        # every (re)transmission is damaged, in the authentication tag of the (inner) message, so that the
                        # envelope still presents the sender's identity and key ids intact
                        if c[1].get("type") == "pkmsg":
                            from axolotl.protocol import whisperprotos_pb2 as wp
                            m = wp.PreKeyWhisperMessage()
                            m.ParseFromString(bytes(d[1:]))
                            inner = bytearray(m.message)
                            inner[-2] ^= 0x21
                            m.message = bytes(inner)
                            d = bytearray(bytes(d[:1]) + m.SerializeToString())
                        else:
                            d[-2] ^= 0x21
                    else:
                        d[len(d) // 2] ^= 0x21
                    kids[i] = (c[0], c[1], c[2], bytes(d))
                    break
            stanza = (stanza[0], stanza[1], kids, stanza[3])
            self.world.count("fault_corrupt_injected")
            self.world.log.append(("fault-corrupt", mid, phone))
        if f.get("as_broadcast") and kind == "direct":
            # relayed the way the server relays a broadcast-list / status message: 'from' names the list, 'participant' the sender
            a_ = dict(stanza[1], **{"from": f["as_broadcast"], "participant": stanza[1]["from"]})
            stanza = (stanza[0], a_, stanza[2], stanza[3])
            self.world.count("relayed_as_broadcast")
        self.to_client(phone, stanza)
        if f.get("dup") and ("dup", key) not in self.done_faults:
            self.done_faults.add(("dup", key))
            self.to_client(phone, stanza)
            self.world.count("fault_dup_injected")
            self.world.log.append(("fault-dup", mid, phone))

    def on_receipt(self, client, t):
        a = t[1]
        self.world.wire_receipts.append((client.phone, t))
        ack = {"class": "receipt", "id": a["id"], "from": a.get("to", S_NET), "t": self.now()}
        if a.get("type"):
            ack["type"] = a["type"]
        if a.get("participant"):
            ack["participant"] = a["participant"]
        self.to_client(client.phone, tup("ack", ack))
        to = a.get("to")
        if not to:
            return
        out = {"id": a["id"], "t": self.now()}
        if a.get("type"):
            out["type"] = a["type"]
        if "-" in to.split("@")[0] or to.endswith("@broadcast"):
            # receipt for a group (or broadcast-list) message: goes to the author (participant), from the group, participant = receiver
            author = a.get("participant")
            if not author:
                return
            out["from"] = to
            out["participant"] = client.jid
            self.to_client(author.split("@")[0], tup("receipt", out, list(t[2])))
        else:
            out["from"] = client.jid
            if self.retry_participant_empty and a.get("type") == "retry":
                out["participant"] = ""      # (the documented shape of a 1:1 retry receipt carries an empty participant attribute)
            self.to_client(to.split("@")[0], tup("receipt", out, list(t[2])))

    def on_ack(self, client, t):
        self.acked_by_client.append((client.phone, dict(t[1])))

    def on_presence(self, client, t):
        pass

    def on_chatstate(self, client, t):
        pass

    # -- server initiated -------------------------------------------------------------------
    def ask_for_keys(self, phone, count=0):
        self.ask_keys_ids += 1
        nid = "nk%d" % self.ask_keys_ids
        self.to_client(phone, tup("notification", {"from": S_NET, "type": "encrypt", "id": nid, "t": self.now()}, [tup("count", {"value": str(count)})]))
        return nid


# =============================================================================================
class World(object):
    _wid = [0]

    def __init__(self, seed, strategy="uniform", batch=8, sync_disconnect=True, wiring="framed"):
        from yowsup.axolotl.manager import AxolotlManager
        World._wid[0] += 1
        self.wid = "%d_%d" % (os.getpid(), World._wid[0])
        self.rnd = random.Random(seed)
        self.strategy = strategy
        self.clients = {}
        self.server = Server(self)
        self.log = []
        self.app_log = []          # (phone, kind, entity)
        self.wire_frames = []      # (phone, bytes) every frame that left any client
        self.wire_messages = []
        self.wire_receipts = []
        self.counters = {}
        self.pending_connects = []   # (client, dispatcher)
        self.pending_closes = []     # (client, dispatcher)
        self.sync_disconnect = sync_disconnect
        self.script = []
        self.script_pos = 0
        self.trace = []
        self.iq_hook = None
        self.steps = 0
        self.batch = batch
        self._old_batch = AxolotlManager.COUNT_GEN_PREKEYS
        AxolotlManager.COUNT_GEN_PREKEYS = batch
        self.decode_errors = []
        self.stale_writes = []
        self.delivered = []        # (phone, tag, id, type, client generation) of every stanza handed to a client
        self.wiring = wiring
        self.raw_out = {}          # phone -> [bytes] handshake bytes of the Noise responder waiting for delivery
        self.peer_errors = []      # strict-peer failures: (phone, errors)
        self.cipher_frames = []    # (phone, bytes) what really left the client in the full wiring
        self.idle_timeouts = 0
        self.server_static = None
        import threading as _th
        self._cipher_lock = _th.RLock()   # harness state only: writes reaching the dispatcher from several threads are taken one by one
        self.threaded_sends = False
        self.sender_threads = []
        self.hold_pump = False     # deferred events stay queued (the stack's loop has not turned yet)
        self.trailing = {}         # phone -> bytes appended to the next frame delivered to it (full wiring)
        self.chunker = None        # optional: fn(bytes) -> [chunks] for server->client bytes in the full wiring
        self.double_close_report = False
        self.hold_raw = False      # when set, the responder's handshake reply is withheld (connection stuck mid-handshake)
        self.hold_connects = False # when set, pending 'connected' callbacks are not delivered
        self.builder_assembly = False   # clients assemble their stacks through YowStackBuilder (props set on the builder)
        self.with_probes = False   # full wiring: insert recording probes above the network layer and above the application

    def close(self):
        from yowsup.axolotl.manager import AxolotlManager
        AxolotlManager.COUNT_GEN_PREKEYS = self._old_batch
        self.drain_detached()

    def count(self, k, n=1):
        self.counters[k] = self.counters.get(k, 0) + n

    # -- clients ----------------------------------------------------------------------------
    def add_client(self, phone, **kw):
        c = Client(self, phone, **kw)
        self.clients[phone] = c
        return c

    def reinstall_client(self, phone):
        """Fresh installation of the same account: new key store (new identity), same phone number and config."""
        from yowsup.common.tools import StorageTools
        old = self.clients[phone]
        db = os.path.join(StorageTools.getStorageForProfile(old.profile_name), "axolotl.db")
        c = self.restart_client(phone, wipe=db)
        self.count("reinstalls")
        return c

    def restart_client(self, phone, wipe=None, busy=False):
        old = self.clients[phone]
        if old.connected and old.dispatcher is not None:
            self.close_connection(old, old.dispatcher, notify=False)
        old.dead = True
        # the old process is gone: whatever its connection had not committed is lost, its locks are released
        try:
            conn = old.manager()._store.sessionStore.dbConn
            conn.rollback()
            conn.close()
        except Exception:
            pass
        if wipe:
            for sfx in ("", "-journal", "-wal", "-shm"):
                if os.path.exists(wipe + sfx):
                    os.remove(wipe + sfx)
        if busy:
            # another process holds the key store's lock past the busy timeout while this one starts: the start is refused (the
            # store cannot be opened); the lock goes away and the client is started again
            import sqlite3, types
            from yowsup.common.tools import StorageTools
            import yowsup.axolotl.store.sqlite.liteaxolotlstore as las
            db = os.path.join(StorageTools.getStorageForProfile(old.profile_name), "axolotl.db")
            locker = sqlite3.connect(db, timeout=0.1)
            locker.isolation_level = None
            locker.execute("BEGIN EXCLUSIVE")
            real = las.sqlite3
            shim = types.SimpleNamespace(**{k: getattr(sqlite3, k) for k in dir(sqlite3) if not k.startswith("__")})
            shim.connect = lambda *a, **kw: sqlite3.connect(*a, **dict(kw, timeout=0.15))     # (instead of waiting sqlite's 5 s)
            las.sqlite3 = shim
            started = None
            try:
                try:
                    started = Client(self, phone, modules=old.modules, props=old.props, generation=old.generation + 1, wiring=old.wiring)
                    started.manager()
                    self.count("busy_start_came_up")
                except sqlite3.OperationalError:
                    started = None
                    self.count("busy_start_refused")
            finally:
                las.sqlite3 = real
                locker.execute("ROLLBACK")
                locker.close()
            if started is not None:
                self.clients[phone] = started
                self.count("restarts")
                return started
        c = Client(self, phone, modules=old.modules, props=old.props, generation=old.generation + 1, wiring=old.wiring)
        self.clients[phone] = c
        self.count("restarts")
        return c

    def log_app(self, client, kind, entity):
        self.app_log.append((client.phone, kind, entity, client.generation))
        self.count("app:" + kind)

    # -- dispatcher callbacks ---------------------------------------------------------------
    def on_connect_request(self, client, d):
        self.pending_connects.append((client, d))

    def on_disconnect_request(self, client, d):
        if d.state in ("closed", "new"):
            return
        if self.sync_disconnect:
            self.close_connection(client, d)
        else:
            self.pending_closes.append((client, d))

    def close_connection(self, client, d, notify=True):
        was_up = d.state == "up"
        d.state = "closed"
        self.pending_connects = [(c, x) for c, x in self.pending_connects if x is not d]
        if client.dispatcher is d:
            client.connected = False
            client.authed = False
        if was_up:
            self.server.on_closed(client)
        if client.phone in self.raw_out:
            self.raw_out[client.phone] = [(x, b) for x, b in self.raw_out[client.phone] if x is not d]
        if notify:
            client.guarded(lambda: d.connectionCallbacks.onDisconnected(), "onDisconnected")
            if self.double_close_report:
                # real dispatchers may report one close twice (local close + end of the read loop)
                client.guarded(lambda: d.connectionCallbacks.onDisconnected(), "onDisconnected")

    def socket_error(self, phone):
        """The connection attempt or the established connection fails with a socket error."""
        c = self.clients[phone]
        d = c.dispatcher
        if d is None or d.state not in ("connecting", "up"):
            return False
        was_up = d.state == "up"
        d.state = "closed"
        self.pending_connects = [(x, y) for x, y in self.pending_connects if y is not d]
        c.connected = False
        c.authed = False
        if was_up:
            self.server.on_closed(c)
        if c.phone in self.raw_out:
            self.raw_out[c.phone] = [(x, b) for x, b in self.raw_out[c.phone] if x is not d]
        c.guarded(lambda: d.connectionCallbacks.onConnectionError(OSError("simulated socket error")), "onConnectionError")
        self.count("socket_errors")
        return True

    def server_close(self, phone):
        """The server (or the network) drops the connection: the client is told by its dispatcher."""
        c = self.clients[phone]
        if c.connected and c.dispatcher is not None:
            self.close_connection(c, c.dispatcher, notify=True)
            self.count("server_closes")

    def on_client_bytes(self, client, d, data):
        if d.state != "up" or getattr(client, "dead", False):
            self.stale_writes.append((client.phone, d.state, len(data)))
            return
        if client.wiring == "full":
            return self.on_cipher_bytes(client, d, data)
        self.wire_frames.append((client.phone, data))
        try:
            t = refcodec.decode(data)
        except refcodec.FormatError as e:
            self.decode_errors.append((client.phone, str(e), data[:40].hex()))
            return
        self.server.inbound.setdefault(client.phone, []).append(t)

    def on_cipher_bytes(self, client, d, data):
        """Full wiring: bytes go to this connection's Noise responder (strict in-order peer)."""
        with self._cipher_lock:
            return self._on_cipher_bytes(client, d, data)

    def _on_cipher_bytes(self, client, d, data):
        self.cipher_frames.append((client.phone, data))
        srv = d.srv
        was_err = srv.state == "error"
        srv.feed(data)
        out = srv.take_out()
        if out:
            self.raw_out.setdefault(client.phone, []).append((d, out))
        while d.srv_seen < len(srv.received):
            payload = srv.received[d.srv_seen]
            d.srv_seen += 1
            self.wire_frames.append((client.phone, payload))
            try:
                t = refcodec.decode(payload)
            except refcodec.FormatError as e:
                self.decode_errors.append((client.phone, str(e), payload[:40].hex()))
                continue
            self.server.inbound.setdefault(client.phone, []).append(t)
        if srv.state == "error" and not was_err:
            self.peer_errors.append((client.phone, list(srv.errors)))

    # -- scheduler --------------------------------------------------------------------------
    def enabled(self):
        acts = []
        if not self.hold_connects:
            for c, d in self.pending_connects:
                acts.append(("connected", c.phone))
        for c, d in self.pending_closes:
            acts.append(("closed", c.phone))
        for phone, q in self.server.inbound.items():
            if q:
                acts.append(("srv", phone))
        for phone, q in self.raw_out.items():
            if q and not self.hold_raw:
                acts.append(("raw", phone))
        for phone, q in self.server.outbound.items():
            c = self.clients.get(phone)
            if q and c is not None and c.connected:
                if c.wiring == "full" and (c.dispatcher is None or getattr(c.dispatcher, "srv", None) is None or c.dispatcher.srv.state != "transport"
                                           or self.raw_out.get(phone)):
                    continue    # one byte stream per connection: the handshake reply goes first
                acts.append(("deliver", phone))
        if self.detached_pending() and not self.hold_pump:
            acts.append(("pump", ""))
        if self.script_pos < len(self.script):
            a = self.script[self.script_pos]
            if self.precondition(a):
                acts.append(("app", ""))
        return acts

    def detached_pending(self):
        from yowsup.stacks import YowStack
        return not YowStack._YowStack__detachedQueue.empty()

    def drain_detached(self):
        from yowsup.stacks import YowStack
        q = YowStack._YowStack__detachedQueue
        n = 0
        while not q.empty() and n < 1000:
            try:
                cb = q.get(False)
            except Exception:
                break
            try:
                cb()
            except Exception as e:  # noqa
                self.log.append(("exception", "?", "detached", type(e).__name__, str(e)[:200]))
            n += 1

    def pump_one(self):
        from yowsup.stacks import YowStack
        q = YowStack._YowStack__detachedQueue
        try:
            cb = q.get(False)
        except Exception:
            return
        try:
            cb()
        except Exception as e:  # noqa
            import traceback
            fr = [fs for fs in traceback.extract_tb(e.__traceback__) if "/yowsup/" in fs.filename][-1:]
            self.log.append(("exception", "?", "detached", type(e).__name__, str(e)[:200], fr[0].name if fr else "?"))
            self.count("detached_exceptions")

    def choose(self, acts):
        r = self.rnd
        s = self.strategy
        if s == "uniform" or len(acts) == 1:
            return r.choice(acts)
        if s == "app-first":
            apps = [a for a in acts if a[0] == "app"]
            if apps and r.random() < 0.8:
                return apps[0]
            return r.choice(acts)
        if s == "app-last":
            rest = [a for a in acts if a[0] != "app"]
            if rest and r.random() < 0.9:
                return r.choice(rest)
            return r.choice(acts)
        if s.startswith("starve:"):
            who = s.split(":")[1]
            rest = [a for a in acts if a[1] != who]
            if rest and r.random() < 0.9:
                return r.choice(rest)
            return r.choice(acts)
        if s == "newest":
            return acts[-1] if r.random() < 0.7 else r.choice(acts)
        return r.choice(acts)

    def step(self):
        acts = self.enabled()
        if not acts:
            return False
        act = self.choose(acts)
        self.trace.append(act)
        self.steps += 1
        kind, who = act
        if kind == "connected":
            for i, (c, d) in enumerate(self.pending_connects):
                if c.phone == who:
                    del self.pending_connects[i]
                    if getattr(c, "dead", False) or d.state != "connecting":
                        break
                    d.state = "up"
                    c.connected = True
                    c.authed = False
                    if c.wiring == "full":
                        from vf import noisepeer
                        if self.server_static is None:
                            self.server_static = noisepeer.gen_static()
                        d.srv = noisepeer.NoiseServer(static=self.server_static)
                        d.srv_seen = 0
                    self.server.on_connected(c)
                    c.guarded(lambda: d.connectionCallbacks.onConnected(), "onConnected")
                    break
        elif kind == "closed":
            for i, (c, d) in enumerate(self.pending_closes):
                if c.phone == who:
                    del self.pending_closes[i]
                    self.close_connection(c, d)
                    break
        elif kind == "srv":
            c = self.clients[who]
            t = self.server.inbound[who].pop(0)
            self.server.process(c, t)
        elif kind == "deliver":
            c = self.clients[who]
            t = self.server.outbound[who].pop(0)
            frame = refcodec.encode_canonical(t)
            empties = [k for k, v in t[1].items() if v == ""]
            if empties:
                # an attribute that is present and empty: written as a raw string of length 0 (the canonical encoding of "" is
                # the 'absent' token, which is another stanza)
                ph = {k: "ZQ%dEMPTYZQ" % i for i, k in enumerate(empties)}
                fb = bytearray(refcodec.encode_canonical((t[0], dict(t[1], **ph), t[2], t[3])))
                for k, v in ph.items():
                    i = bytes(fb).find(v.encode())
                    if i >= 2 and fb[i - 2] == 252 and fb[i - 1] == len(v):
                        fb[i - 2:i + len(v)] = bytearray([252, 0])
                frame = bytes(fb)
                self.count("delivered_with_empty_attribute")
            if t[0] == "success":
                c.authed = True
            self.count("delivered:" + t[0])
            self.delivered.append((who, t[0], t[1].get("id"), t[1].get("type"), c.generation))
            if c.wiring == "full":
                data = c.dispatcher.srv.encrypt(frame)
                if who in self.trailing:
                    # bytes of a further frame that arrive in the same segment and are never completed (the connection ends)
                    data += self.trailing.pop(who)
                    self.count("trailing_partial_frames")
                for ch in (self.chunker(data) if self.chunker else [data]):
                    c.guarded(lambda ch=ch: c.dispatcher.connectionCallbacks.onRecvData(ch), "receive:" + t[0])
            else:
                c.guarded(lambda: c.dispatcher.connectionCallbacks.onRecvData(frame), "receive:" + t[0])
        elif kind == "raw":
            c = self.clients[who]
            d, data = self.raw_out[who].pop(0)
            if d is c.dispatcher and d.state == "up":
                for ch in (self.chunker(data) if self.chunker else [data]):
                    c.guarded(lambda ch=ch: d.connectionCallbacks.onRecvData(ch), "receive:handshake")
        elif kind == "pump":
            self.pump_one()
        elif kind == "app":
            a = self.script[self.script_pos]
            self.script_pos += 1
            self.do_action(a)
        if self.wiring == "full" or any(c.wiring == "full" for c in self.clients.values()):
            self.wait_threads_idle()
        return True

    def undigested_input(self):
        """Harness synchronisation only (never a verdict): bytes handed to a client that its handshake thread has not
        taken yet. Without this a parked worker with a pending wake-up would look idle."""
        for c in self.clients.values():
            if c.wiring != "full" or getattr(c, "dead", False):
                continue
            try:
                noise = c.noise
                q = getattr(noise, "_incoming_segments_queue", None)
                in_hs = noise._in_handshake() if hasattr(noise, "_in_handshake") else False
            except Exception:
                continue
            if q is not None and in_hs and not q.empty():
                return True
        return False

    def worker_starting(self, states):
        """Harness synchronisation only: a handshake worker that was started but has not reached its run() yet."""
        for c in self.clients.values():
            if c.wiring != "full" or getattr(c, "dead", False):
                continue
            try:
                w = getattr(c.noise, "_handshake_worker", None)
            except Exception:
                continue
            if w is not None and w.is_alive():
                fr = states.get(w.name)
                if not fr or not any(f[0] == "handshake.py" for f in fr):
                    return True
        return False

    def wait_threads_idle(self, timeout=20.0):
        """Full wiring only: the handshake worker threads must be parked or finished before the next scheduler step."""
        import time
        from vf import probes
        t0 = time.time()
        while True:
            st = probes.thread_states()
            ws = [s for n, s in st.items() if any(f[0] == "handshake.py" for f in s)]
            if all(probes.parked_forever(s) for s in ws) and not self.undigested_input() and not self.worker_starting(st):
                return True
            if time.time() - t0 > timeout:
                self.idle_timeouts += 1
                return False
            time.sleep(0.0002)

    def join_senders(self, timeout=30.0):
        """Threaded sends: wait for the application's sender threads; returns False when one is stuck."""
        import time as _time
        t0 = _time.time()
        for t_ in list(self.sender_threads):
            t_.join(max(0.01, timeout - (_time.time() - t0)))
        alive = [t_ for t_ in self.sender_threads if t_.is_alive()]
        self.sender_threads = alive
        if alive:
            self.count("sender_threads_stuck")
        return not alive

    def run(self, max_steps=20000):
        while self.steps < max_steps:
            if not self.step():
                if self.sender_threads:
                    # nothing to do for the scheduler, but a sender may still be on its way down: wait for it and look again
                    if not self.join_senders():
                        return False
                    if self.enabled():
                        continue
                # quiescent; script actions whose precondition cannot become true are skipped
                if self.script_pos < len(self.script):
                    self.log.append(("skipped", self.script[self.script_pos]))
                    self.count("script_skipped")
                    self.script_pos += 1
                    continue
                return True
        return False

    # -- script actions ---------------------------------------------------------------------
    def in_flight(self, phone):
        s = self.server
        if s.inbound.get(phone) or s.outbound.get(phone) or s.offline.get(phone):
            return True
        # stanzas of this party queued towards others / answers pending for it
        for q in list(s.outbound.values()) + list(s.offline.values()):
            for t in q:
                a = t[1]
                if phone in (a.get("from", "") + a.get("participant", "")):
                    return True
        if any(c.phone == phone for c, d in self.pending_connects + self.pending_closes):
            return True
        return self.detached_pending()

    def precondition(self, a):
        op = a["op"]
        if op in ("send", "raw", "iq"):
            c = self.clients[a["who"]]
            return c.ready()
        if op in ("restart", "reinstall"):
            # only between messages: nothing at all is in flight (stronger than the quantifier asks, hence sound)
            if self.sender_threads and not self.join_senders():
                return False
            return not self.enabled_no_app()
        if op == "connect":
            c = self.clients[a["who"]]
            return not c.connected and not any(x.phone == a["who"] for x, d in self.pending_connects)
        if op == "disconnect":
            return self.clients[a["who"]].connected
        if op == "wait-quiet":
            return not any(x[0] != "app" for x in self.enabled_no_app())
        return True

    def pending_from(self, who, other):
        return False

    def enabled_no_app(self):
        pos, self.script_pos = self.script_pos, len(self.script)
        try:
            return self.enabled()
        finally:
            self.script_pos = pos

    def do_action(self, a):
        op = a["op"]
        self.count("action:" + op)
        if op == "connect":
            c = self.clients[a["who"]]
            c.guarded(lambda: c.app.connect(), "connect")
        elif op == "disconnect":
            c = self.clients[a["who"]]
            c.guarded(lambda: c.app.disconnect(), "disconnect")
        elif op == "restart":
            c = self.restart_client(a["who"], busy=bool(a.get("busy")))
            c.guarded(lambda: c.app.connect(), "connect")
        elif op == "reinstall":
            c = self.reinstall_client(a["who"])
            c.guarded(lambda: c.app.connect(), "connect")
        elif op == "send":
            c = self.clients[a["who"]]
            ent = a["build"]()
            a["entity_id"] = ent.getId()
            self.log.append(("app-send", a["who"], a.get("uid"), ent.getId()))
            if self.threaded_sends:
                # the application sends from its own thread while the scheduler (the network thread) goes on delivering
                import threading as _th
                t_ = _th.Thread(target=lambda: c.guarded(lambda: c.app.toLower(ent), "send:" + a.get("kind", "?")), name="verif-app-sender-%d" % len(self.sender_threads))
                t_.daemon = True
                self.sender_threads.append(t_)
                t_.start()
                self.count("threaded_sends")
            else:
                c.guarded(lambda: c.app.toLower(ent), "send:" + a.get("kind", "?"))
        elif op == "call":
            a["fn"](self)
        elif op == "wait-quiet":
            pass
