"""./check driver: plans shards, runs them in worker subprocesses, merges, classifies, writes evidence.

Exit codes: 0 held on everything explored (known findings are printed, not failed);
            1 VIOLATION line(s) printed; 2 inconclusive (no VIOLATION line).
"""
import argparse
import importlib
import json
import os
import subprocess
import sys
import tempfile
import time

VERIF = os.path.dirname(os.path.dirname(os.path.abspath(__file__)))
PY = "/venv/bin/python"
KNOWN_FILE = os.path.join(VERIF, "known_findings.txt")


def load_known(prop):
    """Lines `finding: property=<id> key=<mechanism> <what>`; `fixed:` lines suppress nothing."""
    known = {}
    if not os.path.exists(KNOWN_FILE):
        return known
    for line in open(KNOWN_FILE):
        line = line.strip()
        if not line.startswith("finding:"):
            continue
        parts = line.split(None, 3)
        if len(parts) < 3:
            continue
        p = parts[1].split("=", 1)[1]
        k = parts[2].split("=", 1)[1]
        what = parts[3] if len(parts) > 3 else ""
        if p == prop:
            known[k] = what
    return known


def ensure_setup():
    if not os.path.exists(os.path.join(VERIF, ".deps", ".ok")):
        subprocess.run([os.path.join(VERIF, "setup.sh")], check=True, cwd=VERIF,
                       stdout=subprocess.DEVNULL)


def worker_env(seed):
    env = dict(os.environ)
    env["PYTHONHASHSEED"] = "0"
    env["PYTHONDONTWRITEBYTECODE"] = "1"
    env["PYTHONUNBUFFERED"] = "1"
    env["VERIF_SEED"] = str(seed)
    env["YOWSUP_VERIF"] = "1"
    env.pop("PYTHONPATH", None)
    return env


def run_shards(prop, specs, nworkers, seed, default_timeout, acc, verbose=False):
    """Run every shard in its own subprocess (never multiprocessing.Pool)."""
    from vf.evidence import Acc  # noqa
    workdir = tempfile.mkdtemp(prefix="vfdrv-", dir="/dev/shm" if os.path.isdir("/dev/shm") else None)
    pending = list(enumerate(specs))
    running = []
    env = worker_env(seed)
    # workers keep their scratch (profiles, key stores, crash copies) below the driver's own directory, so that whatever a
    # killed worker leaves behind goes away with it
    env["VERIF_SCRATCH_PARENT"] = workdir
    failed = 0
    try:
        while pending or running:
            while pending and len(running) < nworkers:
                i, spec = pending.pop(0)
                sp = os.path.join(workdir, "spec%d.json" % i)
                op = os.path.join(workdir, "out%d.json" % i)
                ep = os.path.join(workdir, "err%d.txt" % i)
                with open(sp, "w") as f:
                    json.dump(spec, f)
                tmo = spec.get("timeout", default_timeout)
                e = dict(env)
                e["VERIF_WORKER_WATCHDOG"] = str(tmo)
                errf = open(ep, "w")
                p = subprocess.Popen([PY, "-m", "vf.worker", prop, sp, op], cwd=VERIF, env=e,
                                     stdout=errf, stderr=subprocess.STDOUT)
                running.append((p, i, spec, op, ep, errf, time.time() + tmo + 30))
            time.sleep(0.02)
            still = []
            for rec in running:
                p, i, spec, op, ep, errf, deadline = rec
                rc = p.poll()
                if rc is None:
                    if time.time() > deadline:
                        p.kill()
                        p.wait()
                        errf.close()
                        acc.inconc("shard %d: watchdog fired (inconclusive)" % i)
                        failed += 1
                    else:
                        still.append(rec)
                    continue
                errf.close()
                if rc == 0 and os.path.exists(op):
                    with open(op) as f:
                        acc.merge(json.load(f))
                else:
                    failed += 1
                    tail = ""
                    try:
                        tail = open(ep).read()[-1500:]
                    except OSError:
                        pass
                    acc.inconc("shard %d (%s): worker exit %s: %s" % (i, spec.get("kind", "?"), rc, tail))
                if verbose:
                    try:
                        sys.stderr.write(open(ep).read())
                    except OSError:
                        pass
            running = still
    finally:
        for rec in running:
            rec[0].kill()
        import shutil
        shutil.rmtree(workdir, ignore_errors=True)
    return failed


def main(argv=None):
    ap = argparse.ArgumentParser(prog="check")
    ap.add_argument("prop")
    ap.add_argument("--tier", default=os.environ.get("VERIF_TIER", "quick"), choices=["quick", "thorough"])
    ap.add_argument("--seed", type=int, default=int(os.environ.get("VERIF_SEED", "0") or 0))
    ap.add_argument("--replay", default=None)
    ap.add_argument("--workers", type=int, default=0)
    ap.add_argument("--no-evidence", action="store_true")
    ap.add_argument("-v", "--verbose", action="store_true")
    args = ap.parse_args(argv)

    os.chdir(VERIF)
    sys.path.insert(0, VERIF)
    ensure_setup()
    from vf.evidence import Acc, write_evidence

    prop = args.prop.upper()
    mod = importlib.import_module("vf.props.%s" % prop.lower())
    t0 = time.time()
    acc = Acc()

    if args.replay:
        with open(args.replay) as f:
            rep = json.load(f)
        specs = [{"kind": "replay", "witness": rep.get("witness"), "key": rep.get("key"), "seed": rep.get("seed", args.seed)}]
        nworkers = 1
        seed = rep.get("seed", args.seed)
        tier = rep.get("tier", args.tier)
    else:
        seed, tier = args.seed, args.tier
        nworkers = args.workers or (int(os.environ.get("VERIF_QUICK_WORKERS", "6")) if tier == "quick"
                                    else int(os.environ.get("VERIF_THOROUGH_WORKERS", "16")))
        specs = mod.shards(tier, seed, nworkers)
        for s in specs:
            s.setdefault("seed", seed)
            s.setdefault("tier", tier)
    default_timeout = getattr(mod, "TIMEOUT", {}).get(tier, 600 if tier == "quick" else 5400)
    run_shards(prop, specs, nworkers, seed, default_timeout, acc, verbose=args.verbose)
    wall = time.time() - t0

    known = load_known(prop)
    unknown = [v for v in acc.violations if v["key"] not in known]
    matched = {}
    for v in acc.violations:
        if v["key"] in known:
            matched.setdefault(v["key"], v)
    # reach requirements: the deciding monitors must actually have observed something
    if not args.replay:
        for name in getattr(mod, "REQUIRED", []):
            if acc.counters.get(name, 0) <= 0:
                acc.inconc("required counter %r is zero: deciding monitor never reached" % name)
        if acc.evaluations == 0:
            acc.inconc("no case evaluated")

    for k in sorted(matched):
        print("KNOWN-FINDING: property=%s %s [%s] (seen %d times this run)" % (
            prop, known[k], k, acc.counters.get("violations_by_key:" + k, 0)))
        acc.count("known_findings_matched")

    rc = 0
    if unknown:
        rc = 1
        os.makedirs(os.path.join(VERIF, "replays", prop), exist_ok=True)
        seen_keys = set()
        for n, v in enumerate(unknown):
            path = os.path.join("replays", prop, "%s-seed%d-%d.json" % (tier, seed, n))
            with open(os.path.join(VERIF, path), "w") as f:
                json.dump({"property": prop, "seed": seed, "tier": tier, "key": v["key"], "what": v["what"],
                           "witness": v["witness"]}, f, indent=1)
            if v["key"] not in seen_keys:
                seen_keys.add(v["key"])
                print("VIOLATION property=%s replay=%s" % (prop, path))
                print("  what: %s [%s]" % (v["what"], v["key"]))
    elif acc.inconclusive:
        rc = 2
        for r in acc.inconclusive:
            print("INCONCLUSIVE property=%s %s" % (prop, r))

    if not args.no_evidence and not args.replay:
        extra = {}
        if hasattr(mod, "evidence_extra"):
            extra = mod.evidence_extra(acc, tier) or {}
        if acc.inconclusive:
            extra["inconclusive"] = acc.inconclusive
        if matched:
            extra["known_findings_matched"] = sorted(matched)
        exhaustive = getattr(mod, "EXHAUSTIVE", None)
        write_evidence(os.path.join(VERIF, "evidence", "%s.json" % prop), prop, tier, seed, mod.LEVEL, acc,
                       mod.RULE, wall, list(getattr(mod, "ASSUMPTIONS", [])), extra=extra,
                       exhaustive=exhaustive, violations=len([1 for v in acc.violations if v["key"] not in known]))
    print("%s %s tier=%s seed=%d evaluations=%d distinct_nontrivial=%d violations=%d known=%d wall=%.1fs" % (
        prop, {0: "HELD", 1: "VIOLATED", 2: "INCONCLUSIVE"}[rc], tier, seed, acc.evaluations, acc.ndistinct(),
        len(unknown), len(matched), wall))
    return rc


if __name__ == "__main__":
    sys.exit(main())
