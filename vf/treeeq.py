"""Strict recursive comparison of stanza trees (never uses ProtocolTreeNode.__eq__).

A tree is anything with .tag, .attributes (dict), .children (list), .data (bytes or None); the plain
tuple form used by the generators, (tag, attrs, children, data), is accepted as well.
"""


def parts(n):
    if isinstance(n, (tuple, list)):
        tag, attrs, children, data = n
        return tag, attrs or {}, children or [], data
    return n.tag, (n.attributes or {}), (n.children or []), n.data


def _num(s):
    if isinstance(s, bool):
        return None
    if isinstance(s, int):
        return s
    if isinstance(s, (bytes, bytearray)):
        try:
            s = bytes(s).decode("ascii")
        except UnicodeDecodeError:
            return None
    if isinstance(s, str) and s and (s.isdigit() or (s[0] == "-" and s[1:].isdigit())) and s.isascii():
        return int(s)
    return None


def val_eq(a, b, by_value, norm=None):
    if a == b and type(a) is type(b):
        return True
    if by_value:
        na, nb = _num(a), _num(b)
        if na is not None and nb is not None and na == nb:
            if norm is not None:
                norm.append((a, b))
            return True
    return False


def diff(a, b, by_value=False, path="", norm=None, ordered_children=True):
    """None when equal, else a string naming the first difference."""
    ta, aa, ca, da = parts(a)
    tb, ab, cb, db = parts(b)
    here = "%s/%s" % (path, ta)
    if ta != tb or type(ta) is not type(tb):
        return "%s: tag %r (%s) != %r (%s)" % (path, ta, type(ta).__name__, tb, type(tb).__name__)
    ka, kb = set(aa), set(ab)
    if ka != kb:
        return "%s: attribute keys differ: only left %r, only right %r" % (here, sorted(map(repr, ka - kb))[:6], sorted(map(repr, kb - ka))[:6])
    for k in aa:
        if not val_eq(aa[k], ab[k], by_value, norm):
            return "%s@%s: %r (%s) != %r (%s)" % (here, k, _short(aa[k]), type(aa[k]).__name__, _short(ab[k]), type(ab[k]).__name__)
    if da is None and db is None:
        pass
    elif (da is None) != (db is None):
        return "%s: content %s vs %s" % (here, "absent" if da is None else "%d bytes" % len(da), "absent" if db is None else "%d bytes" % len(db))
    else:
        if type(da) is not bytes or type(db) is not bytes:
            if not (isinstance(da, (bytes, bytearray)) and isinstance(db, (bytes, bytearray)) and bytes(da) == bytes(db)
                    and type(da) is type(db)):
                return "%s: content types %s vs %s" % (here, type(da).__name__, type(db).__name__)
        elif da != db:
            if by_value and _num(da) is not None and _num(da) == _num(db):
                if norm is not None:
                    norm.append((da, db))
            else:
                i = next((i for i in range(min(len(da), len(db))) if da[i] != db[i]), min(len(da), len(db)))
                return "%s: content differs (len %d vs %d, first difference at byte %d)" % (here, len(da), len(db), i)
    if len(ca) != len(cb):
        return "%s: %d children vs %d" % (here, len(ca), len(cb))
    for i, (x, y) in enumerate(zip(ca, cb)):
        d = diff(x, y, by_value, "%s[%d]" % (here, i), norm)
        if d:
            return d
    return None


def _short(v):
    r = repr(v)
    return r if len(r) < 80 else r[:77] + "..."


def to_tuple(n):
    t, a, c, d = parts(n)
    return (t, dict(a), [to_tuple(x) for x in c], d)


def to_node(t):
    from yowsup.structs import ProtocolTreeNode
    tag, attrs, children, data = parts(t)
    return ProtocolTreeNode(tag, dict(attrs), [to_node(c) for c in children] if children else None, data)


def describe(t, limit=6):
    """Compact JSON-able description of a tree for witnesses/samples."""
    tag, attrs, children, data = parts(t)
    d = {"tag": tag if len(str(tag)) < 60 else str(tag)[:57] + "...(%d)" % len(tag)}
    if attrs:
        d["attrs"] = {(k if len(k) < 40 else k[:37] + "..(%d)" % len(k)): (v if not isinstance(v, str) or len(v) < 40 else v[:37] + "..(%d)" % len(v))
                      for k, v in list(attrs.items())[:limit]}
        if len(attrs) > limit:
            d["n_attrs"] = len(attrs)
    if data is not None:
        d["data"] = {"len": len(data), "head": bytes(data[:12]).hex()}
    if children:
        d["children"] = [describe(c, limit) for c in children[:limit]]
        if len(children) > limit:
            d["n_children"] = len(children)
    return d
