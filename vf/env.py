"""Bootstrap shared by every check worker: paths, compat shims, logging, scratch dir, audit hook.

Importing this module has side effects by design; it must be imported before anything of yowsup.
"""
import os
import sys
import atexit
import shutil
import tempfile
import logging
import faulthandler

VERIF = os.path.dirname(os.path.dirname(os.path.abspath(__file__)))
REPO = os.environ.get("VERIF_REPO", "/repo")
DEPS = os.path.join(VERIF, ".deps")

sys.dont_write_bytecode = True
for p in (VERIF, REPO, DEPS):
    while p in sys.path:
        sys.path.remove(p)
sys.path[0:0] = [DEPS, REPO, VERIF]

# guard name recorded in MANIFEST.hooks (no repository hooks exist; kept so that one could be added)
os.environ.setdefault("YOWSUP_VERIF", "1")

# ---------------------------------------------------------------------------------------------
# scratch directory (profiles, sqlite files, crash children); removed at exit
_SCRATCH_BASE = "/dev/shm" if os.path.isdir("/dev/shm") and os.access("/dev/shm", os.W_OK) else None
_parent = os.environ.get("VERIF_SCRATCH_PARENT")
SCRATCH = tempfile.mkdtemp(prefix="yowverif-", dir=_parent if _parent and os.path.isdir(_parent) else _SCRATCH_BASE)
_OWNER_PID = os.getpid()


def _cleanup():
    if os.getpid() == _OWNER_PID:
        shutil.rmtree(SCRATCH, ignore_errors=True)


atexit.register(_cleanup)

os.environ["XDG_CONFIG_HOME"] = os.path.join(SCRATCH, "xdg")
os.environ["HOME"] = os.path.join(SCRATCH, "home")
os.makedirs(os.environ["XDG_CONFIG_HOME"], exist_ok=True)
os.makedirs(os.environ["HOME"], exist_ok=True)

# ---------------------------------------------------------------------------------------------
# logging: the library is chatty; keep workers' stdout for the driver protocol
logging.basicConfig(level=logging.CRITICAL)
logging.getLogger().setLevel(logging.CRITICAL)
logging.disable(logging.CRITICAL)

# ---------------------------------------------------------------------------------------------
# audit hook: no check may ever talk to anything but loopback
NET_EVENTS = {"connect": 0, "blocked": 0}


def _audit(event, args):
    if event == "socket.connect":
        NET_EVENTS["connect"] += 1
        addr = args[1]
        host = addr[0] if isinstance(addr, tuple) else addr
        if isinstance(host, (bytes, bytearray)):
            host = host.decode("latin-1")
        if isinstance(addr, tuple) and host not in ("127.0.0.1", "::1", "localhost"):
            NET_EVENTS["blocked"] += 1
            raise PermissionError("verif: non-loopback connect to %r refused" % (addr,))
    elif event == "socket.getaddrinfo":
        host = args[0]
        if isinstance(host, (bytes, bytearray)):
            host = host.decode("latin-1")
        if host not in (None, "127.0.0.1", "::1", "localhost", ""):
            NET_EVENTS["blocked"] += 1
            raise PermissionError("verif: name lookup of %r refused" % (host,))


sys.addaudithook(_audit)

# ---------------------------------------------------------------------------------------------
# outer watchdog (inconclusive, never a verdict)
_WD = float(os.environ.get("VERIF_WORKER_WATCHDOG", "0") or 0)
if _WD > 0:
    faulthandler.dump_traceback_later(_WD, exit=True, file=sys.stderr)


def cancel_watchdog():
    faulthandler.cancel_dump_traceback_later()


_shimmed = False


def shim_thirdparty():
    """Compatibility shims for third-party packages under CPython 3.12 (DESIGN.md section 2)."""
    global _shimmed
    if _shimmed:
        return
    _shimmed = True
    import random as _random
    import types
    try:
        import consonance.handshake as ch
        ch.random = types.SimpleNamespace(
            randint=lambda a, b: _random.randint(int(a), int(b)),
            random=_random.random, choice=_random.choice)
    except Exception:  # pragma: no cover - reported by the checks that need it
        pass
    logging.getLogger("yowsup.axolotl.manager").setLevel(logging.WARNING)
    # python-axolotl 0.2.2: AESCipher.encrypt skips PKCS#7 padding for block-aligned input although decrypt always
    # unpads, so 1 message in 16 cannot be decrypted by any peer (third-party defect, outside the repository).
    if not os.environ.get("VERIF_NO_AXOLOTL_PAD_SHIM"):
        try:
            import axolotl.sessioncipher as sc
            from cryptography.hazmat.primitives import padding as _padding

            def _encrypt(self, raw):
                padder = _padding.PKCS7(128).padder()
                enc = self.cipher.encryptor()
                return enc.update(padder.update(bytes(raw)) + padder.finalize()) + enc.finalize()
            sc.AESCipher.encrypt = _encrypt
        except Exception:  # pragma: no cover
            pass


def scratch(name):
    d = os.path.join(SCRATCH, name)
    os.makedirs(d, exist_ok=True)
    return d
