"""Seeded generators. Every random choice derives from (seed, property, case)."""
import random
import string


def rng(seed, prop, case):
    return random.Random("%s/%s/%s" % (seed, prop, case))


DIGITS = "0123456789"
NIBBLE = "0123456789-."
HEXU = "0123456789ABCDEF"
ALNUM = string.ascii_letters + string.digits
LATIN1 = "".join(chr(i) for i in range(1, 256))


def s_from(r, alphabet, n):
    return "".join(r.choice(alphabet) for _ in range(n))


def boundary_len(r, maxlen=300):
    """Lengths with mass on the format's boundaries."""
    c = r.random()
    if c < 0.35:
        return r.randint(1, 12)
    if c < 0.55:
        return r.choice([126, 127, 128, 129, 254, 255, 256, 257])
    if c < 0.9:
        return r.randint(1, min(maxlen, 260))
    return r.randint(1, maxlen)


def phone(r):
    return s_from(r, DIGITS, r.randint(5, 15))


def jid(r, group=False):
    if group:
        return "%s-%s@g.us" % (phone(r), s_from(r, DIGITS, 10))
    return phone(r) + "@s.whatsapp.net"


def msgid(r):
    return s_from(r, HEXU, r.choice([8, 16, 20, 32]))


def timestamp(r):
    return str(r.randint(1, 2 ** 31 - 1))


def blob(r, n=None, lo=0, hi=64):
    n = r.randint(lo, hi) if n is None else n
    return r.getrandbits(8 * n).to_bytes(n, "big") if n else b""


def unicode_text(r, lo=0, hi=40):
    n = r.randint(lo, hi)
    pools = [string.ascii_letters + " ", "äöüßéèñ", "日本語中文", "😀🎉", DIGITS + ".,;:!?"]
    return "".join(r.choice(r.choice(pools)) for _ in range(n))


def subset(r, items):
    return [x for x in items if r.random() < 0.5]


def partitions_of(n):
    """All ways to cut a stream of n bytes into chunks: yields tuples of cut positions (1..n-1)."""
    for mask in range(1 << (n - 1)):
        yield tuple(i + 1 for i in range(n - 1) if mask >> i & 1)


def cut(data, cuts):
    out = []
    prev = 0
    for c in cuts:
        out.append(data[prev:c])
        prev = c
    out.append(data[prev:])
    return out


def random_cuts(r, n, k):
    if n <= 1:
        return ()
    k = min(k, n - 1)
    return tuple(sorted(r.sample(range(1, n), k)))


def count(r, lo, hi, p_boundary=0.02):
    """A list length: usually lo..hi, now and then one at which the list header of the wire encoding changes (255/256/257)."""
    if r.random() < p_boundary:
        return r.choice([255, 256, 256, 257])
    return r.randint(lo, hi)
