"""C13 — key store durability and crash atomicity."""
import os
import shutil
import types

from vf import gen, inject

ID = "C13"
LEVEL = "fault_enumeration"
RULE = ("one evaluation = one operation sequence over the store API run in lock-step with a reference dict model and "
        "compared again after close+reopen; or one crash child killed with os._exit at one boundary (before/after every "
        "SQL statement and commit, every Python line inside store/sqlite/*.py) of the last operation of a sequence, after "
        "which every touched record must be its previous or its new value; or one two-party conversation continued across "
        "restarts; or one history of whole clients whose application threads send while the network thread confirms key "
        "uploads, with the key store files copied as a kill would leave them after every commit, after a sample of statements "
        "and after every commit made while another thread's replacement was half done (c13_threads.py). Non-trivial = the sequence replaces an existing record / the child died inside the operation; distinct "
        "by (sequence hash) / (op kind, state, crash point)")
ASSUMPTIONS = ["SQLite's own atomic commit and the filesystem are trusted; only process death (os._exit) is modelled",
               "sessions use device id 1 and numeric recipient ids, as every caller in the library does",
               "one-time/signed prekeys are stored under fresh ids only (the library never overwrites an id)"]
REQUIRED = ["profile_switch_cases", "profile_switch_ok", "profiles_cases", "profiles_ok", "profiles_ops", "reopen_right_after_again", "busy_start_cases", "busy_start_ok", "sequences", "reopen_checks", "replace_ops", "crash_children", "crash_died_inside", "crash_outcome:old",
            "crash_outcome:new", "conversation_restarts", "crash_kind:sql", "crash_kind:commit", "crash_kind:line",
            "manager_sequences", "manager_kill_snapshots", "manager_prekeys_generated", "crash_cases_with_in_process_history",
            "threads_histories", "threads_crash_copies", "threads_rows_checked", "threads_confirmation_met_half_done_replacement"]
TIMEOUT = {"quick": 900, "thorough": 7200}


# ---------------------------------------------------------------------------------------------
# realistic records (made with python-axolotl's own in-memory stores, not the store under test)
class Material(object):
    def __init__(self, r, nsess=4):
        from axolotl.tests.inmemoryaxolotlstore import InMemoryAxolotlStore
        from axolotl.tests.groups.inmemorysenderkeystore import InMemorySenderKeyStore
        from axolotl.util.keyhelper import KeyHelper
        from axolotl.sessionbuilder import SessionBuilder
        from axolotl.sessioncipher import SessionCipher
        from axolotl.state.prekeybundle import PreKeyBundle
        from axolotl.groups.groupsessionbuilder import GroupSessionBuilder
        from axolotl.groups.senderkeyname import SenderKeyName
        from axolotl.axolotladdress import AxolotlAddress
        from axolotl.groups.groupcipher import GroupCipher
        self.sessions = []       # serialized session records (several versions)
        me = InMemoryAxolotlStore()
        for i in range(nsess):
            peer = InMemoryAxolotlStore()
            pk = KeyHelper.generatePreKeys(10 + i, 1)[0]
            spk = KeyHelper.generateSignedPreKey(peer.getIdentityKeyPair(), 5 + i)
            peer.storePreKey(pk.getId(), pk)
            peer.storeSignedPreKey(spk.getId(), spk)
            bundle = PreKeyBundle(peer.getLocalRegistrationId(), 1, pk.getId(), pk.getKeyPair().getPublicKey(), spk.getId(),
                                  spk.getKeyPair().getPublicKey(), spk.getSignature(), peer.getIdentityKeyPair().getPublicKey())
            rid = 1000 + i
            SessionBuilder(me, me, me, me, rid, 1).processPreKeyBundle(bundle)
            self.sessions.append(me.loadSession(rid, 1).serialize())
            c = SessionCipher(me, me, me, me, rid, 1)
            for _ in range(r.randint(1, 3)):
                c.encrypt(gen.blob(r, r.randint(1, 50)))
                self.sessions.append(me.loadSession(rid, 1).serialize())
        self.identities = [KeyHelper.generateIdentityKeyPair().getPublicKey() for _ in range(6)]
        self.prekeys = KeyHelper.generatePreKeys(r.randint(1, 1000), 40)
        ikp = KeyHelper.generateIdentityKeyPair()
        self.signed = [KeyHelper.generateSignedPreKey(ikp, r.randint(0, 1000) + 7 * i) for i in range(6)]
        self.senderkeys = []
        sks = InMemorySenderKeyStore()
        for i in range(4):
            name = SenderKeyName("g%d@g.us" % i, AxolotlAddress("me", 0))
            GroupSessionBuilder(sks).create(name)
            self.senderkeys.append(sks.loadSenderKey(name).serialize())
            GroupCipher(sks, name).encrypt(b"x" * (i + 1))
            self.senderkeys.append(sks.loadSenderKey(name).serialize())
        # other records under the same ids (for "store again under an id that is taken")
        from axolotl.state.prekeyrecord import PreKeyRecord
        from axolotl.ecc.curve import Curve
        self.prekeys_alt = [PreKeyRecord(k.getId(), Curve.generateKeyPair()) for k in self.prekeys]
        self.signed_alt = [KeyHelper.generateSignedPreKey(ikp, k.getId()) for k in self.signed]


# ---------------------------------------------------------------------------------------------
# reference model
class Model(object):
    def __init__(self):
        self.sessions = {}     # recipient -> bytes
        self.identities = {}   # recipient -> bytes (serialized public key)
        self.prekeys = {}      # id -> (bytes, sent flag)
        self.signed = {}       # id -> bytes
        self.senderkeys = {}   # (group, sender) -> bytes
        self.local = None      # (registration id, identity pub bytes, priv bytes)

    def copy(self):
        m = Model()
        for k, v in vars(self).items():
            setattr(m, k, dict(v) if isinstance(v, dict) else v)
        return m


RECIPIENTS = [491000 + i for i in range(5)]
GROUPS = ["%d-%d@g.us" % (4915000 + i, 1500000000 + i) for i in range(3)]
SENDERS = ["4917%d" % i for i in range(3)]

OPS = ["storeSession", "deleteSession", "deleteAllSessions", "saveIdentity", "storePreKey", "removePreKey", "setAsSent",
       "storeSignedPreKey", "removeSignedPreKey", "storeSenderKey", "loads", "storeSignedPreKeyAgain", "storePreKeyAgain"]
# "...Again": a record is stored under an id that is taken. The library may refuse (the store then stays as it is) or replace;
# whichever the live store shows after the call is what a restart has to show as well.
AGAIN = ("storeSignedPreKeyAgain", "storePreKeyAgain")


def gen_op(r, model, mat, want=None):
    """One operation as a JSON-able tuple; avoids operations outside the assumptions (fresh prekey ids)."""
    for _ in range(50):
        op = want or r.choice(OPS)
        if op == "storeSession":
            rid = r.choice(RECIPIENTS)
            return [op, rid, r.randrange(len(mat.sessions))]
        if op in ("deleteSession", "deleteAllSessions"):
            return [op, r.choice(RECIPIENTS)]
        if op == "saveIdentity":
            # (index -1: the account's own identity key, as when a session with one's own number is built)
            return [op, r.choice(RECIPIENTS), r.randrange(len(mat.identities)) if r.random() < 0.85 else -1]
        if op == "storePreKey":
            free = [i for i, k in enumerate(mat.prekeys) if k.getId() not in model.prekeys]
            if free:
                return [op, r.choice(free)]
        if op == "removePreKey":
            if model.prekeys or r.random() < 0.2:
                return [op, r.choice(sorted(model.prekeys)) if model.prekeys and r.random() < 0.9 else 999999]
        if op == "setAsSent":
            if model.prekeys:
                ids = sorted(model.prekeys)
                return [op, r.sample(ids, r.randint(1, min(5, len(ids))))]
        if op == "storeSignedPreKey":
            free = [i for i, k in enumerate(mat.signed) if k.getId() not in model.signed]
            if free:
                return [op, r.choice(free)]
        if op == "removeSignedPreKey":
            if model.signed:
                return [op, r.choice(sorted(model.signed))]
        if op == "storeSignedPreKeyAgain":
            taken = [i for i, k in enumerate(mat.signed) if k.getId() in model.signed]
            if taken:
                return [op, r.choice(taken), r.random() < 0.5]
        if op == "storePreKeyAgain":
            taken = [i for i, k in enumerate(mat.prekeys) if k.getId() in model.prekeys]
            if taken:
                return [op, r.choice(taken), r.random() < 0.5]
        if op == "storeSenderKey":
            return [op, r.choice(GROUPS), r.choice(SENDERS), r.randrange(len(mat.senderkeys))]
        if op == "loads":
            return [op]
        want = None
    return ["loads"]


def is_replace(op, model):
    k = op[0]
    return ((k == "storeSession" and op[1] in model.sessions) or (k == "saveIdentity" and op[1] in model.identities)
            or (k == "storeSenderKey" and (op[1], op[2]) in model.senderkeys))


def apply_model(op, model, mat):
    k = op[0]
    if k == "storeSession":
        model.sessions[op[1]] = mat.sessions[op[2]]
    elif k in ("deleteSession", "deleteAllSessions"):
        model.sessions.pop(op[1], None)
    elif k == "saveIdentity":
        model.identities[op[1]] = mat.identities[op[2]].getPublicKey().serialize() if op[2] >= 0 else (model.local[1] if model.local else b"<own identity>")
    elif k == "storePreKey":
        rec = mat.prekeys[op[1]]
        model.prekeys[rec.getId()] = (rec.serialize(), False)
    elif k == "removePreKey":
        model.prekeys.pop(op[1], None)
    elif k == "setAsSent":
        for i in op[1]:
            if i in model.prekeys:
                model.prekeys[i] = (model.prekeys[i][0], True)
    elif k == "storeSignedPreKey":
        rec = mat.signed[op[1]]
        model.signed[rec.getId()] = rec.serialize()
    elif k == "removeSignedPreKey":
        model.signed.pop(op[1], None)
    elif k == "storeSenderKey":
        model.senderkeys[(op[1], op[2])] = mat.senderkeys[op[3]]


def apply_again(op, store, model, mat):
    """Returns 'refused' / 'replaced' / 'kept' and brings the model in line with what the live store shows."""
    import sqlite3
    k = op[0]
    if k == "storeSignedPreKeyAgain":
        rec = (mat.signed_alt if op[2] else mat.signed)[op[1]]
        try:
            store.storeSignedPreKey(rec.getId(), rec)
            out = "returned"
        except sqlite3.IntegrityError:
            out = "refused"
        live = store.loadSignedPreKey(rec.getId()).serialize()
        if live not in (model.signed[rec.getId()], rec.serialize()):
            return "garbage"
        out = "refused" if out == "refused" else ("replaced" if live == rec.serialize() and live != model.signed[rec.getId()] else "kept")
        model.signed[rec.getId()] = live
        return out
    rec = (mat.prekeys_alt if op[2] else mat.prekeys)[op[1]]
    try:
        store.storePreKey(rec.getId(), rec)
        out = "returned"
    except sqlite3.IntegrityError:
        out = "refused"
    live = store.loadPreKey(rec.getId()).serialize()
    old = model.prekeys[rec.getId()]
    if live not in (old[0], rec.serialize()):
        return "garbage"
    unsent = set(x.getId() for x in store.preKeyStore.loadUnsentPendingPreKeys())
    out = "refused" if out == "refused" else ("replaced" if live == rec.serialize() and live != old[0] else "kept")
    model.prekeys[rec.getId()] = (live, rec.getId() not in unsent)
    return out


def apply_store(op, store, mat):
    from axolotl.state.sessionrecord import SessionRecord
    from axolotl.groups.state.senderkeyrecord import SenderKeyRecord
    from axolotl.groups.senderkeyname import SenderKeyName
    from axolotl.axolotladdress import AxolotlAddress
    k = op[0]
    if k == "storeSession":
        store.storeSession(op[1], 1, SessionRecord(serialized=mat.sessions[op[2]]))
    elif k == "deleteSession":
        store.deleteSession(op[1], 1)
    elif k == "deleteAllSessions":
        store.deleteAllSessions(op[1])
    elif k == "saveIdentity":
        store.saveIdentity(op[1], mat.identities[op[2]] if op[2] >= 0 else store.getIdentityKeyPair().getPublicKey())
    elif k == "storePreKey":
        rec = mat.prekeys[op[1]]
        store.storePreKey(rec.getId(), rec)
    elif k == "removePreKey":
        store.removePreKey(op[1])
    elif k == "setAsSent":
        store.preKeyStore.setAsSent(list(op[1]))
    elif k == "storeSignedPreKey":
        rec = mat.signed[op[1]]
        store.storeSignedPreKey(rec.getId(), rec)
    elif k == "removeSignedPreKey":
        store.removeSignedPreKey(op[1])
    elif k == "storeSenderKey":
        store.storeSenderKey(SenderKeyName(op[1], AxolotlAddress(op[2], 0)), SenderKeyRecord(serialized=mat.senderkeys[op[3]]))


def read_store(store, mat):
    """Observable contents of the store through its public API, as a Model."""
    from axolotl.groups.senderkeyname import SenderKeyName
    from axolotl.axolotladdress import AxolotlAddress
    from yowsup.axolotl.exceptions import InvalidKeyIdException
    from axolotl.invalidkeyidexception import InvalidKeyIdException as AxInvalidKeyId
    m = Model()
    for rid in RECIPIENTS:
        if store.containsSession(rid, 1):
            m.sessions[rid] = store.loadSession(rid, 1).serialize()
            if 1 not in store.getSubDeviceSessions(rid):
                m.sessions[rid] = b"<device list disagrees>"
        elif store.getSubDeviceSessions(rid):
            m.sessions[rid] = b"<device list without session>"
        # which of the candidate identities is trusted for rid <=> pinned value
        trusted = [i for i, ik in enumerate(mat.identities) if store.isTrustedIdentity(rid, ik)]
        if len(trusted) == 1:
            m.identities[rid] = mat.identities[trusted[0]].getPublicKey().serialize()
        elif len(trusted) == 0:
            own_ = store.getIdentityKeyPair().getPublicKey()
            m.identities[rid] = own_.serialize() if store.isTrustedIdentity(rid, own_) else b"<pinned to an unknown key>"
    unsent = set(rec.getId() for rec in store.preKeyStore.loadUnsentPendingPreKeys())
    allids = set()
    for rec in store.loadPreKeys():
        allids.add(rec.getId())
    for cand in set(k.getId() for k in mat.prekeys) | allids:
        if store.containsPreKey(cand):
            rec = store.loadPreKey(cand)
            m.prekeys[cand] = (rec.serialize(), cand not in unsent)
            if cand not in allids:
                m.prekeys[cand] = (b"<contains but not listed>", False)
        else:
            try:
                store.loadPreKey(cand)
                m.prekeys[cand] = (b"<loadable but not contained>", False)
            except (InvalidKeyIdException, AxInvalidKeyId):
                pass
    listed = {rec.getId(): rec.serialize() for rec in store.loadSignedPreKeys()}
    for cand in set(k.getId() for k in mat.signed) | set(listed):
        if store.containsSignedPreKey(cand):
            m.signed[cand] = store.loadSignedPreKey(cand).serialize()
            if listed.get(cand) != m.signed[cand]:
                m.signed[cand] = b"<list and load disagree>"
    for g in GROUPS:
        for s in SENDERS:
            rec = store.loadSenderKey(SenderKeyName(g, AxolotlAddress(s, 0)))
            if not rec.isEmpty():
                m.senderkeys[(g, s)] = rec.serialize()
    ikp = store.getIdentityKeyPair()
    m.local = (store.getLocalRegistrationId(), ikp.getPublicKey().serialize(), ikp.getPrivateKey().serialize())
    return m


TABLES = ["sessions", "identities", "prekeys", "signed", "senderkeys"]


def model_diff(want, got, check_local=True):
    for t in TABLES:
        a, b = getattr(want, t), getattr(got, t)
        if a != b:
            ks = sorted(set(a) | set(b), key=repr)
            for k in ks:
                if a.get(k) != b.get(k):
                    return "%s[%r]: expected %s, store has %s" % (t, k, _d(a.get(k)), _d(b.get(k)))
    if check_local and want.local is not None and want.local != got.local:
        return "own identity / registration id changed"
    return None


def _d(v):
    if v is None:
        return "nothing"
    if isinstance(v, tuple):
        return "(%s, sent=%s)" % (_d(v[0]), v[1])
    return "%d bytes #%s" % (len(v), gen_hash(v)) if not v.startswith(b"<") else v.decode()


def gen_hash(b):
    from vf.evidence import h
    return h(bytes(b))[:6]


def open_store(path):
    from yowsup.axolotl.store.sqlite.liteaxolotlstore import LiteAxolotlStore
    return LiteAxolotlStore(path)


def close_store(store):
    try:
        store.sessionStore.dbConn.close()
    except Exception:
        pass


def dbpath(tag):
    from vf import env
    d = os.path.join(env.SCRATCH, "c13")
    os.makedirs(d, exist_ok=True)
    p = os.path.join(d, "%s.db" % tag.replace("/", "_"))
    for s in ("", "-journal", "-wal", "-shm"):
        if os.path.exists(p + s):
            os.remove(p + s)
    return p


# ---------------------------------------------------------------------------------------------
def sequence_case(acc, seed, tag, nops, mat):
    r = gen.rng(seed, ID, tag)
    path = dbpath("seq")
    store = open_store(path)
    model = Model()
    first = read_store(store, mat)
    model.local = first.local
    ops = []
    replaced = 0
    for i in range(nops):
        op = gen_op(r, model, mat)
        ops.append(op)
        acc.count("op:" + op[0])
        if is_replace(op, model):
            replaced += 1
            acc.count("replace_ops")
        try:
            if op[0] in AGAIN:
                out = apply_again(op, store, model, mat)
                acc.count("again:%s:%s" % (op[0], out))
                if out == "garbage":
                    acc.violation("again-garbage:%s" % op[0], "after storing under a taken id the store shows a record that is neither the old nor the new one", {"kind": "sequence", "tag": tag, "nops": nops, "ops": ops})
                    close_store(store)
                    return
            else:
                apply_store(op, store, mat)
        except Exception as e:  # noqa
            acc.violation("op-raises:%s:%s" % (op[0], type(e).__name__), "%s raised %r" % (op[0], e), {"kind": "sequence", "tag": tag, "nops": nops, "ops": ops})
            close_store(store)
            return
        if op[0] not in AGAIN:
            apply_model(op, model, mat)
        if op[0] in AGAIN and r.random() < 0.5:
            # (often a restart right after it, before any other write commits on the shared connection)
            close_store(store)
            store = open_store(path)
            acc.count("reopen_checks")
            acc.count("reopen_right_after_again")
            d = model_diff(model, read_store(store, mat))
            if d:
                acc.violation("reopen-differs:%s" % d.split("[")[0], "after storing under a taken id (%s), close and reopen: %s" % (out, d), {"kind": "sequence", "tag": tag, "nops": nops, "ops": ops})
                close_store(store)
                return
        if op[0] == "loads" or r.random() < 0.15:
            d = model_diff(model, read_store(store, mat))
            if d:
                acc.violation("live-differs:%s" % d.split("[")[0], "store disagrees with the reference model after %s: %s" % (op[0], d), {"kind": "sequence", "tag": tag, "nops": nops, "ops": ops})
                close_store(store)
                return
        if r.random() < 0.12:
            close_store(store)
            store = open_store(path)
            acc.count("reopen_checks")
            d = model_diff(model, read_store(store, mat))
            if d:
                acc.violation("reopen-differs:%s" % d.split("[")[0], "after close and reopen: %s" % d, {"kind": "sequence", "tag": tag, "nops": nops, "ops": ops})
                close_store(store)
                return
    close_store(store)
    store = open_store(path)
    acc.count("reopen_checks")
    d = model_diff(model, read_store(store, mat))
    close_store(store)
    acc.count("sequences")
    acc.case(["seq", ops], nontrivial=replaced > 0)
    if d:
        acc.violation("reopen-differs:%s" % d.split("[")[0], "after close and reopen: %s" % d, {"kind": "sequence", "tag": tag, "nops": nops, "ops": ops})
    else:
        acc.count("sequence_ok")
    return ops


# ---------------------------------------------------------------------------------------------
def sqlite_shim(ticker):
    """Module object standing in for `sqlite3` inside liteaxolotlstore: connections tick around execute/commit."""
    import sqlite3

    class TCursor(sqlite3.Cursor):
        def execute(self, sql, *a):
            dml = sql.lstrip().split(None, 1)[0].upper() in ("INSERT", "UPDATE", "DELETE", "REPLACE")
            if dml:
                ticker.tick("sql:before:" + sql.lstrip().split(None, 1)[0].upper())
            res = sqlite3.Cursor.execute(self, sql, *a)
            if dml:
                ticker.tick("sql:after:" + sql.lstrip().split(None, 1)[0].upper())
            return res

    class TConn(sqlite3.Connection):
        def cursor(self, factory=TCursor):
            return sqlite3.Connection.cursor(self, factory)

        def execute(self, sql, *a):
            return self.cursor().execute(sql, *a)

        def commit(self):
            ticker.tick("commit:before")
            sqlite3.Connection.commit(self)
            ticker.tick("commit:after")

    def connect(*a, **kw):
        kw["factory"] = TConn
        return sqlite3.connect(*a, **kw)
    shim = types.SimpleNamespace(**{k: getattr(sqlite3, k) for k in dir(sqlite3) if not k.startswith("__")})
    shim.connect = connect
    return shim


CRASH_OPS = ["storeSession", "storeSession", "saveIdentity", "saveIdentity", "storeSenderKey", "storePreKey", "removePreKey",
             "setAsSent", "storeSignedPreKey", "removeSignedPreKey", "deleteSession", "deleteAllSessions"]


def crash_case(acc, seed, tag, mat, opkind, prefix_len, lines=True):
    """Build a state with a prefix sequence, then kill a child at every boundary of one more operation."""
    import yowsup.axolotl.store.sqlite.liteaxolotlstore as las
    r = gen.rng(seed, ID, tag)
    path = dbpath("crash")
    snap = path + ".snap"
    store = open_store(path)
    model = Model()
    model.local = read_store(store, mat).local
    # make sure the record the op touches exists in about 3 of 4 cases (replace of an existing record)
    pre = []
    for _ in range(prefix_len):
        op = gen_op(r, model, mat)
        apply_store(op, store, mat)
        apply_model(op, model, mat)
        pre.append(op)
    last = gen_op(r, model, mat, want=opkind)
    if r.random() < 0.75 and last[0] in ("storeSession", "saveIdentity", "storeSenderKey", "deleteSession", "deleteAllSessions") and not is_replace(last, model):
        seedop = list(last)
        if last[0] in ("deleteSession", "deleteAllSessions"):
            seedop = ["storeSession", last[1], r.randrange(len(mat.sessions))]
        elif last[0] == "storeSession":
            seedop[2] = (last[2] + 1) % len(mat.sessions)
        elif last[0] == "saveIdentity":
            seedop[2] = (last[2] + 1) % len(mat.identities)
        else:
            seedop[3] = (last[3] + 1) % len(mat.senderkeys)
        apply_store(seedop, store, mat)
        apply_model(seedop, model, mat)
        pre.append(seedop)
    close_store(store)
    shutil.copyfile(path, snap)
    old = model
    new = model.copy()
    apply_model(last, new, mat)
    repl = is_replace(last, old)
    if repl:
        acc.count("replace_ops")
    acc.count("crash_op:" + last[0] + (":replace" if repl else ""))

    # what the same process did on this connection before the judged operation (a long-running client): the tail of the prefix
    # is replayed by the child itself, un-judged (every operation is idempotent on the state it already produced)
    replay_tail = [op for op in pre[-r.choice([0, 0, 3, 6]):] if op[0] in ("storeSession", "saveIdentity", "storeSenderKey", "setAsSent")] if pre else []
    if pre and r.random() < 0.3:
        # ... in particular a key upload was confirmed earlier on this connection
        replay_tail.append(["setAsSent", []])

    def keeps_state(op_):
        m2 = model.copy()
        apply_model(op_, m2, mat)
        return model_diff(model, m2, check_local=False) is None and model_diff(m2, model, check_local=False) is None
    replay_tail = [op_ for op_ in replay_tail if keeps_state(op_)]
    if replay_tail:
        acc.count("crash_cases_with_in_process_history")

    def child_body(ticker):
        las.sqlite3 = sqlite_shim(ticker)
        st = open_store(path)
        for op_ in replay_tail:
            apply_store(op_, st, mat)
        ticker.armed = True
        if lines:
            with inject.LineTicks(ticker, ("store/sqlite/liteaxolotlstore.py", "store/sqlite/litesessionstore.py", "store/sqlite/liteidentitykeystore.py",
                                           "store/sqlite/liteprekeystore.py", "store/sqlite/litesignedprekeystore.py", "store/sqlite/litesenderkeystore.py")):
                apply_store(last, st, mat)
        else:
            apply_store(last, st, mat)

    class ArmedTicker(inject.Ticker):
        """Ticks only count once the store is open (opening creates tables / reads identity)."""
        armed = False

        def tick(self, kind):
            if self.armed:
                inject.Ticker.tick(self, kind)

    real_sqlite = las.sqlite3
    counter = ArmedTicker()
    try:
        child_body(counter)
    except Exception as e:  # noqa
        las.sqlite3 = real_sqlite
        acc.violation("crash-setup-raises:%s:%s" % (last[0], type(e).__name__), "%s raised %r before any crash was injected" % (last[0], e), {"kind": "crash", "tag": tag, "op": last})
        return
    las.sqlite3 = real_sqlite
    total = counter.n
    acc.maxi("crash_points_per_op", total)
    w0 = {"kind": "crash", "tag": tag, "opkind": opkind, "prefix_len": prefix_len, "lines": lines, "op": last, "prefix": pre[-6:], "replace": repl, "total_ticks": total}
    for k in range(1, total + 1):
        for s in ("", "-journal", "-wal", "-shm"):
            if os.path.exists(path + s):
                os.remove(path + s)
        shutil.copyfile(snap, path)
        tk = ArmedTicker(die_at=k)
        st = inject.run_in_child(lambda: child_body(tk))
        kind = counter.kinds[k - 1]
        acc.count("crash_children")
        acc.count("crash_kind:" + kind.split(":")[0])
        acc.case(["crash", last[0], repl, kind, k, tag], nontrivial=True)
        if st != inject.CRASH_EXIT:
            acc.inconc("crash child %d/%d of %s exited with %r" % (k, total, tag, st))
            continue
        acc.count("crash_died_inside")
        try:
            s2 = open_store(path)
            got = read_store(s2, mat)
            close_store(s2)
        except Exception as e:  # noqa
            acc.violation("crash-reopen-raises:%s" % type(e).__name__, "store cannot be reopened/read after a kill at %s: %r" % (kind, e), dict(w0, tick=k, at=kind))
            continue
        d_old = model_diff(old, got)
        d_new = model_diff(new, got)
        if d_old is None:
            acc.count("crash_outcome:old")
        elif d_new is None:
            acc.count("crash_outcome:new")
        else:
            # per record: each touched record must be old or new
            bad = None
            for t in TABLES:
                a, b, c = getattr(old, t), getattr(new, t), getattr(got, t)
                for key in set(a) | set(b) | set(c):
                    if c.get(key) != a.get(key) and c.get(key) != b.get(key):
                        bad = (t, key, a.get(key), b.get(key), c.get(key))
                        break
                if bad:
                    break
            if bad is None and old.local == got.local:
                acc.count("crash_outcome:mixed-per-record")
            else:
                t, key, a, b, c = bad if bad else ("local", None, None, None, None)
                what = "missing" if c is None else "neither old nor new"
                acc.violation("crash-record-%s:%s:%s" % ("lost" if c is None else "corrupt", last[0], t),
                              "after a kill at %s during %s the %s record %r is %s (old %s, new %s, found %s)" % (kind, last[0], t, key, what, _d(a), _d(b), _d(c)),
                              dict(w0, tick=k, at=kind))
    os.remove(snap)


# ---------------------------------------------------------------------------------------------
def manager_case(acc, seed, tag, nops, mat):
    """Operations through AxolotlManager (the API the layers use). After every call has returned, the database files are
    copied as a kill at that instant would leave them (no close, no further commit) and the copy is reopened: it must show
    exactly what the live manager shows, i.e. nothing a returned call stored may still sit in an open transaction."""
    from yowsup.axolotl.manager import AxolotlManager
    from yowsup.axolotl.store.sqlite.liteaxolotlstore import LiteAxolotlStore
    r = gen.rng(seed, ID, tag)
    path = dbpath("mgr")
    snap = dbpath("mgrsnap")
    old_count = AxolotlManager.COUNT_GEN_PREKEYS
    AxolotlManager.COUNT_GEN_PREKEYS = r.choice([1, 3, 7, 12, 30, 101, 130, 205])
    store = LiteAxolotlStore(path)
    m = AxolotlManager(store, "4911" + gen.s_from(r, gen.DIGITS, 7))
    ops = []
    w = {"kind": "manager", "tag": tag, "count_gen": AxolotlManager.COUNT_GEN_PREKEYS, "ops": ops}
    made = []
    try:
        for i in range(nops):
            op = r.choice(["level", "level-force", "signed", "mark-sent", "mark-sent", "load-unsent", "load-latest-signed"])
            ops.append(op)
            acc.count("mgr_op:" + op)
            try:
                if op == "level":
                    made.extend(m.level_prekeys())
                elif op == "level-force":
                    made.extend(m.level_prekeys(force=True))
                elif op == "signed":
                    m.generate_signed_prekey()
                elif op == "mark-sent":
                    un = m.load_unsent_prekeys()
                    if un:
                        k = r.randint(1, len(un))
                        m.set_prekeys_as_sent(un[:k])
                elif op == "load-unsent":
                    m.load_unsent_prekeys()
                else:
                    m.load_latest_signed_prekey(generate=r.random() < 0.5)
            except Exception as e:  # noqa
                acc.violation("manager-op-raises:%s:%s" % (op, type(e).__name__), "%s raised %r" % (op, e), w)
                return
            live = read_store(store, mat)
            # what a kill right now leaves on disk
            for sfx in ("", "-journal", "-wal", "-shm"):
                if os.path.exists(snap + sfx):
                    os.remove(snap + sfx)
                if os.path.exists(path + sfx):
                    shutil.copyfile(path + sfx, snap + sfx)
            acc.count("manager_kill_snapshots")
            try:
                s2 = open_store(snap)
                got = read_store(s2, mat)
                close_store(s2)
            except Exception as e:  # noqa
                acc.violation("manager-reopen-raises:%s" % type(e).__name__, "the store cannot be reopened after a kill following %s: %r" % (op, e), w)
                return
            d = model_diff(live, got)
            if d:
                acc.violation("manager-not-durable-at-return:%s:%s" % (op, d.split("[")[0]), "after %s had returned, a kill loses what it stored: %s" % (op, d), dict(w, at=i))
                return
        acc.count("manager_sequences")
        acc.count("manager_prekeys_generated", len(made))
        acc.case(["mgr", AxolotlManager.COUNT_GEN_PREKEYS, ops], nontrivial=len(made) > 0)
    finally:
        AxolotlManager.COUNT_GEN_PREKEYS = old_count
        close_store(store)


def busy_start_case(acc, seed, tag, mat):
    """The key store of a profile is busy when the client starts (another process / connection holds the database lock past the
    busy timeout): the start may be refused, but once the lock is gone the next start has to find everything that was stored."""
    import sqlite3
    from yowsup.axolotl.factory import AxolotlManagerFactory
    from yowsup.axolotl.manager import AxolotlManager
    from yowsup.common.tools import StorageTools
    import yowsup.axolotl.store.sqlite.liteaxolotlstore as las
    r = gen.rng(seed, ID, tag)
    prof = "c13busy_%s_%d" % (tag.replace("/", "_"), os.getpid())
    user = "4911" + gen.s_from(r, gen.DIGITS, 7)
    path = StorageTools.constructPath(prof, AxolotlManagerFactory.DB)
    w = {"kind": "busy-start", "tag": tag}
    acc.count("busy_start_cases")
    old_count = AxolotlManager.COUNT_GEN_PREKEYS
    AxolotlManager.COUNT_GEN_PREKEYS = r.choice([3, 7, 12])
    # (the store opens its database with sqlite's default busy timeout of 5 s; shortened here so that a case does not take 5 s)
    real_sqlite = las.sqlite3
    shim = types.SimpleNamespace(**{k: getattr(sqlite3, k) for k in dir(sqlite3) if not k.startswith("__")})
    shim.connect = lambda *a, **kw: sqlite3.connect(*a, **dict(kw, timeout=kw.get("timeout", 0.15)))
    locker = None
    try:
        m = AxolotlManagerFactory().get_manager(prof, user)
        m.level_prekeys()
        model = Model()
        ops = []
        for i in range(r.randint(3, 12)):
            op = gen_op(r, model, mat)
            apply_model(op, model, mat)
            apply_store(op, m._store, mat)
            ops.append(op[0])
        w["ops"] = ops
        want = read_store(m._store, mat)
        close_store(m._store)
        mode = r.choice(["EXCLUSIVE", "EXCLUSIVE", "IMMEDIATE"])
        w["lock"] = mode
        acc.count("busy_start_lock:" + mode)
        locker = sqlite3.connect(path, timeout=0.1)
        locker.isolation_level = None
        locker.execute("BEGIN " + mode)
        las.sqlite3 = shim
        outcome = "started"
        try:
            m2 = AxolotlManagerFactory().get_manager(prof, user)
            try:
                m2.level_prekeys()
            except sqlite3.OperationalError:
                outcome = "started-then-refused"
            close_store(m2._store)
        except sqlite3.OperationalError:
            outcome = "refused"
        except Exception as e:  # noqa
            outcome = "raised:" + type(e).__name__
        finally:
            las.sqlite3 = real_sqlite
        acc.count("busy_start_outcome:" + outcome)
        w["outcome"] = outcome
        locker.execute("ROLLBACK")
        locker.close()
        locker = None
        try:
            m3 = AxolotlManagerFactory().get_manager(prof, user)
            got = read_store(m3._store, mat)
            close_store(m3._store)
        except Exception as e:  # noqa
            acc.violation("busy-start:reopen-raises:%s" % type(e).__name__, "after a start while the key store was busy (%s) the store cannot be opened any more: %r" % (outcome, e), w)
            return
        # (a start that got through may have topped up the prekeys: compare what was there before)
        d = model_diff(want, got) if outcome != "started" else model_diff(want, got, check_local=True)
        if d and outcome == "started":
            got.prekeys = {k: v for k, v in got.prekeys.items() if k in want.prekeys}
            d = model_diff(want, got)
        if d:
            acc.violation("busy-start:state-lost:%s" % d.split("[")[0], "a start while the key store was busy (lock %s, outcome %s) loses stored state: %s; files now: %s"
                          % (mode, outcome, d, sorted(os.listdir(os.path.dirname(path)))), w)
            return
        acc.count("busy_start_ok")
        acc.case(["busy", tag], nontrivial=True)
    finally:
        las.sqlite3 = real_sqlite
        AxolotlManager.COUNT_GEN_PREKEYS = old_count
        if locker is not None:
            try:
                locker.close()
            except Exception:
                pass
        shutil.rmtree(os.path.dirname(path), ignore_errors=True)


def profile_switch_case(acc, seed, tag, mat):
    """One stack serves two accounts one after the other (connect as A, disconnect, setProfile(B), connect): whatever the
    encryption layers store after the switch belongs to B's key store file, and A's file stays as it was."""
    from vf import stackkit, tstack, treeeq
    from yowsup.layers import YowLayerEvent
    from yowsup.layers.network import YowNetworkLayer
    from yowsup.axolotl.manager import AxolotlManager
    from yowsup.common.tools import StorageTools
    r = gen.rng(seed, ID, tag)
    w = {"kind": "profile-switch", "tag": tag}
    acc.count("profile_switch_cases")
    acc.case(["psw", tag], nontrivial=True)
    old_count = AxolotlManager.COUNT_GEN_PREKEYS
    AxolotlManager.COUNT_GEN_PREKEYS = 4
    names = ["c13sw_%s_%d_a" % (tag.replace("/", "_"), os.getpid()), "c13sw_%s_%d_b" % (tag.replace("/", "_"), os.getpid())]
    try:
        pa = tstack.make_profile(names[0], phone="4911" + gen.s_from(r, gen.DIGITS, 7))
        pb = tstack.make_profile(names[1], phone="4922" + gen.s_from(r, gen.DIGITS, 7))
        kit = stackkit.Kit(dict.fromkeys(stackkit.FLAGS, True), True, profile=pa)
        path = {n_: os.path.join(StorageTools.getStorageForProfile(n_), "axolotl.db") for n_ in names}

        def ask_keys(nid):
            kit.clear()
            kit.inject(("notification", {"from": "s.whatsapp.net", "type": "encrypt", "id": nid, "t": "1600000000"}, [("count", {"value": "0"}, [], None)], None))
            ups = [treeeq.to_tuple(n) for n in kit.bottom.sent if n.tag == "iq" and n["xmlns"] == "encrypt" and n["type"] == "set"]
            return ups[-1] if ups else None

        def identity_of(up):
            return [c for c in up[2] if c[0] == "identity"][0][3]

        def file_state(n_):
            s2 = open_store(path[n_])
            try:
                return (s2.getIdentityKeyPair().getPublicKey().serialize()[1:], sorted(rec.getId() for rec in s2.loadPreKeys()))
            finally:
                close_store(s2)
        up_a = ask_keys("nkA1")
        if up_a is None:
            acc.inconc("%s: no key upload as account A" % tag)
            return
        a_before = file_state(names[0])
        # the connection ends, the application switches the stack to the other account, and connects again
        kit.bottom.emitEvent(YowLayerEvent(YowNetworkLayer.EVENT_STATE_DISCONNECTED, reason="x", detached=False))
        kit.stack.setProfile(pb)
        kit.bottom.emitEvent(YowLayerEvent(YowNetworkLayer.EVENT_STATE_CONNECTED))
        up_b = ask_keys("nkB1")
        if up_b is None:
            acc.violation("profile-switch:no-upload", "after the switch to account B a key request led to no upload", w)
            return
        b_after = file_state(names[1])
        a_after = file_state(names[0])
        if identity_of(up_b) != b_after[0]:
            acc.violation("profile-switch:wrong-identity", "after setProfile(B) the stack offers keys under %s identity (B's key store file holds another one)"
                          % ("account A's" if identity_of(up_b) == a_before[0] else "a foreign"), w)
            return
        if a_after != a_before:
            acc.violation("profile-switch:first-store-written", "after the switch to account B, account A's key store file changed (prekeys %d -> %d)" % (len(a_before[1]), len(a_after[1])), w)
            return
        acc.count("profile_switch_ok")
    except Exception as e:  # noqa
        import traceback
        acc.violation("profile-switch:raises:%s" % type(e).__name__, "switching the stack's profile raised %r (%s)" % (e, traceback.format_exc()[-300:]), w)
    finally:
        AxolotlManager.COUNT_GEN_PREKEYS = old_count
        for n_ in names:
            shutil.rmtree(StorageTools.getStorageForProfile(n_), ignore_errors=True)


def profiles_case(acc, seed, tag, mat):
    """Two or three profiles of one process, some of them for the same phone number (a main and a backup installation, say): each
    profile's key store is its own file. Operations go to each through YowProfile(name).axolotl_manager; afterwards every
    profile's file, opened on its own as after a restart, shows exactly what was stored through that profile."""
    from yowsup.profile.profile import YowProfile
    from yowsup.config.manager import ConfigManager
    from yowsup.config.v1.config import Config
    from yowsup.common.tools import StorageTools
    from yowsup.axolotl.manager import AxolotlManager
    from consonance.structs.keypair import KeyPair
    r = gen.rng(seed, ID, tag)
    phone = "4911" + gen.s_from(r, gen.DIGITS, 7)
    other = "4922" + gen.s_from(r, gen.DIGITS, 7)
    names = ["c13p_%s_%d_main" % (tag.replace("/", "_"), os.getpid()), "c13p_%s_%d_backup" % (tag.replace("/", "_"), os.getpid())]
    phones = [phone, phone]
    if r.random() < 0.5:
        names.append("c13p_%s_%d_other" % (tag.replace("/", "_"), os.getpid()))
        phones.append(other)
    w = {"kind": "profiles", "tag": tag, "profiles": len(names)}
    acc.count("profiles_cases")
    acc.case(["prof", tag], nontrivial=True)
    old_count = AxolotlManager.COUNT_GEN_PREKEYS
    AxolotlManager.COUNT_GEN_PREKEYS = 3
    models, paths = {}, {}
    try:
        for n_, ph in zip(names, phones):
            ConfigManager().save(n_, Config(phone=ph, cc=ph[:2], pushname="N", client_static_keypair=KeyPair.generate()))
            paths[n_] = os.path.join(StorageTools.getStorageForProfile(n_), "axolotl.db")
        profs = {}
        for rnd in range(r.randint(2, 4)):
            order = list(names)
            r.shuffle(order)
            for n_ in order:
                if n_ not in profs or r.random() < 0.3:
                    profs[n_] = YowProfile(n_)       # (a new object for the same profile now and then)
                store = profs[n_].axolotl_manager._store
                if n_ not in models:
                    models[n_] = Model()
                    models[n_].local = read_store(store, mat).local
                for _ in range(r.randint(1, 4)):
                    op = gen_op(r, models[n_], mat)
                    if op[0] in AGAIN:
                        continue
                    apply_store(op, store, mat)
                    apply_model(op, models[n_], mat)
                    acc.count("profiles_ops")
        # as after a restart: each file opened on its own
        locals_ = {}
        for n_ in names:
            if n_ not in models:
                continue
            s2 = open_store(paths[n_])
            got = read_store(s2, mat)
            close_store(s2)
            locals_[n_] = got.local
            d = model_diff(models[n_], got)
            if d:
                acc.violation("profiles:file-differs:%s" % d.split("[")[0], "profile %s (phone %s; %d profiles in the process, two for one number): its key store file does not hold what was stored through it: %s"
                              % (n_.rsplit("_", 1)[-1], "shared" if n_ != names[-1] or len(names) == 2 else "own", len(names), d), w)
                return
        if len(set(v[1] for v in locals_.values())) != len(locals_):
            acc.violation("profiles:identity-shared", "two profiles show the same local identity key", w)
            return
        acc.count("profiles_ok")
    except Exception as e:  # noqa
        import traceback
        acc.violation("profiles:raises:%s" % type(e).__name__, "operations through profile objects raised %r (%s)" % (e, traceback.format_exc()[-300:]), w)
    finally:
        AxolotlManager.COUNT_GEN_PREKEYS = old_count
        for n_ in names:
            try:
                close_store(YowProfile(n_).axolotl_manager._store) if False else None
            except Exception:
                pass
            shutil.rmtree(StorageTools.getStorageForProfile(n_), ignore_errors=True)


# ---------------------------------------------------------------------------------------------
def conversation_case(acc, seed, tag, nsteps):
    """Two managers on file stores exchange messages; either side is restarted (new store + manager objects) at random."""
    from yowsup.axolotl.manager import AxolotlManager
    from axolotl.state.prekeybundle import PreKeyBundle
    r = gen.rng(seed, ID, tag)
    paths = {"a": dbpath("conv_a"), "b": dbpath("conv_b")}
    names = {"a": "491111", "b": "492222"}
    mgr = {}
    stores = {}

    def start(x):
        if x in stores:
            close_store(stores[x])
        stores[x] = open_store(paths[x])
        mgr[x] = AxolotlManager(stores[x], names[x])

    old_count = AxolotlManager.COUNT_GEN_PREKEYS
    AxolotlManager.COUNT_GEN_PREKEYS = 5
    steps = []
    try:
        start("a")
        start("b")
        ident = {x: mgr[x].identity.getPublicKey().serialize() for x in "ab"}
        mgr["b"].level_prekeys(force=True)
        pk = mgr["b"].load_unsent_prekeys()[0]
        spk = mgr["b"].load_latest_signed_prekey(generate=True)
        bundle = PreKeyBundle(mgr["b"].registration_id, 1, pk.getId(), pk.getKeyPair().getPublicKey(), spk.getId(), spk.getKeyPair().getPublicKey(),
                              spk.getSignature(), mgr["b"].identity.getPublicKey())
        mgr["a"].create_session(names["b"], bundle)
        established = False
        for i in range(nsteps):
            act = r.choice(["a>b", "a>b", "b>a", "restart-a", "restart-b", "restart-both"]) if established else r.choice(["a>b", "restart-a", "restart-b"])
            steps.append(act)
            if act.startswith("restart"):
                for x in ("a", "b") if act.endswith("both") else (act[-1],):
                    start(x)
                    acc.count("conversation_restarts")
                    if mgr[x].identity.getPublicKey().serialize() != ident[x]:
                        acc.violation("conversation-identity-changed", "own identity changed across a restart", {"kind": "conversation", "tag": tag, "nsteps": nsteps, "steps": steps})
                        return
                continue
            s, d = act[0], act[2]
            msg = gen.blob(r, r.randint(1, 60)) + b"\x01"
            ct = mgr[s].encrypt(names[d], msg)
            data = ct.serialize()
            from axolotl.protocol.prekeywhispermessage import PreKeyWhisperMessage
            if isinstance(ct, PreKeyWhisperMessage):
                out = mgr[d].decrypt_pkmsg(names[s], data, True)
                acc.count("conversation_pkmsg")
            else:
                out = mgr[d].decrypt_msg(names[s], data, True)
                acc.count("conversation_msg")
            if s == "a":
                established = True
            if bytes(out) != msg:
                acc.violation("conversation-plaintext-differs", "decrypted message differs", {"kind": "conversation", "tag": tag, "nsteps": nsteps, "steps": steps})
                return
        acc.count("conversations")
        acc.case(["conv", steps], nontrivial=any(s.startswith("restart") for s in steps))
    except Exception as e:  # noqa
        acc.violation("conversation-raises:%s" % type(e).__name__, "conversation broke after %s: %r" % (steps[-3:], e), {"kind": "conversation", "tag": tag, "nsteps": nsteps, "steps": steps})
    finally:
        AxolotlManager.COUNT_GEN_PREKEYS = old_count
        for s in stores.values():
            close_store(s)


# ---------------------------------------------------------------------------------------------
def shards(tier, seed, nworkers):
    q = tier == "quick"
    nsh = 4 if q else nworkers
    specs = []
    for i in range(nsh):
        specs.append({"kind": "sequences", "shard": i, "n": (600 if q else 30000) // nsh})
        specs.append({"kind": "crash", "shard": i, "n": (96 if q else 3200) // nsh})
        specs.append({"kind": "conversation", "shard": i, "n": (120 if q else 6000) // nsh})
        specs.append({"kind": "manager", "shard": i, "n": (40 if q else 1600) // nsh})
        specs.append({"kind": "busy-start", "shard": i, "n": (8 if q else 400) // nsh})
        specs.append({"kind": "profiles", "shard": i, "n": (24 if q else 1200) // nsh})
        specs.append({"kind": "stack-threads", "shard": i, "n": (16 if q else 960) // nsh})
    return specs


def run(spec, acc):
    from vf import env
    env.shim_thirdparty()
    seed, sh = spec["seed"], spec["shard"]
    mat = Material(gen.rng(seed, ID, "material/%d" % sh))
    if spec["kind"] == "sequences":
        for i in range(spec["n"]):
            tag = "seq/%d/%d" % (sh, i)
            r = gen.rng(seed, ID, tag + "/n")
            ops = sequence_case(acc, seed, tag, r.randint(3, 30), mat)
            if i < 2 and ops:
                acc.sample({"sequence": ops[:12]})
    elif spec["kind"] == "crash":
        for i in range(spec["n"]):
            tag = "crash/%d/%d" % (sh, i)
            kind = CRASH_OPS[(i + sh) % len(CRASH_OPS)]
            crash_case(acc, seed, tag, mat, kind, prefix_len=[0, 3, 8, 15][i % 4], lines=(i % 3 != 2))
        acc.sample({"crash": "kill at every SQL statement/commit/line boundary of the last op", "ops": CRASH_OPS})
    elif spec["kind"] == "profiles":
        for i in range(spec["n"]):
            profiles_case(acc, seed, "prof/%d/%d" % (sh, i), mat)
            if i % 3 == 0:
                profile_switch_case(acc, seed, "psw/%d/%d" % (sh, i), mat)
        acc.sample({"profiles": "2-3 profiles in one process, two of them for the same phone number; each key store file is read on its own afterwards"})
    elif spec["kind"] == "busy-start":
        for i in range(spec["n"]):
            busy_start_case(acc, seed, "busy/%d/%d" % (sh, i), mat)
        acc.sample({"busy_start": "profile key store locked by another connection past the busy timeout while the client starts; next start must find the stored state"})
    elif spec["kind"] == "stack-threads":
        from vf.props import c13_threads
        for i in range(spec["n"]):
            c13_threads.stack_threads_case(acc, seed, "st/%d/%d" % (sh, i))
        acc.sample({"stack_threads": "whole clients, sends from application threads while key uploads are confirmed on the network thread; key store files "
                                     "copied as a kill would leave them (after commits, statements, commits that cut another thread's replacement in two)"})
    elif spec["kind"] == "manager":
        for i in range(spec["n"]):
            manager_case(acc, seed, "mgr/%d/%d" % (sh, i), 3 + (i % 10), mat)
        acc.sample({"manager": "level_prekeys / generate_signed_prekey / set_prekeys_as_sent through AxolotlManager; database files copied after every returned call and reopened"})
    else:
        for i in range(spec["n"]):
            conversation_case(acc, seed, "conv/%d/%d" % (sh, i), 6 + (i % 20))
        acc.sample({"conversation": "2 managers on file stores, random restarts of either side between messages"})


def replay(spec, acc):
    from vf import env
    env.shim_thirdparty()
    w = spec["witness"]
    seed = spec["seed"]
    tag = w["tag"]
    sh = int(tag.split("/")[1])
    mat = Material(gen.rng(seed, ID, "material/%d" % sh))
    if w["kind"] == "sequence":
        sequence_case(acc, seed, tag, w["nops"], mat)
    elif w["kind"] == "crash":
        crash_case(acc, seed, tag, mat, w["opkind"], w["prefix_len"], w["lines"])
    elif w["kind"] == "busy-start":
        busy_start_case(acc, seed, tag, mat)
    elif w["kind"] == "profiles":
        profiles_case(acc, seed, tag, mat)
    elif w["kind"] == "profile-switch":
        profile_switch_case(acc, seed, tag, mat)
    elif w["kind"] == "manager":
        manager_case(acc, seed, tag, len(w.get("ops", [])) or 5, mat)
    elif w["kind"] == "stack-threads":
        from vf.props import c13_threads
        c13_threads.stack_threads_case(acc, seed, tag)
    else:
        conversation_case(acc, seed, tag, w["nsteps"])
