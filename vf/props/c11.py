"""C11 — concurrent senders never corrupt the encrypted stream."""
import random
import sys
import threading
import time

from vf import gen, inject, treeeq

ID = "C11"
LEVEL = "exploration"
RULE = ("one evaluation = one multi-thread run: after a completed handshake 2-4 threads (application senders entering at "
        "the top of the stack, library-internal senders using a protocol layer's _sendIq, senders entering below the "
        "protocol group, and in part of the runs the real keep-alive thread on a fast clock) each send a random stanza "
        "sequence (10 B .. 200 KiB) through coder, noise, segments to the wire, with statement-level yield injection and "
        "two GIL switch intervals; the byte stream at the wire is parsed and decrypted by a strict in-order peer and every "
        "stanza id must be seen exactly once. Non-trivial = frames of >= 2 threads interleaved at the sink; distinct by "
        "observed sender order")
ASSUMPTIONS = ["thread interleavings are sampled (yield injection + repetition), never exhausted",
               "the strict peer is the responder double of vf/noisepeer.py (dissononce cipher states, counters only move forward)",
               "besides the probe-level runs, 24 (quick) / 960 (thorough) runs, with thread switches injected inside the dispatchers, go through the library's real socket and asyncore dispatchers over loopback TCP",
               "senders start after the handshake completed, as applications do (the handshake thread's own writes are covered by C04)"]
REQUIRED = ["core_stack_other_logins", "core_stack_runs", "core_stack_ok", "real_big_cases", "real_big_ok", "real_big:socket", "real_big:asyncore", "real_backlog_cases", "real_backlog_ok", "real_backlog:local-disconnect", "real_backlog:peer-reset", "runs", "stanzas_sent", "stanzas_decrypted", "interleaved_runs", "yields_injected", "ping_thread_runs", "entry:top",
            "entry:sendIq", "entry:below-group", "stanzas_with_library_ids", "early_sender_runs", "refused_during_handshake", "stalled_write_runs", "stalled_write_ok", "s2c_flood_runs", "s2c_flood_frames", "real_runs", "real_ok", "wire_bytes_equal", "real:socket", "real:asyncore"]
TIMEOUT = {"quick": 400, "thorough": 3600}

YIELD_FILES = ("yowsup/layers/__init__.py", "yowsup/layers/noise/layer.py", "yowsup/layers/noise/layer_noise_segments.py",
               "yowsup/layers/coder/layer.py", "consonance/streams/segmented/blockingqueue.py", "consonance/transport.py",
               "consonance/protocol.py", "yowsup/layers/protocol_iq/layer.py", "yowsup/layers/logger/layer.py", "yowsup/structs/protocolentity.py")


class FastClock(object):
    """Stands in for the `time` module inside protocol_iq.layer: a second lasts a fraction of a millisecond."""

    def __init__(self, scale=0.0003):
        self.scale = scale

    def sleep(self, s):
        time.sleep(self.scale)

    def time(self):
        return time.time()


def build(profile):
    from vf import tstack, probes
    from yowsup.stacks import YowStack
    from yowsup.layers import YowParallelLayer
    from yowsup.layers.noise.layer import YowNoiseLayer
    from yowsup.layers.noise.layer_noise_segments import YowNoiseSegmentsLayer
    from yowsup.layers.coder import YowCoderLayer
    from yowsup.layers.logger import YowLoggerLayer
    from yowsup.layers.protocol_iq import YowIqProtocolLayer
    from yowsup.layers.protocol_presence import YowPresenceProtocolLayer
    T = tstack.Transport.__new__(tstack.Transport)
    T.wire = tstack.Wire()
    T.mid = probes.Probe("mid")
    T.top = probes.Probe("top")
    T.stack = YowStack((T.wire, YowNoiseSegmentsLayer, YowNoiseLayer, YowCoderLayer, YowLoggerLayer, T.mid,
                        YowParallelLayer((YowIqProtocolLayer, YowPresenceProtocolLayer)), T.top), reversed=False,
                       props={"profile": profile, YowIqProtocolLayer.PROP_PING_INTERVAL: 1})
    T.noise = T.stack.getLayer(2)
    T.group = T.stack.getLayer(6)
    T.iq = T.group.sublayers[0]
    T.profile = profile
    T.server = None
    T.net = None
    T.net_stack = None
    return T


def payload_node(r, sid):
    from yowsup.structs import ProtocolTreeNode
    c = r.random()
    n = r.randint(1, 40) if c < 0.5 else r.randint(200, 5000) if c < 0.85 else r.randint(60000, 200000)
    unit = gen.blob(r, min(n, 512))
    return ProtocolTreeNode("iq", {"id": sid, "type": "set", "xmlns": "w"}, [ProtocolTreeNode("blob", {}, None, (unit * (n // 512 + 1))[:n])])


class BlobIq(object):
    """Minimal outgoing entity: what the protocol layers need from an entity (tag, xmlns, id, serialisation)."""

    def __init__(self, node):
        self.node = node

    def getTag(self):
        return "iq"

    def getXmlns(self):
        return "w"

    def getId(self):
        return self.node["id"]

    def getType(self):
        return self.node["type"]

    def toProtocolTreeNode(self):
        return self.node


def one_run(acc, seed, tag, d):
    from vf import tstack, noisepeer, refcodec
    from yowsup.layers import YowLayerEvent
    from yowsup.layers.auth import YowAuthenticationProtocolLayer
    import yowsup.layers.protocol_iq.layer as iqmod
    r = gen.rng(seed, ID, tag)
    w = {"tag": tag, "desc": d}
    srv = noisepeer.NoiseServer()
    prof = tstack.make_profile("c11_%s" % tag.replace("/", "_"), server_static=srv.static_public)
    T = build(prof)
    T.attach(srv)
    T.auth()
    if not T.wait(lambda: len(srv.out) > 0, 20):
        acc.inconc("%s: no client hello" % tag)
        return
    early = bool(d.get("early"))
    if not early:
        T.deliver(srv.take_out())
        if not T.wait(lambda: srv.state == "transport" and T.noise._wa_noiseprotocol.state == "transport", 20) or T.net_sync(20) != "ok":
            acc.inconc("%s: handshake did not complete (%s)" % (tag, srv.errors))
            return
    else:
        acc.count("early_sender_runs")
    refused = {"n": 0}

    def in_transport():
        return getattr(T.noise._wa_noiseprotocol, "state", None) == "transport"
    old_time = iqmod.time
    old_sw = sys.getswitchinterval()
    sys.setswitchinterval(d["switch"])
    errors = []
    sent = {}            # id -> thread name
    sent_lock = threading.Lock()
    pongs = {"n": 0}
    threads = []
    lib_ids = {"n": 0}
    from yowsup.structs import ProtocolEntity

    def sender(name, entry, n, rr):
        for i in range(n):
            sid = "%s-%d" % (name, i)
            if i % 3 == 2:
                # the id the library itself gives a stanza composed on this thread (as for every entity an application composes)
                sid = ProtocolEntity("iq")._generateId(short=(i % 2 == 0))
                lib_ids["n"] += 1
            node = payload_node(rr, sid)
            with sent_lock:
                if sid in sent:
                    errors.append((name, "DuplicateId", "the id %s composed on this thread was also given to a stanza of %s" % (sid, sent[sid])))
                    return
                sent[sid] = name
            ready = in_transport()
            try:
                if entry == "top":
                    T.top.send(BlobIq(node))
                elif entry == "sendIq":
                    T.iq._sendIq(BlobIq(node))
                else:
                    T.mid.send(node)
            except Exception as e:  # noqa
                if early and not ready:
                    # sent while the handshake was still running: a refusal reported to the sender is fine, the stanza is
                    # then simply not expected at the peer
                    with sent_lock:
                        del sent[sid]
                        refused["n"] += 1
                    time.sleep(0.0003)
                    continue
                errors.append((name, type(e).__name__, str(e)[:200]))
                return

    for k, entry in enumerate(d["entries"]):
        acc.count("entry:" + entry)
        threads.append(threading.Thread(target=sender, args=("t%d%s" % (k, entry[0]), entry, d["per_thread"], random.Random(r.randrange(1 << 30))), name="verif-sender-%d" % k))
    yi = inject.YieldInjector(random.Random(d["yseed"]), YIELD_FILES, p=d["yp"]) if d["yp"] > 0 else None
    stop_pong = threading.Event()

    def ponger():
        """Server side of keep-alive: answers every ping the strict peer has decrypted so far."""
        done = 0
        while not stop_pong.is_set():
            recv = srv.received
            while done < len(recv):
                try:
                    t = refcodec.decode(recv[done])
                except Exception:
                    t = None
                done += 1
                if t and t[0] == "iq" and t[1].get("xmlns") == "w:p":
                    with s2c_lock:
                        T.deliver(srv.encrypt(refcodec.encode_canonical(("iq", {"id": t[1]["id"], "type": "result", "from": "s.whatsapp.net"}, [], None))))
                    pongs["n"] += 1
            time.sleep(0.0002)

    pt = None
    s2c_lock = threading.Lock()      # the server double writes its stream from one place at a time (encrypt + hand over)
    flood_sent = []
    flood_stop = threading.Event()

    def flooder(rr):
        """The server keeps sending while the client's threads send: the network thread works through the receive path of
        the very layers the senders are inside."""
        k = 0
        while not flood_stop.is_set() and k < 400:
            st_ = ("iq", {"id": "flood-%d" % k, "type": "set", "xmlns": "w"}, [("blob", {}, [], gen.blob(rr, rr.choice([0, 3, 40, 300]) + 1))], None)
            try:
                with s2c_lock:
                    T.deliver(srv.encrypt(refcodec.encode_canonical(st_)))
            except Exception:
                return
            flood_sent.append("flood-%d" % k)
            k += 1
            time.sleep(rr.choice([0, 0, 0.0002, 0.001]))
    ft = None
    try:
        if yi:
            yi.__enter__()
        if d.get("flood") and not early:
            acc.count("s2c_flood_runs")
            ft = threading.Thread(target=flooder, args=(random.Random(r.randrange(1 << 30)),), name="verif-flooder")
            ft.daemon = True
            ft.start()
        if d["ping"]:
            iqmod.time = FastClock()
            acc.count("ping_thread_runs")
            pt = threading.Thread(target=ponger, name="verif-ponger")
            pt.daemon = True
            pt.start()
            T.stack.broadcastEvent(YowLayerEvent(YowAuthenticationProtocolLayer.EVENT_AUTHED, passive=False))
        for t in threads:
            t.start()
        if early:
            # the server's reply arrives while the senders are already at work
            time.sleep(r.choice([0, 0.0005, 0.002, 0.01]))
            T.deliver(srv.take_out())
        deadline = time.time() + 120
        for t in threads:
            t.join(max(0.1, deadline - time.time()))
        alive = [t.name for t in threads if t.is_alive()]
        flood_stop.set()
        if ft is not None:
            ft.join(10)
        if d["ping"]:
            time.sleep(0.01)
            T.iq.stop_thread()
            stop_pong.set()
            pt.join(5)
    finally:
        if yi:
            yi.__exit__(None, None, None)
            acc.count("yields_injected", yi.yields)
        sys.setswitchinterval(old_sw)
        iqmod.time = old_time
        stop_pong.set()
    T.net_sync(20)
    T.close()
    acc.count("runs")
    if alive:
        from vf import probes
        st = probes.thread_states()
        stuck = {n: [list(f[:3]) for f in s[:5]] for n, s in st.items() if n in alive}
        w["stuck"] = stuck
        if all(probes.parked_forever(st[n]) or probes.blocked_on_lock(st[n]) for n in alive if n in st):
            acc.violation("sender-blocked-forever", "sender thread(s) %s blocked forever" % alive, w)
        else:
            acc.inconc("%s: senders still running after 120 s" % tag)
        return
    if errors and errors[0][1] == "DuplicateId":
        acc.violation("two-stanzas-one-id", "%s (composed by %s): the two stanzas cannot be told apart, 'transmitted exactly once' cannot hold for both" % (errors[0][2], errors[0][0]), w)
        return
    if errors:
        acc.violation("send-raises:%s" % errors[0][1], "a sender got %s: %s" % (errors[0][1], errors[0][2]), w)
        return
    acc.count("stanzas_sent", len(sent))
    acc.count("stanzas_with_library_ids", lib_ids["n"])
    acc.count("refused_during_handshake", refused["n"])
    if flood_sent:
        # what the server sent during the run came up complete and in order
        def flood_up():
            return [n_["id"] for n_ in list(T.mid.received) if hasattr(n_, "tag") and str(n_["id"] or "").startswith("flood-")]
        T.wait(lambda: len(flood_up()) >= len(flood_sent), 10)
        ups = flood_up()
        acc.count("s2c_flood_frames", len(flood_sent))
        if ups != flood_sent:
            acc.violation("s2c-during-sends:%s" % ("lost" if len(ups) < len(flood_sent) else "order"), "server frames delivered while client threads were sending did not all come up in order: %d of %d, first ids %s"
                          % (len(ups), len(flood_sent), ups[:3]), w)
            return
    if early and not T.wait(in_transport, 20):
        acc.inconc("%s: handshake did not complete in an early-sender run (%s)" % (tag, srv.errors))
        return
    # the strict peer's verdict
    if srv.state == "error":
        acc.violation("stream-corrupt", "the byte stream at the wire cannot be parsed/decrypted in counter order: %s" % srv.errors, w)
        return
    if srv.buf:
        acc.violation("stream-trailing-bytes", "%d bytes of an incomplete frame remain at the peer after all senders finished" % len(srv.buf), w)
        return
    order = []
    seen = {}
    pings = 0
    for p in srv.received:
        try:
            t = refcodec.decode(p)
        except refcodec.FormatError as e:
            acc.violation("frame-invalid", "a decrypted frame is not a valid stanza: %s" % e, w)
            return
        if t[1].get("xmlns") == "w:p":
            pings += 1
            continue
        sid = t[1].get("id")
        seen[sid] = seen.get(sid, 0) + 1
        order.append(sent.get(sid, "?"))
    acc.count("stanzas_decrypted", len(order))
    acc.count("pings_seen", pings)
    acc.count("pongs_answered", pongs["n"])
    dup = [s for s, c in seen.items() if c > 1]
    lost = [s for s in sent if s not in seen]
    extra = [s for s in seen if s not in sent]
    if dup or lost or extra:
        acc.violation("exactly-once:%s" % ("dup" if dup else "lost" if lost else "extra"), "stanzas transmitted not exactly once: duplicated %s lost %s unknown %s" % (dup[:3], lost[:3], extra[:3]), w)
        return
    # per-thread order must be preserved (each thread sends sequentially)
    # distinct interleavings: compress the order of sender names
    comp = []
    for nme in order:
        if not comp or comp[-1] != nme:
            comp.append(nme)
    interleaved = len(comp) > len(set(order))
    if interleaved:
        acc.count("interleaved_runs")
    acc.seen("sender_orders", "".join(x[1] for x in comp)[:200])
    acc.case(["run", "".join(x[1] for x in comp), d["entries"], tag], nontrivial=interleaved)
    acc.count("run_ok")
    acc.maxi("frame_bytes", max([len(p) for p in srv.received] or [0]))



def stalled_write_run(acc, seed, tag, stall=6.5):
    """A sender is stuck inside its socket write (between a frame's length header and its payload) for several keep-alive
    intervals while the keep-alive thread comes due: the ping must wait its turn, whatever the wait; afterwards the stream must
    still be whole frames in counter order."""
    from vf import tstack, noisepeer, refcodec
    from yowsup.layers import YowLayerEvent
    from yowsup.layers.auth import YowAuthenticationProtocolLayer
    import yowsup.layers.protocol_iq.layer as iqmod
    r = gen.rng(seed, ID, tag)
    w = {"tag": tag, "kind": "stalled-write", "stall_s": stall}
    srv = noisepeer.NoiseServer()
    prof = tstack.make_profile("c11s_%s" % tag.replace("/", "_"), server_static=srv.static_public)
    T = build(prof)
    T.attach(srv)
    T.auth()
    if not T.wait(lambda: len(srv.out) > 0, 20):
        acc.inconc("%s: no client hello" % tag)
        return
    T.deliver(srv.take_out())
    if not T.wait(lambda: srv.state == "transport" and T.noise._wa_noiseprotocol.state == "transport", 20) or T.net_sync(20) != "ok":
        acc.inconc("%s: handshake did not complete" % tag)
        return
    acc.count("stalled_write_runs")
    stalled = threading.Event()
    release = threading.Event()
    me = {}

    def after_feed(b):
        if threading.get_ident() == me.get("id") and not stalled.is_set() and len(b) == 3:
            stalled.set()               # the 3-byte length header is out, the payload is not
            release.wait(stall)
    T.wire.after_feed = after_feed
    errs = []

    def sender():
        me["id"] = threading.get_ident()
        try:
            T.mid.send(payload_node(random.Random(r.randrange(1 << 30)), "stalled-0"))
            T.mid.send(payload_node(random.Random(r.randrange(1 << 30)), "stalled-1"))
        except Exception as e:  # noqa
            errs.append((type(e).__name__, str(e)[:200]))
    old_time = iqmod.time
    iqmod.time = FastClock()
    th = threading.Thread(target=sender, name="verif-stalled-sender")
    try:
        th.start()
        if not stalled.wait(10):
            acc.inconc("%s: the write never reached the stall point" % tag)
            return
        # the keep-alive starts now and comes due at once (fast clock), far more often than the stall lasts
        T.stack.broadcastEvent(YowLayerEvent(YowAuthenticationProtocolLayer.EVENT_AUTHED, passive=False))
        th.join(stall + 20)
        time.sleep(0.05)
    finally:
        release.set()
        T.iq.stop_thread()
        iqmod.time = old_time
        T.wire.after_feed = None
    if th.is_alive():
        acc.inconc("%s: stalled sender did not finish" % tag)
        return
    T.net_sync(10)
    T.close()
    if errs:
        acc.violation("stalled-write:send-raises:%s" % errs[0][0], "the stalled sender got %s: %s" % errs[0], w)
        return
    if srv.state == "error":
        acc.violation("stalled-write:stream-corrupt", "while one sender was stuck in its socket write for %.1f s another thread's frame went in between: %s" % (stall, srv.errors), w)
        return
    ids = []
    for p in srv.received:
        try:
            t = refcodec.decode(p)
        except refcodec.FormatError as e:
            acc.violation("stalled-write:frame-invalid", "a decrypted frame is not a valid stanza: %s" % e, w)
            return
        ids.append(t[1].get("id"))
    if ids[:2] != ["stalled-0", "stalled-1"] and [i for i in ids if i in ("stalled-0", "stalled-1")] != ["stalled-0", "stalled-1"]:
        acc.violation("stalled-write:lost-or-reordered", "the stalled sender's stanzas arrived as %s" % ids[:6], w)
        return
    acc.count("stalled_write_ok")
    acc.count("pings_after_stall", len([i for i in ids if i not in ("stalled-0", "stalled-1")]))
    acc.case(["stalled", tag], nontrivial=True)


def real_run(acc, seed, tag, dispatcher_name, nthreads, per_thread):
    """Concurrent senders through the library's complete default stack and its real dispatcher over loopback TCP."""
    from vf import realnet
    from yowsup.layers.network import YowNetworkLayer
    from yowsup.layers.auth import YowAuthenticationProtocolLayer
    r = gen.rng(seed, ID, tag)
    disp = YowNetworkLayer.DISPATCHER_SOCKET if dispatcher_name == "socket" else YowNetworkLayer.DISPATCHER_ASYNCORE
    slow = r.random() < 0.5
    srv = realnet.LoopServer(slow_reader=slow)
    srv.start()
    c = realnet.RealClient("c11real_%s" % tag.replace("/", "_"), srv.port, disp)
    w = {"tag": tag, "dispatcher": dispatcher_name, "threads": nthreads, "per_thread": per_thread}
    acc.count("real_runs")
    acc.count("real:" + dispatcher_name)
    acc.count("real_slow_reader" if slow else "real_fast_reader")
    w["slow_reader"] = slow
    # thread switches injected at statement boundaries of the dispatchers and of asyncore itself (never inside a lock of ours)
    yp = r.choice([0.0, 0.1, 0.3, 0.5, 0.5])
    yi = inject.YieldInjector(random.Random(r.randrange(1 << 30)), ("dispatcher_asyncore.py", "dispatcher_socket.py", "asyncore/__init__.py", "network/layer.py"), p=yp) if yp else None
    if yi:
        yi.__enter__()
    w["yield_p"] = yp
    try:
        c.start_loop()
        c.connect_async()
        def wire_diff():
            """bytes handed to the network layer (probe directly above it) against the bytes the peer's socket read"""
            want = b"".join(bytes(x) for x in list(c.probe_low.sent))
            got = bytes(srv.conns[0].raw) if srv.conns else b""
            if want == got:
                return None
            n = min(len(want), len(got))
            i = next((k for k in range(n) if want[k] != got[k]), n)
            return "handed to the network layer %d bytes, socket carried %d; first difference at offset %d" % (len(want), len(got), i)
        if not c.wait(lambda: c.events(YowAuthenticationProtocolLayer.EVENT_AUTHED) >= 1, 20):
            d_ = wire_diff()
            if d_ and c.events(YowNetworkLayer.EVENT_STATE_DISCONNECTED) == 0:
                acc.violation("real:wire-differs-at-login:%s" % dispatcher_name, "during the handshake (handshake thread and %s loop both write) the socket did not carry the bytes "
                              "the stack wrote: %s; server state %s" % (dispatcher_name, d_, [x.srv.state for x in srv.conns]), w)
                return
            acc.inconc("%s: login over loopback did not complete (server %s)" % (tag, [x.srv.state for x in srv.conns]))
            return
        conn = srv.conns[0]
        base = len(conn.stanzas)
        sent = {}
        errors = []
        lock = threading.Lock()

        def sender(name, rr):
            for i in range(per_thread):
                sid = "%s-%d" % (name, i)
                with lock:
                    sent[sid] = name
                try:
                    c.app.toLower(BlobIq(payload_node(rr, sid)))
                except Exception as e:  # noqa
                    errors.append((name, type(e).__name__, str(e)[:200]))
                    return
        ths = [threading.Thread(target=sender, args=("r%d" % k, random.Random(r.randrange(1 << 30))), name="verif-rsender-%d" % k) for k in range(nthreads)]
        for t in ths:
            t.start()
        for t in ths:
            t.join(60)
        if any(t.is_alive() for t in ths):
            acc.inconc("%s: senders still running after 60 s" % tag)
            return
        if errors:
            acc.violation("real:send-raises:%s:%s" % (dispatcher_name, errors[0][1]), "a sender got %s: %s" % (errors[0][1], errors[0][2]), w)
            return
        def all_in():
            ids = set(t[1].get("id") for t in conn.stanzas[base:])
            return all(s_ in ids for s_ in sent)
        c.wait(lambda: conn.srv.state == "error" or all_in(), 30)
        acc.count("stanzas_sent", len(sent))
        if conn.srv.state == "error":
            acc.violation("real:stream-corrupt:%s" % dispatcher_name, "the byte stream at the socket cannot be parsed/decrypted in counter order: %s" % conn.srv.errors, w)
            return
        seen = {}
        for t in conn.stanzas[base:]:
            seen[t[1].get("id")] = seen.get(t[1].get("id"), 0) + 1
        dup = [s_ for s_, n in seen.items() if n > 1]
        lost = [s_ for s_ in sent if s_ not in seen]
        if dup or lost:
            acc.violation("real:exactly-once:%s:%s" % (dispatcher_name, "dup" if dup else "lost"), "over the real %s dispatcher stanzas were transmitted not exactly once: duplicated %s, lost %s (of %d)"
                          % (dispatcher_name, dup[:3], lost[:3], len(sent)), w)
            return
        d_ = wire_diff()
        if d_:
            time.sleep(0.3)
            d_ = wire_diff()
        if d_:
            acc.violation("real:wire-differs:%s" % dispatcher_name, "the socket did not carry exactly the bytes handed to the network layer: %s" % d_, w)
            return
        acc.count("wire_bytes_equal", len(srv.conns[0].raw))
        acc.count("stanzas_decrypted", len(seen))
        acc.case(["real", tag], nontrivial=True)
        acc.count("real_ok")
    finally:
        try:
            c.app.disconnect()
        except Exception:
            pass
        c.stop_loop()
        time.sleep(0.05)
        srv.stop()
        if yi:
            yi.__exit__()
            acc.count("real_yields", yi.yields)


def real_backlog_reconnect_case(acc, seed, tag, dispatcher_name):
    """Real dispatcher: the peer stops reading, senders pile up output, the connection is dropped with output still pending; then
    the same stack connects again. The second connection must carry exactly what is written on it: login completes, the stanzas
    sent on it arrive exactly once, and the socket bytes equal the bytes handed to the network layer since the reconnect."""
    from vf import realnet
    from yowsup.structs import ProtocolTreeNode
    from yowsup.layers.network import YowNetworkLayer
    from yowsup.layers.auth import YowAuthenticationProtocolLayer
    r = gen.rng(seed, ID, tag)
    disp = YowNetworkLayer.DISPATCHER_SOCKET if dispatcher_name == "socket" else YowNetworkLayer.DISPATCHER_ASYNCORE
    srv = realnet.LoopServer(slow_reader=True)
    srv.start()
    c = realnet.RealClient("c11back_%s" % tag.replace("/", "_"), srv.port, disp)
    w = {"tag": tag, "dispatcher": dispatcher_name, "kind": "backlog-reconnect"}
    A, D = YowAuthenticationProtocolLayer.EVENT_AUTHED, YowNetworkLayer.EVENT_STATE_DISCONNECTED
    acc.count("real_backlog_cases")
    try:
        c.start_loop()
        c.connect_async()
        if not c.wait(lambda: c.events(A) >= 1, 20):
            acc.inconc("%s: login over loopback did not complete" % tag)
            return
        conn = srv.conns[0]
        conn.stalled = True
        big = r.choice([70000, 200000, 400000])
        nbig = r.choice([4, 8])

        def pile(name, rr):
            for i in range(nbig):
                try:
                    c.app.toLower(BlobIq(ProtocolTreeNode("iq", {"id": "%s-%d" % (name, i), "type": "set", "xmlns": "w"}, [ProtocolTreeNode("blob", {}, None, gen.blob(rr, 64) * (big // 64))])))
                except Exception:  # noqa  (the connection is dropped under these senders: errors are theirs to get)
                    return
        ths = [threading.Thread(target=pile, args=("p%d" % k, random.Random(r.randrange(1 << 30))), name="verif-pile-%d" % k) for k in range(2)]
        for t in ths:
            t.daemon = True
            t.start()
        time.sleep(r.choice([0.05, 0.2, 0.4]))
        how = r.choice(["local-disconnect", "peer-reset"])
        w["how"] = how
        acc.count("real_backlog:" + how)
        if how == "local-disconnect":
            c.app.disconnect()
            time.sleep(0.05)
        conn.kill()
        for t in ths:
            t.join(20)
        if any(t.is_alive() for t in ths):
            from vf import probes
            stt = probes.stuck(ths)
            if stt is None:
                acc.inconc("%s: senders still making progress 20 s after the connection was dropped (slow machine?)" % tag)
                return
            acc.violation("real-backlog:sender-stuck:%s" % dispatcher_name, "a sender is still inside its send 20 s after the connection was dropped: %s" % {n: [list(f[:3]) for f in s_[:5]] for n, s_ in stt.items()}, w)
            return
        if not c.wait(lambda: c.probe_top.event_names().count(D) >= 1, 10):
            acc.violation("real-backlog:no-disconnected:%s" % dispatcher_name, "a connection dropped with output pending was never announced as down", w)
            return
        t0 = time.time()
        while time.time() - t0 < 5 and any(t.is_alive() for t in c.net_threads):
            time.sleep(0.01)
        time.sleep(0.15)
        n_sent = len(c.probe_low.sent)
        n_conns = len(srv.conns)
        c.connect_async()
        ok = c.wait(lambda: c.events(A) >= 2, 15)
        conn2 = srv.conns[n_conns] if len(srv.conns) > n_conns else None

        def wire_diff():
            want = b"".join(bytes(x) for x in list(c.probe_low.sent)[n_sent:])
            got = bytes(conn2.raw) if conn2 else b""
            if want == got:
                return None
            n = min(len(want), len(got))
            i = next((k for k in range(n) if want[k] != got[k]), n)
            return "handed to the network layer since the reconnect %d bytes, the new socket carried %d; first difference at offset %d" % (len(want), len(got), i)
        if not ok:
            acc.violation("real-backlog:no-relogin:%s" % dispatcher_name, "after a connection was dropped with output pending, the next connection of the same stack does not log in "
                          "(server side %s; %s)" % ([x.srv.state for x in srv.conns], wire_diff()), w)
            return
        ids = ["n%d-%d" % (k, i) for k in range(2) for i in range(8)]

        def small(k):
            rr = random.Random(k)
            for i in range(8):
                c.app.toLower(BlobIq(payload_node(rr, "n%d-%d" % (k, i))))
        ths = [threading.Thread(target=small, args=(k,), name="verif-small-%d" % k) for k in range(2)]
        for t in ths:
            t.daemon = True
            t.start()
        for t in ths:
            t.join(20)
        c.wait(lambda: conn2.srv.state == "error" or all(i in set(t[1].get("id") for t in conn2.stanzas) for i in ids), 15)
        if conn2.srv.state == "error":
            acc.violation("real-backlog:stream-corrupt:%s" % dispatcher_name, "the stream of the second connection cannot be parsed/decrypted: %s; %s" % (conn2.srv.errors, wire_diff()), w)
            return
        got = [t[1].get("id") for t in conn2.stanzas]
        bad_ = [i for i in ids if got.count(i) != 1] + [g for g in got if str(g).startswith("p")]
        if bad_:
            acc.violation("real-backlog:exactly-once:%s" % dispatcher_name, "on the second connection stanzas arrived not exactly once, or stanzas of the dropped connection arrived: %s" % bad_[:5], w)
            return
        d_ = wire_diff()
        if d_:
            time.sleep(0.3)
            d_ = wire_diff()
        if d_:
            acc.violation("real-backlog:wire-differs:%s" % dispatcher_name, "second connection: %s" % d_, w)
            return
        acc.count("real_backlog_ok")
        acc.case(["real-backlog", tag], nontrivial=True)
    finally:
        try:
            c.app.disconnect()
        except Exception:
            pass
        c.stop_loop()
        time.sleep(0.05)
        srv.stop()


def real_big_stanza_case(acc, seed, tag, dispatcher_name, prop="C11"):
    """Real dispatcher: the peer does not read for a moment while one thread sends a stanza larger than the socket buffers and
    others send small ones; when the peer reads again everything must arrive whole, once and in each sender's order, and the socket
    must have carried exactly the bytes handed to the network layer."""
    from vf import realnet
    from yowsup.structs import ProtocolTreeNode
    from yowsup.layers.network import YowNetworkLayer
    from yowsup.layers.auth import YowAuthenticationProtocolLayer
    r = gen.rng(seed, prop, tag)
    disp = YowNetworkLayer.DISPATCHER_SOCKET if dispatcher_name == "socket" else YowNetworkLayer.DISPATCHER_ASYNCORE
    srv = realnet.LoopServer()
    srv.start()
    c = realnet.RealClient("%sbig_%s" % (prop.lower(), tag.replace("/", "_")), srv.port, disp)
    w = {"tag": tag, "dispatcher": dispatcher_name, "kind": "big-stanza"}
    acc.count("real_big_cases")
    acc.count("real_big:" + dispatcher_name)
    try:
        c.start_loop()
        c.connect_async()
        if not c.wait(lambda: c.events(YowAuthenticationProtocolLayer.EVENT_AUTHED) >= 1, 20):
            acc.inconc("%s: login over loopback did not complete" % tag)
            return
        conn = srv.conns[0]
        size = r.choice([6, 9, 12]) * (1 << 20)
        w["size"] = size
        conn.stalled = True
        errors = []

        def big():
            try:
                c.app.toLower(BlobIq(ProtocolTreeNode("iq", {"id": "big-0", "type": "set", "xmlns": "w"}, [ProtocolTreeNode("blob", {}, None, gen.blob(r, 256) * (size // 256))])))
                c.app.toLower(BlobIq(ProtocolTreeNode("iq", {"id": "big-1", "type": "set", "xmlns": "w"}, None, None)))
            except Exception as e:  # noqa
                errors.append(("big", type(e).__name__, str(e)[:200]))

        def small(k):
            rr = random.Random(k)
            try:
                for i in range(6):
                    c.app.toLower(BlobIq(payload_node(rr, "s%d-%d" % (k, i))))
            except Exception as e:  # noqa
                errors.append(("small", type(e).__name__, str(e)[:200]))
        ths = [threading.Thread(target=big, name="verif-big")] + [threading.Thread(target=small, args=(k,), name="verif-small-%d" % k) for k in range(2)]
        for t in ths:
            t.daemon = True
            t.start()
        time.sleep(r.choice([0.3, 1.0, 2.5]))
        conn.stalled = False
        for t in ths:
            t.join(60)
        if any(t.is_alive() for t in ths):
            from vf import probes
            stt = probes.stuck(ths)
            if stt is None:
                acc.inconc("%s: senders still making progress 60 s after the peer had started reading again (slow machine?)" % tag)
                return
            acc.violation("real-big:sender-stuck:%s" % dispatcher_name, "a sender did not return within 60 s after the peer had started reading again, blocked in %s"
                          % {n: [list(f[:3]) for f in s_[:4]] for n, s_ in stt.items()}, w)
            return
        if errors:
            acc.violation("real-big:send-raises:%s:%s" % (dispatcher_name, errors[0][1]), "a sender got %s: %s" % (errors[0][1], errors[0][2]), w)
            return
        want = ["big-0", "big-1"] + ["s%d-%d" % (k, i) for k in range(2) for i in range(6)]
        c.wait(lambda: conn.srv.state == "error" or all(i in set(t[1].get("id") for t in conn.stanzas) for i in want), 60)
        sent_b = sum(len(x) for x in list(c.probe_low.sent))
        if conn.srv.state == "error":
            acc.violation("real-big:stream-corrupt:%s" % dispatcher_name, "a %d byte stanza sent while the peer was not reading: the stream cannot be parsed/decrypted any more (%s); handed to the network "
                          "layer %d bytes, the socket carried %d" % (size, conn.srv.errors, sent_b, len(conn.raw)), w)
            return
        got = [t[1].get("id") for t in conn.stanzas]
        bad_ = [i for i in want if got.count(i) != 1]
        if bad_:
            acc.violation("real-big:exactly-once:%s" % dispatcher_name, "stanzas %s arrived not exactly once (handed to the network layer %d bytes, the socket carried %d; client still connected: %s)"
                          % (bad_[:4], sent_b, len(conn.raw), c.net.getStatus()), w)
            return
        for k in ("big", "s0", "s1"):
            seq = [i for i in got if str(i).startswith(k + "-")]
            if seq != sorted(seq, key=lambda x: int(x.split("-")[1])):
                acc.violation("real-big:order:%s" % dispatcher_name, "sender %s's stanzas arrived as %s" % (k, seq), w)
                return
        acc.count("real_big_ok")
        acc.case(["real-big", tag], nontrivial=True)
    finally:
        try:
            c.app.disconnect()
        except Exception:
            pass
        c.stop_loop()
        time.sleep(0.05)
        srv.stop()


def core_stack_run(acc, seed, tag):
    """A stack assembled from the core layers alone (network stand-in, framing, Noise, coder: no logger layer, no protocol
    layers), the way an application does that speaks stanzas itself: several threads call stack.send() at once, some writes are
    slow. Every stanza must arrive exactly once, whole, in each thread's order."""
    from vf import tstack, noisepeer, refcodec, probes
    from yowsup.stacks import YowStack
    from yowsup.layers.noise.layer import YowNoiseLayer
    from yowsup.layers.noise.layer_noise_segments import YowNoiseSegmentsLayer
    from yowsup.layers.coder import YowCoderLayer
    r = gen.rng(seed, ID, tag)
    w = {"tag": tag, "kind": "core-stack"}
    srv = noisepeer.NoiseServer()
    prof = tstack.make_profile("c11c_%s" % tag.replace("/", "_"), server_static=srv.static_public)
    T = tstack.Transport.__new__(tstack.Transport)
    T.wire = tstack.Wire()
    # (assembled without a props argument, the profile set afterwards: what getDefaultStack() and the demos do)
    T.stack = YowStack((T.wire, YowNoiseSegmentsLayer, YowNoiseLayer, YowCoderLayer), reversed=False)
    T.stack.setProp("profile", prof)
    T.noise = T.stack.getLayer(2)
    T.profile, T.server, T.net, T.net_stack = prof, None, None, None
    T.attach(srv)
    T.auth()
    if not T.wait(lambda: len(srv.out) > 0, 20):
        acc.inconc("%s: no client hello" % tag)
        return
    T.deliver(srv.take_out())
    if not T.wait(lambda: srv.state == "transport" and T.noise._wa_noiseprotocol.state == "transport", 20) or T.net_sync(20) != "ok":
        acc.inconc("%s: handshake did not complete (%s)" % (tag, srv.errors))
        return
    acc.count("core_stack_runs")
    slow = random.Random(r.randrange(1 << 30))
    slock = threading.Lock()

    def after_feed(b):
        with slock:
            x = slow.random()
        if x < 0.15:
            time.sleep(0.002)      # a write that takes a moment: other senders queue up behind it meanwhile
    T.wire.after_feed = after_feed
    nthreads, per = r.choice([3, 4]), r.choice([15, 30])
    errors = []

    def sender(k, rr):
        for i in range(per):
            try:
                T.stack.send(payload_node(rr, "c%d-%d" % (k, i)))
            except Exception as e:  # noqa
                errors.append((type(e).__name__, str(e)[:200]))
                return
    ths = [threading.Thread(target=sender, args=(k, random.Random(r.randrange(1 << 30))), name="verif-core-sender-%d" % k) for k in range(nthreads)]

    def other_accounts():
        # other stacks of the same process (other accounts) start their logins meanwhile: each writes its own connection
        # prologue, switching its own framing off and on around it
        for j in range(4):
            try:
                srv2 = noisepeer.NoiseServer()
                T2 = tstack.Transport.__new__(tstack.Transport)
                T2.wire = tstack.Wire()
                T2.stack = YowStack((T2.wire, YowNoiseSegmentsLayer, YowNoiseLayer, YowCoderLayer), reversed=False)
                T2.stack.setProp("profile", tstack.make_profile("c11c2_%s_%d" % (tag.replace("/", "_"), j), server_static=srv2.static_public))
                T2.noise = T2.stack.getLayer(2)
                T2.profile, T2.server, T2.net, T2.net_stack = None, None, None, None
                T2.wire.after_feed = lambda b: time.sleep(0.001)
                T2.attach(srv2)
                T2.auth()
                T2.wait(lambda: len(srv2.out) > 0, 5)
                T2.close()
                acc.count("core_stack_other_logins")
            except Exception as e:  # noqa
                errors.append(("other-account:" + type(e).__name__, str(e)[:200]))
                return
    ths.append(threading.Thread(target=other_accounts, name="verif-core-other-accounts"))
    old_sw = sys.getswitchinterval()
    sys.setswitchinterval(r.choice([0.005, 0.00001]))
    yp = r.choice([0.0, 0.05, 0.2])
    yi = inject.YieldInjector(random.Random(r.randrange(1 << 30)), YIELD_FILES + ("yowsup/layers/coder/layer.py",), p=yp) if yp else None
    try:
        if yi:
            yi.__enter__()
        for t in ths:
            t.daemon = True
            t.start()
        for t in ths:
            t.join(60)
    finally:
        if yi:
            yi.__exit__()
            acc.count("core_stack_yields", yi.yields)
        sys.setswitchinterval(old_sw)
        T.wire.after_feed = None
    if any(t.is_alive() for t in ths):
        stt = probes.stuck(ths)
        if stt is None:
            acc.inconc("%s: core-stack senders still making progress after 60 s (slow machine?)" % tag)
            T.close()
            return
        acc.violation("core-stack:sender-stuck", "a sender into the core-only stack did not return: %s" % {n: [list(f[:3]) for f in s_[:5]] for n, s_ in stt.items()}, w)
        T.close()
        return
    T.close()
    if errors:
        acc.violation("core-stack:send-raises:%s" % errors[0][0], "stack.send raised %s: %s" % errors[0], w)
        return
    if srv.state == "error":
        acc.violation("core-stack:stream-corrupt", "the peer cannot parse/decrypt the stream in counter order: %s" % srv.errors, w)
        return
    got = []
    for p_ in srv.received:
        try:
            got.append(refcodec.decode(p_)[1].get("id"))
        except refcodec.FormatError as e:
            acc.violation("core-stack:frame-invalid", "a decrypted frame is not a valid stanza: %s" % e, w)
            return
    want = ["c%d-%d" % (k, i) for k in range(nthreads) for i in range(per)]
    bad_ = [i for i in want if got.count(i) != 1]
    if bad_:
        acc.violation("core-stack:exactly-once:%s" % ("dup" if any(got.count(i) > 1 for i in bad_) else "lost"), "threads calling stack.send() on a core-only stack: stanzas %s were transmitted %s times"
                      % (bad_[:4], [got.count(i) for i in bad_[:4]]), w)
        return
    for k in range(nthreads):
        seq = [int(i.split("-")[1]) for i in got if i.startswith("c%d-" % k)]
        if seq != sorted(seq):
            acc.violation("core-stack:order", "thread %d's stanzas arrived as %s" % (k, seq[:12]), w)
            return
    acc.count("core_stack_ok")
    acc.count("core_stack_stanzas", len(want))
    acc.case(["core", tag], nontrivial=True)


def make_desc(r):
    k = r.choice([2, 3, 4])
    entries = [r.choice(["top", "sendIq", "below-group"]) for _ in range(k)]
    return {"entries": entries, "per_thread": r.choice([10, 30, 40]), "ping": r.random() < 0.35, "switch": r.choice([0.005, 0.00001]),
            "yseed": r.randrange(1 << 30), "yp": r.choice([0.0, 0.02, 0.1, 0.25]), "early": r.random() < 0.25, "flood": r.random() < 0.4}


def shards(tier, seed, nworkers):
    q = tier == "quick"
    nsh = 6 if q else nworkers
    specs = [{"kind": "runs", "shard": i, "n": (300 if q else 20000) // nsh} for i in range(nsh)]
    for dname in ("socket", "asyncore"):
        for k in range(1 if q else 8):
            specs.append({"kind": "real", "dispatcher": dname, "rep": k, "n": 12 if q else 60})
    for k in range(1 if q else 8):
        specs.append({"kind": "stalled", "rep": k})
    for k in range(2 if q else nworkers):
        specs.append({"kind": "core-stack", "rep": k, "n": 8 if q else 150})
    for dname in ("socket", "asyncore"):
        for k in range(1 if q else 6):
            specs.append({"kind": "real-backlog", "dispatcher": dname, "rep": k, "n": 3 if q else 10})
        for k in range(1 if q else 4):
            specs.append({"kind": "real-big", "dispatcher": dname, "rep": k, "n": 2 if q else 6})
    return specs


def run(spec, acc):
    from vf import env
    env.shim_thirdparty()
    if spec["kind"] == "stalled":
        stalled_write_run(acc, spec["seed"], "stalled/%d" % spec["rep"])
        acc.sample({"stalled_write": "sender stuck 6.5 s between header and payload while the keep-alive comes due"})
        return
    if spec["kind"] == "core-stack":
        for i in range(spec["n"]):
            core_stack_run(acc, spec["seed"], "core/%d/%d" % (spec["rep"], i))
        acc.sample({"core_stack": "3-4 threads call stack.send() on a stack of framing, Noise and coder layers only; 15% of the writes take 2 ms"})
        return
    if spec["kind"] == "real-big":
        for i in range(spec["n"]):
            real_big_stanza_case(acc, spec["seed"], "big/%s/%d/%d" % (spec["dispatcher"], spec["rep"], i), spec["dispatcher"])
        acc.sample({"real_big_stanza": "a 6-12 MB stanza and small ones sent while the peer is not reading for 0.3-2.5 s", "dispatcher": spec["dispatcher"]})
        return
    if spec["kind"] == "real-backlog":
        for i in range(spec["n"]):
            real_backlog_reconnect_case(acc, spec["seed"], "backlog/%s/%d/%d" % (spec["dispatcher"], spec["rep"], i), spec["dispatcher"])
        acc.sample({"real_backlog_reconnect": "peer stops reading, output piles up, connection dropped, same stack reconnects", "dispatcher": spec["dispatcher"]})
        return
    if spec["kind"] == "real":
        for i in range(spec["n"]):
            r = gen.rng(spec["seed"], ID, "real/%s/%d/%d" % (spec["dispatcher"], spec["rep"], i))
            real_run(acc, spec["seed"], "real/%s/%d/%d" % (spec["dispatcher"], spec["rep"], i), spec["dispatcher"], r.choice([2, 3, 4]), r.choice([10, 25]))
        acc.sample({"real_dispatcher": spec["dispatcher"], "runs": spec["n"]})
        return
    for i in range(spec["n"]):
        tag = "run/%d/%d" % (spec["shard"], i)
        r = gen.rng(spec["seed"], ID, tag + "/d")
        d = make_desc(r)
        if i == 0:
            d["entries"] = ["top", "sendIq", "below-group"]
        one_run(acc, spec["seed"], tag, d)
        if i < 2:
            acc.sample(d)


def replay(spec, acc):
    from vf import env
    env.shim_thirdparty()
    w = spec["witness"]
    if w.get("kind") == "core-stack":
        for _ in range(5):
            core_stack_run(acc, spec["seed"], w["tag"])
        return
    if w.get("kind") == "big-stanza":
        return real_big_stanza_case(acc, spec["seed"], w["tag"], w["dispatcher"])
    if w.get("kind") == "backlog-reconnect":
        return real_backlog_reconnect_case(acc, spec["seed"], w["tag"], w["dispatcher"])
    if w.get("kind") == "stalled-write":
        return stalled_write_run(acc, spec["seed"], w["tag"])
    if "desc" not in w:
        return real_run(acc, spec["seed"], w["tag"], w["dispatcher"], w["threads"], w["per_thread"])
    for _ in range(10):
        one_run(acc, spec["seed"], w["tag"], w["desc"])
