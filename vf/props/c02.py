"""C02 — wire-format conformance against the independent reference codec (vf/refcodec.py)."""
import traceback

from vf import gen, treeeq, trees, refcodec

ID = "C02"
LEVEL = "exploration"
RULE = ("one evaluation = one (tree, direction, choice vector): direction 1 = library encoder output decoded by the "
        "reference decoder; direction 2 = reference encoder output under an explicit choice vector (list header 8/16, "
        "length 8/20/31, token vs literal, packed vs raw, JID pair incl. empty user, string-valued content, deflate) "
        "decoded by the library; full product of choices for trees with <= 3000 encodings, random vectors above; plus the "
        "token dictionary entry by entry; non-trivial = direction 2 with a choice differing from the canonical encoding, "
        "or direction 1 with a secondary token / packed string / JID; distinct by (tree hash, direction, vector)")
ASSUMPTIONS = ["the reference codec is our reading of the format; it must reproduce the byte strings pinned in the repository's coder tests and round-trip with itself, else the run is inconclusive",
               "the token tables are a frozen copy of the pinned tree (independent in time, not in origin)"]
REQUIRED = ["decoder_histories", "decoder_history_ok", "decoder_history_refusals", "layer_histories", "layer_history_ok", "layer_history_refusals", "dir1", "dir2", "dir2_noncanonical", "dict_entries", "selftest_vectors", "anchor_ok", "full_product_trees",
            "choice:content:s:tok", "choice:frame:deflate", "choice:list:l16", "choice:value:raw31"]
TIMEOUT = {"quick": 900, "thorough": 7200}

ANCHOR_TREE = ("message", {"from": "abc", "to": "xyz"}, [("media", {"width": "123"}, [], b"123456")], None)
ANCHOR_BYTES = bytes([0, 248, 6, 9, 5, 252, 3, 97, 98, 99, 11, 252, 3, 120, 121, 122, 248, 1, 248, 4, 50, 238, 86, 255, 130, 18,
                      63, 252, 6, 49, 50, 51, 52, 53, 54])


def where(tb):
    fn = "?"
    for fs in traceback.extract_tb(tb):
        if "/yowsup/" in fs.filename:
            fn = fs.name
    return fn


def selftest(acc):
    ok = True
    if refcodec.encode_canonical(ANCHOR_TREE) != ANCHOR_BYTES:
        acc.inconc("reference encoder does not reproduce the bytes pinned in yowsup/layers/coder/test_encoder.py")
        ok = False
    if treeeq.diff(refcodec.decode(ANCHOR_BYTES), ANCHOR_TREE):
        acc.inconc("reference decoder does not decode the bytes pinned in yowsup/layers/coder/test_decoder.py")
        ok = False
    if ok:
        acc.count("anchor_ok")
    return ok


def opt_name(o):
    return o if isinstance(o, str) else o[0]


def dir1(acc, cid, tree, enc):
    acc.count("dir1")
    feats = trees.features(tree)
    nt = bool(feats & {"s:token2", "s:jid", "s:jid-nested", "s:nibble<128", "s:hex<128"})
    acc.case(["d1", gen.__name__, cid, repr(tree)[:3000]], nontrivial=nt)
    w = {"dir": 1, "case": cid, "tree": treeeq.describe(tree)}
    try:
        out = bytes(bytearray(enc.protocolTreeNodeToBytes(treeeq.to_node(tree))))
    except Exception as e:  # noqa
        acc.violation("dir1:encode-raises:%s:%s" % (type(e).__name__, where(e.__traceback__)), "library encoder raised %r" % (e,), w)
        return
    try:
        back = refcodec.decode(out)
    except refcodec.FormatError as e:
        acc.violation("dir1:invalid-frame", "library output is not a valid frame for the reference decoder: %s" % e, w)
        return
    d = treeeq.diff(tree, back)
    if d:
        acc.violation("dir1:decodes-differently:%s" % d.split(":")[1].strip().split(" ")[0], "reference decoder reads another tree: %s" % d, w)
    else:
        acc.count("dir1_ok")
    # the canonical reference encoding should coincide with the library's bytes (diagnostic, not a verdict)
    try:
        if refcodec.encode_canonical(tree) == out:
            acc.count("dir1_bytes_identical_to_canonical")
    except Exception:
        pass


def decoder_histories(acc, seed, n):
    """One decoder (as a coder layer keeps it for its whole life) through histories of frames in which some are damaged in transit
    (a compressed frame cut short, a frame ending inside a string, an unknown control byte): those are refused, and every valid
    frame - plain or compressed - before and after them decodes to exactly its tree."""
    import zlib
    from yowsup.layers.coder.decoder import ReadDecoder
    from yowsup.layers.coder.tokendictionary import TokenDictionary
    for k in range(n):
        r = gen.rng(seed, ID, "dechist/%d" % k)
        dec = ReadDecoder(TokenDictionary())
        acc.count("decoder_histories")
        hist = []
        ok = True
        for i in range(r.randint(4, 12)):
            tree = trees.rand_tree(r, maxdata=300)
            raw = bytes(refcodec.encode_canonical(tree))
            kind = r.choice(["plain", "deflate", "deflate", "cut-deflate", "cut-plain", "bad-deflate"])
            hist.append(kind)
            w = {"op": "decoder-history", "case": k, "history": list(hist)}
            if kind == "plain":
                frame = raw
            elif kind == "deflate":
                frame = b"\x02" + zlib.compress(raw[1:])
            elif kind == "cut-deflate":
                comp = zlib.compress(raw[1:])
                frame = b"\x02" + comp[:-r.randint(1, min(8, len(comp) - 1))]
            elif kind == "bad-deflate":
                comp = bytearray(zlib.compress(raw[1:]))
                comp[r.randrange(2, len(comp))] ^= 0x55
                frame = b"\x02" + bytes(comp)
            else:
                frame = raw[:max(2, len(raw) - r.randint(1, 3))]
            try:
                got = dec.getProtocolTreeNode(list(frame))
            except Exception as e:  # noqa
                if kind in ("plain", "deflate"):
                    acc.violation("decoder-history:valid-frame-refused:%s" % kind, "a valid %s frame was refused (%s: %s) after the history %s on the same decoder"
                                  % (kind, type(e).__name__, str(e)[:80], hist[:-1]), w)
                    ok = False
                    break
                acc.count("decoder_history_refusals")
                continue
            if kind in ("plain", "deflate"):
                d = treeeq.diff(tree, got) if got is not None else "decoded to None"
                if d:
                    acc.violation("decoder-history:decodes-differently:%s" % kind, "a valid %s frame decodes differently after the history %s: %s" % (kind, hist[:-1], d), w)
                    ok = False
                    break
                acc.count("decoder_history_frames_ok")
            # (a damaged frame that happens to decode to something is not judged here)
        if ok:
            acc.count("decoder_history_ok")


def layer_histories(acc, seed, n):
    """The bytes the library emits, as emitted by the coder layer in use: sequences of sends through one YowCoderLayer in which
    some stanzas are refused (a value the encoder cannot write). (A send nested inside another send of the same thread is not
    part of this: the layer lock is not re-entrant, the library never does it.) Every frame that reaches the wire must be a valid encoding of exactly
    the stanza whose send produced it."""
    from vf.probes import Probe
    from yowsup.stacks import YowStack
    from yowsup.layers.coder import YowCoderLayer
    from yowsup.structs import ProtocolTreeNode
    for k in range(n):
        r = gen.rng(seed, ID, "layerhist/%d" % k)
        wire = Probe("wire", forward_down=False)
        top = Probe("top")
        st = YowStack((wire, YowCoderLayer, top), reversed=False)
        expected = []
        nested = []

        def on_send(data):
            if nested:
                t_ = nested.pop()
                expected.append(t_)
                top.send(treeeq.to_node(t_))
        wire.on_send = on_send
        acc.count("layer_histories")
        ops = []
        for j in range(r.randint(2, 8)):
            c = r.random()
            if c < 0.25:
                ops.append("refused")
                bad = ProtocolTreeNode("iq", {"id": None, "type": "get"})       # an attribute without value cannot be written
                try:
                    top.send(bad)
                    acc.count("layer_history_refused_but_accepted")
                except Exception:
                    acc.count("layer_history_refusals")
            else:
                t = small_trees(r)
                if False:
                    ops.append("nested")
                    nested.append(small_trees(r))
                    # order on the wire: the outer stanza's frame is handed down first, the nested send happens inside that call
                    expected.append(t)
                    # (on_send appends the nested one when the outer frame passes the wire)
                    try:
                        top.send(treeeq.to_node(t))
                    except Exception as e:  # noqa
                        acc.violation("layer-history:send-raises:%s" % type(e).__name__, "a send with a nested send inside raised %r" % (e,), {"dir": "layer-history", "ops": ops})
                        break
                else:
                    ops.append("send")
                    expected.append(t)
                    try:
                        top.send(treeeq.to_node(t))
                    except Exception as e:  # noqa
                        acc.violation("layer-history:send-raises:%s" % type(e).__name__, "a plain send raised %r" % (e,), {"dir": "layer-history", "ops": ops})
                        break
        frames = [bytes(bytearray(x)) for x in wire.sent]
        w = {"dir": "layer-history", "case": k, "ops": ops}
        acc.case(["lh", k, ops], nontrivial=("refused" in ops or "nested" in ops))
        if len(frames) != len(expected):
            acc.violation("layer-history:frame-count", "%d stanzas were accepted, %d frames reached the wire (history %s)" % (len(expected), len(frames), ops), w)
            continue
        # a nested send's frame comes after the outer frame was handed down, i.e. in list order of `expected` except that the
        # nested one was appended while the outer one was passing: both orders of those two are the same here
        okk = True
        for i, (f, t) in enumerate(zip(frames, expected)):
            try:
                back = refcodec.decode(f)
            except refcodec.FormatError as e:
                acc.violation("layer-history:invalid-frame:%s" % ("after-refusal" if "refused" in ops[:i + 1] else "nested" if "nested" in ops else "plain"),
                              "frame %d of history %s is not a valid encoding: %s" % (i, ops, e), w)
                okk = False
                break
            d = treeeq.diff(t, back)
            if d:
                acc.violation("layer-history:frame-differs", "frame %d of history %s decodes to another stanza: %s" % (i, ops, d), w)
                okk = False
                break
        if okk:
            acc.count("layer_history_ok")


def judge_lib_decode(acc, dec, frame, tree, w, taken):
    names = [opt_name(o) for o in taken]
    try:
        back = dec.getProtocolTreeNode(bytearray(frame))
    except Exception as e:  # noqa
        cause = culprit(names, e)
        acc.violation("dir2:decode-raises:%s:%s:%s" % (type(e).__name__, where(e.__traceback__), cause),
                      "library decoder raised %r on a valid encoding (choices %s)" % (e, ",".join(names)[:200]), w)
        return False
    if back is None:
        acc.violation("dir2:decode-none", "library decoder returned None for a valid encoding", w)
        return False
    d = treeeq.diff(tree, back)
    if d:
        acc.violation("dir2:decodes-differently:%s:%s" % (d.split(":")[1].strip().split(" ")[0], culprit(names, None)),
                      "library reads another tree from a valid encoding: %s" % d, w)
        return False
    return True


def culprit(names, exc):
    """Mechanism tag: the non-canonical choice kinds present, most specific first."""
    for k in ("s:tok", "s:tok2", "s:nib", "s:hex", "s:jid", "raw31", "jid0", "l16", "deflate", "raw20"):
        if k in names:
            return k
    return "canonical"


def dir2_tree(acc, cid, tree, dec, r, max_full, nrandom):
    """All (or sampled) encodings of one tree through the library decoder; also the reference self round trip."""
    arity, kinds = refcodec.count_sites(tree)
    total = 1
    for a in arity:
        total *= a
        if total > 10 ** 9:
            break
    th = treeeq.describe(tree)
    n = 0
    if total <= max_full:
        acc.count("full_product_trees")
        it = refcodec.all_encodings(tree)
    else:
        acc.count("sampled_trees")

        def sampler():
            for j in range(nrandom):
                ch = refcodec.RandomChooser(r, p_alt=r.choice([0.15, 0.5, 0.9]))
                fr = refcodec.encode(tree, ch)
                yield ch.vector, ch.taken, fr
        it = sampler()
    canonical = None
    for vec, taken, frame in it:
        n += 1
        names = [opt_name(o) for o in taken]
        if canonical is None and total <= max_full:
            canonical = names
        for kd, nm in zip(kindlist(tree, vec, taken), names):
            pass
        noncanon = any(v != 0 for v in vec)
        acc.count("dir2")
        if noncanon:
            acc.count("dir2_noncanonical")
        acc.case(["d2", cid, vec], nontrivial=noncanon)
        # self-test of the reference codec on this very encoding
        try:
            sd = treeeq.diff(tree, refcodec.decode(frame))
        except refcodec.FormatError as e:
            sd = "reference decoder rejects reference encoder output: %s" % e
        acc.count("selftest_vectors")
        if sd:
            acc.inconc("reference codec self round trip failed (%s) for case %s vector %s" % (sd, cid, vec))
            continue
        w = {"dir": 2, "case": cid, "tree": th, "vector": vec, "choices": names[:60], "frame_head": frame[:64].hex(), "frame_len": len(frame)}
        if judge_lib_decode(acc, dec, frame, tree, w, taken):
            acc.count("dir2_ok")
    return n


def kindlist(tree, vec, taken):
    return ()


def count_choices(acc, tree):
    ch = refcodec.MirrorChooser()
    refcodec.encode(tree, ch)
    for k in ch.kinds:
        acc.count("sites:" + k)


def small_trees(r):
    """Trees with few choice sites so that the full product is affordable."""
    c = r.random()
    s = trees.rand_string(r, long_ok=r.random() < 0.1)
    if c < 0.25:
        return ("x", {"k": s}, [], None)
    if c < 0.4:
        return (s, {}, [], None)
    if c < 0.6:
        return ("iq", {}, [], trees.rand_data(r, r.choice([0, 1, 2, 5, 12, 255, 256, 300])))
    if c < 0.75:
        return ("iq", {"id": s}, [("c", {}, [], trees.rand_data(r, r.randint(0, 20)))], None)
    if c < 0.9:
        return ("a", {}, [("b", {}, [], None) for _ in range(r.randint(1, 3))], None)
    return ("x", {s: trees.rand_string(r, long_ok=False)}, [], trees.rand_data(r, r.randint(0, 30)))


def fixed_dir2_cases():
    """Hand-picked trees aimed at every choice kind (ids are stable for replay)."""
    W = refcodec.PRIMARY
    yield "fx/content-token", ("enc", {}, [], b"image")
    yield "fx/content-token2", ("enc", {}, [], refcodec.SECONDARY[300].encode("latin-1"))
    yield "fx/content-digits", ("count", {}, [], b"1234567")
    yield "fx/content-digits-odd", ("count", {}, [], b"123")
    yield "fx/content-hex", ("hash", {}, [], b"DEADBEEF")
    yield "fx/content-hex-odd", ("hash", {}, [], b"ABC")
    yield "fx/content-jid", ("to", {}, [], b"491234@s.whatsapp.net")
    yield "fx/value-token-literal", ("iq", {"type": "result", "xmlns": "w:p"}, [], None)
    yield "fx/server-only", ("iq", {"from": "s.whatsapp.net", "to": "g.us"}, [], None)
    yield "fx/jid", ("message", {"from": "4915112345678@s.whatsapp.net", "participant": "1-2@g.us"}, [], None)
    yield "fx/len-widths", ("m", {"k": "hello world"}, [], b"hello")
    yield "fx/children", ("list", {}, [("item", {}, [], None), ("item", {"k": "v"}, [], None)], None)
    yield "fx/empty-content", ("x", {}, [], b"")
    yield "fx/val-31bit", ("x", {"k": "v" * 300}, [], None)
    yield "fx/F-last", ("x", {"k": "AF", "l": "F", "m": "0F"}, [], None)
    yield "fx/nibble-dots", ("x", {"k": "-.", "l": ".", "m": "1.2-3"}, [], None)
    for i, wd in enumerate(W[3:12]):
        yield "fx/word/%d" % i, (wd, {wd: wd}, [], wd.encode())


def check_dictionary(acc, td):
    """236 primary + 4x256 secondary entries compared by index both ways."""
    for i, wd in enumerate(refcodec.PRIMARY):
        acc.count("dict_entries")
        acc.case_enum()
        got = td.getToken(i)
        if got != wd:
            acc.violation("dict:primary-entry", "primary token %d is %r, reference copy says %r" % (i, got, wd), {"dict": "primary", "index": i})
        if i >= 3:
            idx = td.getIndex(wd)
            if idx != (refcodec.PRIMARY.index(wd), False):
                acc.violation("dict:primary-index", "getIndex(%r) = %r" % (wd, idx), {"dict": "primary", "index": i})
    for i, wd in enumerate(refcodec.SECONDARY):
        acc.count("dict_entries")
        acc.case_enum()
        got = td.getToken(i, True)
        if got != wd:
            acc.violation("dict:secondary-entry", "secondary token %d is %r, reference copy says %r" % (i, got, wd), {"dict": "secondary", "index": i})
        if wd not in refcodec.PRIMARY:
            idx = td.getIndex(wd)
            if idx != (refcodec.SECONDARY.index(wd), True):
                acc.violation("dict:secondary-index", "getIndex(%r) = %r" % (wd, idx), {"dict": "secondary", "index": i})
    for i in (236, 1024):
        pass
    if td.getToken(236) is not None and td.getToken(236) != "":
        acc.count("dict_primary_overflow_nonnull")
    if len(td.dictionary) != 236 or len(td.secondaryDictionary) != 1024:
        acc.violation("dict:size", "dictionary sizes %d/%d" % (len(td.dictionary), len(td.secondaryDictionary)), {"dict": "size"})


def shards(tier, seed, nworkers):
    q = tier == "quick"
    specs = [{"kind": "dict+fixed", "full": 600 if q else 20000}]
    nsw = 4 if q else nworkers
    for i in range(nsw):
        specs.append({"kind": "sweep", "part": [i, nsw], "nrandom": 1 if q else 24, "sweepfull": 0 if q else 64})
    nsh = 4 if q else nworkers * 2
    for i in range(nsh):
        # (thorough: 3 000 / 600 / 1 200 / 16 / 30 took 2.5 minutes on 16 cores next to other work, 8 000 / 1 000 / 4 000 / 24 / 60 more than 100; this is in between)
        specs.append({"kind": "random", "shard": i, "nsmall": (240 if q else 6000) // nsh, "full": 200 if q else 800,
                      "nbig": (160 if q else 2500) // nsh, "nrandom": 6 if q else 20, "bigfull": 0 if q else 40})
    return specs


def libs():
    from yowsup.layers.coder.encoder import WriteEncoder
    from yowsup.layers.coder.decoder import ReadDecoder
    from yowsup.layers.coder.tokendictionary import TokenDictionary
    td = TokenDictionary()
    return td, WriteEncoder(td), ReadDecoder(td)


def record_choices(acc, tree, r):
    pass


def run(spec, acc):
    td, enc, dec = libs()
    seed = spec["seed"]
    if not selftest(acc):
        return
    orig_pick = refcodec.Chooser.pick

    # observe which options were actually taken (histogram for the evidence)
    def counting(cls):
        op = cls.pick

        def pick(self, kind, options):
            o = op(self, kind, options)
            acc.count("choice:%s:%s" % (kind if kind in ("frame", "list", "content") else "value" if kind in ("value", "jiduser", "jidserver") else kind, opt_name(o)))
            return o
        cls.pick = pick
    for cls in (refcodec.Chooser, refcodec.RandomChooser):
        counting(cls)

    if spec["kind"] == "dict+fixed":
        check_dictionary(acc, td)
        layer_histories(acc, seed, 300 if spec.get("full", 600) <= 600 else 6000)
        decoder_histories(acc, seed, 200 if spec.get("full", 600) <= 600 else 4000)
        r = gen.rng(seed, ID, "fixed")
        for cid, tree in fixed_dir2_cases():
            dir1(acc, cid, tree, enc)
            n = dir2_tree(acc, cid, tree, dec, r, spec.get("full", 600), 64)
            acc.sample({"case": cid, "tree": treeeq.describe(tree), "encodings_tried": n})
    elif spec["kind"] == "sweep":
        r = gen.rng(seed, ID, "sweep/%d" % spec["part"][0])
        for cid, tree in trees.sweep(part=tuple(spec["part"]), big_sizes=True):
            dir1(acc, "sweep/" + cid, tree, enc)
            big = any(x in trees.features(tree) for x in ("bin31",))
            dir2_tree(acc, "sweep/" + cid, tree, dec, r, spec.get("sweepfull", 0) if not big else 0, spec["nrandom"] if not big else 1)
    else:
        sh = spec["shard"]
        for i in range(spec["nsmall"]):
            r = gen.rng(seed, ID, "small/%d/%d" % (sh, i))
            tree = small_trees(r)
            cid = "small/%d/%d" % (sh, i)
            dir1(acc, cid, tree, enc)
            n = dir2_tree(acc, cid, tree, dec, r, spec.get("full", 300), spec["nrandom"])
            if i < 2:
                acc.sample({"case": cid, "tree": treeeq.describe(tree), "encodings_tried": n})
        for i in range(spec["nbig"]):
            r = gen.rng(seed, ID, "big/%d/%d" % (sh, i))
            tree = trees.rand_tree(r, maxdata=(1 << 21) if r.random() < 0.02 else 3000)
            cid = "big/%d/%d" % (sh, i)
            dir1(acc, cid, tree, enc)
            dir2_tree(acc, cid, tree, dec, r, spec.get("bigfull", 0), spec["nrandom"] if len(repr(tree)) < 100000 else 2)


def replay(spec, acc):
    td, enc, dec = libs()
    w = spec["witness"]
    if "dict" in w:
        check_dictionary(acc, td)
        return
    cid = w["case"]
    seed = spec["seed"]
    tree = None
    if cid.startswith("fx/"):
        tree = dict(fixed_dir2_cases())[cid]
    elif cid.startswith("sweep/"):
        for c, t in trees.sweep():
            if "sweep/" + c == cid:
                tree = t
    elif cid.startswith("small/"):
        _, sh, i = cid.split("/")
        tree = small_trees(gen.rng(seed, ID, "small/%s/%s" % (sh, i)))
    elif cid.startswith("big/"):
        _, sh, i = cid.split("/")
        r = gen.rng(seed, ID, "big/%s/%s" % (sh, i))
        tree = trees.rand_tree(r, maxdata=(1 << 21) if r.random() < 0.02 else 3000)
    if tree is None:
        acc.inconc("cannot rebuild case %s" % cid)
        return
    if w.get("dir") == 1:
        dir1(acc, cid, tree, enc)
    else:
        ch = refcodec.Chooser(w["vector"])
        frame = refcodec.encode(tree, ch)
        judge_lib_decode(acc, dec, frame, tree, dict(w), ch.taken)
