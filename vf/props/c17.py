"""C17 — contact identity keys are pinned: a changed key is never accepted silently."""
from vf import gen

ID = "C17"
LEVEL = "exploration"
RULE = ("one evaluation = one history of 6-20 events over {message A->X, message X->A, group message (A or X sending, X a "
        "member), X reinstalls with a new identity (fresh key store, re-registers with the server double), restart of A} for "
        "2-3 real accounts in the world, with automatic trust off or on at A. After every event (run to quiescence) the "
        "harness reads which of X's identities A's store trusts and compares with its own record of the first identity A saw; "
        "deliveries after an identity change are judged per direction. Non-trivial = the history contains an identity change "
        "after a pin; distinct by (events, autotrust) hash")
ASSUMPTIONS = ["a reinstall is a fresh key store for the same phone number; the server double drops the old installation's one-time keys when the new identity is uploaded",
               "with automatic trust on the library resumes through the retry path: resumption is judged at quiescence, not on the first stanza",
               "histories are sampled"]
REQUIRED = ["histories_with_empty_participant_retries", "broadcast_shaped_messages", "other_accounts_with_autotrust", "builder_assembled_histories", "busy_restarts", "histories", "checkpoints", "identity_changes_after_pin", "refusals_incoming", "refusals_outgoing", "autotrust_replacements",
            "restarts_between_pin_and_change", "autotrust:on", "autotrust:off", "group_messages"]
TIMEOUT = {"quick": 600, "thorough": 7200}

EVENTS = ["a>x", "a>x", "x>a", "x>a", "group-a", "group-x", "reinstall-x", "restart-a", "restart-a-busy", "restart-x", "b>x", "x>a-undecryptable", "x>a-broadcast"]


def one_history(acc, seed, tag):
    from vf import world
    from yowsup.layers.protocol_messages.protocolentities import TextMessageProtocolEntity
    from yowsup.layers.axolotl.props import PROP_IDENTITY_AUTOTRUST
    from yowsup.layers.protocol_messages.protocolentities.attributes.attributes_message_meta import MessageMetaAttributes
    r = gen.rng(seed, ID, tag)
    autotrust = r.random() < 0.5
    three = r.random() < 0.6
    W = world.World(seed=r.randrange(1 << 30), strategy=r.choice(["uniform", "app-first", "app-last", "newest"]), batch=40)
    W.server.low_keys = 12
    W.hang_seconds = 6
    W.server.retry_participant_empty = r.random() < 0.4
    if W.server.retry_participant_empty:
        acc.count("histories_with_empty_participant_retries")
    W.server.notify_identity_change = r.random() < 0.5
    A, X, B = "4911" + gen.s_from(r, gen.DIGITS, 7), "4922" + gen.s_from(r, gen.DIGITS, 7), "4933" + gen.s_from(r, gen.DIGITS, 7)
    phones = [A, X] + ([B] if three else [])
    # the option is only set when the application switches it on: the default must be "off"
    # (the other accounts of this process may have the option on when A has not, stacks are assembled in any order, and in half of
    # the histories through the library's builder: one account's options are its own)
    W.builder_assembly = r.random() < 0.5
    others_auto = (not autotrust) and r.random() < 0.6
    order_ = list(phones)
    r.shuffle(order_)
    for p_ in order_:
        if p_ == A:
            W.add_client(A, props={PROP_IDENTITY_AUTOTRUST: True} if autotrust else {})
        else:
            W.add_client(p_, props={PROP_IDENTITY_AUTOTRUST: True} if others_auto else {})
    if others_auto:
        acc.count("other_accounts_with_autotrust")
    if W.builder_assembly:
        acc.count("builder_assembled_histories")
    G = "%s-1500000000@g.us" % A
    W.server.groups[G] = {"participants": ["%s@s.whatsapp.net" % p for p in phones], "subject": "G", "creator": "%s@s.whatsapp.net" % A}
    n = r.randint(6, 20)
    events = [r.choice(EVENTS) for _ in range(n)]
    if "reinstall-x" not in events and r.random() < 0.8:
        events[r.randrange(n // 2, n)] = "reinstall-x"
    if r.random() < 0.25:
        # the first thing A ever gets from X cannot be decrypted (identity presented, no session), then X reinstalls
        events[0:0] = ["x>a-undecryptable", "reinstall-x", "a>x"]
    w = {"tag": tag, "autotrust": autotrust, "accounts": len(phones), "events": events, "identity_notifications": W.server.notify_identity_change}
    acc.count("identity_notifications:" + ("on" if W.server.notify_identity_change else "off"))
    acc.count("autotrust:" + ("on" if autotrust else "off"))

    class NoQuiescence(Exception):
        pass

    def run_actions(actions):
        W.script = list(W.script[:W.script_pos]) + actions
        if not W.run(max_steps=W.steps + 8000):
            if any(e["type"] == "LibraryHang" for c in W.clients.values() for e in c.errors):
                return True     # (reported at the checkpoint like any other exception)
            # the accounts keep exchanging stanzas without end (a request/answer loop): nothing can be judged from here on
            raise NoQuiescence()
        return True

    def x_identity():
        return W.clients[X].manager().identity.getPublicKey()

    def trusted_set(ids):
        st = W.clients[A].manager()._store
        return [i for i, ik in enumerate(ids) if st.isTrustedIdentity(X, ik)]

    def bad(key, what, at):
        acc.violation(key, "%s (autotrust %s; after event %d: %s)" % (what, "on" if autotrust else "off", at[0], at[1]), dict(w, at=list(at)))
        return False

    ok = True
    run_actions([{"op": "connect", "who": p} for p in phones] + [{"op": "wait-quiet"}])
    ids = [x_identity()]            # identities X has had, in order
    pin = None                      # index into ids of the identity A saw first
    changed_after_pin = False
    restart_between = False
    uid = [0]
    first_seen = [None]
    sent = []                       # (uid marker, sender, target, identity index of X at send time, pinned index at send time)

    def send(sender, target, undecryptable=False, broadcast=False):
        uid[0] += 1
        mk = "MK%dX%s" % (uid[0], gen.s_from(r, gen.ALNUM, 6))
        if broadcast:
            # the server relays this message as one of a broadcast list / the status list: 'from' names the list, the sender is
            # in 'participant'; it is still X's message, encrypted in X's session
            mid = "C17B%d%s" % (uid[0], gen.s_from(r, gen.ALNUM, 5))
            W.server.faults[mid] = {"as_broadcast": r.choice(["status@broadcast", "%s@broadcast" % gen.s_from(r, gen.DIGITS, 10)])}
            acc.count("broadcast_shaped_messages")
            sent.append({"mk": mk, "sender": sender, "target": target, "xid": len(ids) - 1, "pin": pin, "first_ok": None})
            return {"op": "send", "who": sender, "kind": "text", "uid": mk, "build": lambda: TextMessageProtocolEntity(mk, message_meta_attributes=MessageMetaAttributes(id=mid, recipient=target))}
        if undecryptable:
            # every transmission of this message reaches the recipient damaged: it is never shown, but its envelope has
            # presented the sender's identity
            mid = "C17U%d%s" % (uid[0], gen.s_from(r, gen.ALNUM, 5))
            W.server.faults[mid] = {"corrupt_all": True}
            acc.count("undecryptable_messages")
            return {"op": "send", "who": sender, "kind": "text", "uid": mk, "build": lambda: TextMessageProtocolEntity(mk, message_meta_attributes=MessageMetaAttributes(id=mid, recipient=target))}
        sent.append({"mk": mk, "sender": sender, "target": target, "xid": len(ids) - 1, "pin": pin, "first_ok": None})
        return {"op": "send", "who": sender, "kind": "text", "uid": mk, "build": lambda: TextMessageProtocolEntity(mk, to=target)}

    def delivered(mk, phone):
        return len([1 for ph, k, e, g in W.app_log if ph == phone and k == "message" and getattr(e, "getBody", lambda: None)() == mk])

    try:
        for ei, ev in enumerate(events):
            at = (ei, ev)
            if ev == "a>x":
                run_actions([send(A, "%s@s.whatsapp.net" % X)])
            elif ev == "x>a":
                run_actions([send(X, "%s@s.whatsapp.net" % A)])
            elif ev == "x>a-broadcast":
                run_actions([send(X, "%s@s.whatsapp.net" % A, broadcast=True)])
            elif ev == "x>a-undecryptable":
                run_actions([send(X, "%s@s.whatsapp.net" % A, undecryptable=True)])
            elif ev == "b>x":
                if not three:
                    continue
                run_actions([send(B, "%s@s.whatsapp.net" % X)])
            elif ev == "group-a":
                acc.count("group_messages")
                run_actions([send(A, G)])
            elif ev == "group-x":
                acc.count("group_messages")
                run_actions([send(X, G)])
            elif ev == "reinstall-x":
                run_actions([{"op": "reinstall", "who": X}, {"op": "wait-quiet"}])
                ids.append(x_identity())
                if pin is not None:
                    changed_after_pin = True
                    acc.count("identity_changes_after_pin")
                    if restart_between:
                        acc.count("restarts_between_pin_and_change")
            elif ev in ("restart-a", "restart-a-busy"):
                # (busy: A's first start finds its key store locked by another process and is refused; then it starts normally)
                run_actions([{"op": "restart", "who": A, "busy": ev == "restart-a-busy"}, {"op": "wait-quiet"}])
                if ev == "restart-a-busy":
                    acc.count("busy_restarts")
                if pin is not None:
                    restart_between = True
            elif ev == "restart-x":
                run_actions([{"op": "restart", "who": X}, {"op": "wait-quiet"}])
            # ---- checkpoint ------------------------------------------------------------------
            acc.count("checkpoints")
            T = trusted_set(ids)
            am = W.clients[A].manager()
            has_record = not am._store.isTrustedIdentity(X, am.identity.getPublicKey())   # an unrelated key is refused <=> a pin exists
            # harness-side knowledge: once a message between A and X was delivered, A has seen X's identity of that time
            if first_seen[0] is None:
                for m in sent:
                    if m["first_ok"] is None and ({m["sender"], m["target"].split("@")[0]} == {A, X} or (m["target"] == G and m["sender"] in (A, X))):
                        rc = X if m["sender"] == A else A
                        if delivered(m["mk"], rc):
                            m["first_ok"] = True
                            first_seen[0] = m["xid"]
                            break
            if first_seen[0] is not None and not has_record:
                ok = bad("identity-not-remembered", "A exchanged messages with X but its store accepts any identity for X (nothing pinned)", at)
            if pin is None:
                if has_record:
                    if len(T) != 1:
                        ok = bad("pin-matches-none", "A pinned a key for X that is none of X's %d identities" % len(ids), at)
                    else:
                        pin = T[0]
                        acc.count("pins_observed")
            else:
                if len(T) != 1:
                    ok = bad("pin-lost" if len(T) > 1 else "pin-matches-none", "after a pin A's store trusts %d of X's %d identities" % (len(T), len(ids)), at)
                elif not autotrust and T[0] != pin:
                    ok = bad("pinned-key-replaced", "the remembered identity of X changed from #%d to #%d without automatic trust" % (pin, T[0]), at)
                elif autotrust and T[0] != pin:
                    if T[0] != len(ids) - 1 and T[0] < pin:
                        ok = bad("autotrust-went-backwards", "automatic trust replaced identity #%d by the older #%d" % (pin, T[0]), at)
                    acc.count("autotrust_replacements")
                    pin = T[0]
            errs = [e for c in W.clients.values() for e in c.errors]
            if errs:
                e = errs[0]
                ok = bad("exception:%s:%s" % (e["type"], e["where"]), "%s escaped during %s: %s" % (e["type"], e["what"], e["msg"]), at)
                for c in W.clients.values():
                    del c.errors[:]
            if not ok:
                break
        # ---- deliveries ------------------------------------------------------------------------
        if ok:
            for m in sent:
                involves_ax = {m["sender"], m["target"].split("@")[0]} == {A, X} or (m["target"] == G and m["sender"] in (A, X))
                if not involves_ax:
                    continue
                stale = m["pin"] is not None and m["xid"] != m["pin"]     # sent while A's pin differs from X's identity
                recips = [X] if (m["sender"] == A and m["target"] != G) else [A] if (m["sender"] == X and m["target"] != G) else [p for p in phones if p != m["sender"] and p in (A, X)]
                for p in recips:
                    n_del = delivered(m["mk"], p)
                    if not autotrust and stale:
                        direction = "outgoing" if m["sender"] == A else "incoming"
                        if n_del:
                            ok = bad("message-accepted-despite-changed-identity:%s" % direction,
                                     "a message %s X's new identity was delivered although A pins the old one" % ("encrypted for" if direction == "outgoing" else "from"), (len(events), "end"))
                        else:
                            acc.count("refusals_" + direction)
                    elif n_del > 1:
                        ok = bad("delivered-twice", "message delivered %d times to %s" % (n_del, p), (len(events), "end"))
            if autotrust and changed_after_pin:
                # messaging resumes: the last message of each direction sent after the last change arrived
                last_change = len(ids) - 1
                for direction, snd, rcp in (("a>x", A, X), ("x>a", X, A)):
                    cand = [m for m in sent if m["sender"] == snd and m["target"] == "%s@s.whatsapp.net" % rcp and m["xid"] == last_change]
                    if cand and not delivered(cand[-1]["mk"], rcp):
                        ok = bad("autotrust-no-resume:%s" % direction, "with automatic trust on, the last %s message after the identity change never arrived" % direction, (len(events), "end"))
                    elif cand:
                        acc.count("resumed_" + direction.replace(">", "_to_"))
    except NoQuiescence:
        acc.count("histories_without_quiescence")
        acc.inconc("%s: the accounts never became quiet again (an endless exchange of stanzas) after events %s" % (tag, events[:12]))
        W.close()
        return
    except Exception:
        import traceback
        acc.inconc("%s: harness crashed: %s" % (tag, traceback.format_exc()[-800:]))
        W.close()
        return
    acc.count("histories")
    from vf.evidence import h
    acc.case(h([events, autotrust, three]), nontrivial=changed_after_pin)
    if ok:
        acc.count("history_ok")
    W.close()
    return w


def shards(tier, seed, nworkers):
    q = tier == "quick"
    nsh = 6 if q else nworkers
    return [{"kind": "histories", "shard": i, "n": (240 if q else 20000) // nsh} for i in range(nsh)]


def run(spec, acc):
    from vf import env
    env.shim_thirdparty()
    for i in range(spec["n"]):
        tag = "h/%d/%d" % (spec["shard"], i)
        w = one_history(acc, spec["seed"], tag)
        if i < 2 and w:
            acc.sample(w)


def replay(spec, acc):
    from vf import env
    env.shim_thirdparty()
    one_history(acc, spec["seed"], spec["witness"]["tag"])
