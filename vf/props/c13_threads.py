"""C13, whole clients with several threads: crash copies of the key store taken while the application's sender threads and the
network thread work on it.

The single-threaded crash children of c13.crash_case kill one store operation at each of its boundaries. What they cannot
show is a crash while TWO threads are at work: all tables of a profile share one SQLite connection, hence one transaction,
and a commit issued by one thread makes whatever another thread has written so far durable on its own (the DELETE half of a
delete+insert replacement, for instance). Here whole clients run in the scheduler world with sends from application threads;
the connection of every key store is watched from a stand-in for the `sqlite3` module inside liteaxolotlstore:

* after every commit, after a sample of statements, and above all after every commit that happened while ANOTHER thread had
  uncommitted statements outstanding on the same connection, the database files (database + rollback journal) are copied as a
  kill at that instant would leave them, the copy is opened with the real sqlite3 (which rolls a hot journal back) and the
  session / identity rows found are compared with those of every earlier copy: a row that was durable once must be in every
  later copy (nothing in these histories deletes a session or an identity);
* race placement: a sender thread that has just executed the DELETE of a replacement is held there until the network thread
  has been handed the confirmation of a key upload (kept back by the server double until then), so that the two meet inside
  the window on every tree; on the unchanged tree the network thread then waits for the manager's lock.
"""
import os
import shutil
import threading
import time
import types

from vf import gen

ID = "C13"
WATCHED = ("sessions", "identities")


class Watch(object):
    def __init__(self, acc, r, w, scratch):
        self.acc, self.r, self.w, self.scratch = acc, r, w, scratch
        self.lock = threading.RLock()
        self.outstanding = {}      # db path -> {thread ident: [statement heads]}
        self.durable = {}          # db path -> {table: set(keys)}
        self.first_seen = {}       # (path, table, key) -> snapshot number
        self.nsnap = 0
        self.holding = threading.Event()        # a sender thread is held right after a watched DELETE
        self.release = threading.Event()        # ... until this is set (or the time is up)
        self.holds_left = 0
        self.hold_seconds = 5.0
        self.p_stmt = 0.3
        self.violations = []
        self.main = threading.main_thread()

    # -- crash copy ------------------------------------------------------------------------
    def crash_copy(self, path, why, stmt=None):
        """Called with self.lock held: nobody else is inside a statement of a watched connection."""
        import sqlite3 as real
        self.nsnap += 1
        dst = os.path.join(self.scratch, "copy.db")
        for s in ("", "-journal", "-wal", "-shm"):
            if os.path.exists(dst + s):
                os.remove(dst + s)
        shutil.copyfile(path, dst)
        for s in ("-journal", "-wal", "-shm"):
            if os.path.exists(path + s):
                shutil.copyfile(path + s, dst + s)
                self.acc.count("threads_crash_copies_with" + s)
        self.acc.count("threads_crash_copies")
        self.acc.count("threads_crash_copy:" + why)
        try:
            con = real.connect(dst)
            have = set(x[0] for x in con.execute("SELECT name FROM sqlite_master WHERE type='table'").fetchall())
            # (a table that has not been created yet, while the store is being opened for the first time, has no rows)
            found = {"sessions": set(con.execute("SELECT recipient_id, device_id FROM sessions").fetchall()) if "sessions" in have else set(),
                     "identities": set(con.execute("SELECT recipient_id FROM identities").fetchall()) if "identities" in have else set()}
            con.close()
        except Exception as e:  # noqa
            self.violations.append(("crash-reopen-raises:threads:%s" % type(e).__name__,
                                    "the copy of %s taken %s cannot be opened / read: %r" % (os.path.basename(os.path.dirname(path)), why, e), {"why": why, "stmt": stmt}))
            return
        dur = self.durable.setdefault(path, {t: set() for t in WATCHED})
        for t in WATCHED:
            lost = dur[t] - found[t]
            self.acc.count("threads_rows_checked", len(dur[t]))
            if lost:
                k = sorted(lost)[0]
                self.violations.append(("crash-record-lost:threads:%s" % t,
                                        "a kill %s would leave the %s row %r missing; it was in the database of %s as a kill would have left it %d copies earlier (thread %s%s)"
                                        % (why, t, k, os.path.basename(os.path.dirname(path)), self.nsnap - self.first_seen[(path, t, k)],
                                           threading.current_thread().name, ", after %s" % stmt if stmt else ""), {"why": why, "stmt": stmt, "table": t}))
                dur[t] -= lost         # reported once
            for k in found[t] - dur[t]:
                self.first_seen[(path, t, k)] = self.nsnap
            dur[t] |= found[t]

    # -- the stand-in module ---------------------------------------------------------------
    def module(self):
        import sqlite3
        watch = self

        def head(sql):
            p = sql.lstrip().split()
            verb = p[0].upper() if p else ""
            table = ""
            up = [x.upper() for x in p]
            for kw in ("FROM", "INTO", "UPDATE"):
                if kw in up and up.index(kw) + 1 < len(p):
                    table = p[up.index(kw) + 1].split("(")[0]
                    break
            return verb, table

        class WCursor(sqlite3.Cursor):
            def execute(self, sql, *a):
                verb, table = head(sql)
                dml = verb in ("INSERT", "UPDATE", "DELETE", "REPLACE")
                if not dml:
                    return sqlite3.Cursor.execute(self, sql, *a)
                path = self.connection._vpath
                me = threading.current_thread()
                with watch.lock:
                    res = sqlite3.Cursor.execute(self, sql, *a)
                    watch.outstanding.setdefault(path, {}).setdefault(me.ident, []).append("%s %s" % (verb, table))
                    watch.acc.count("threads_statements")
                    if watch.r.random() < watch.p_stmt:
                        watch.crash_copy(path, "after a statement", "%s %s" % (verb, table))
                if verb == "DELETE" and table in WATCHED and me is not watch.main and watch.holds_left > 0:
                    watch.holds_left -= 1
                    watch.acc.count("threads_holds_after_delete")
                    watch.release.clear()
                    watch.holding.set()
                    if watch.release.wait(watch.hold_seconds):
                        watch.acc.count("threads_holds_released_by_network_thread")
                    else:
                        watch.acc.count("threads_holds_timed_out")
                    watch.holding.clear()
                return res

        class WConn(sqlite3.Connection):
            def cursor(self, factory=WCursor):
                return sqlite3.Connection.cursor(self, factory)

            def execute(self, sql, *a):
                return self.cursor().execute(sql, *a)

            def commit(self):
                path = self._vpath
                me = threading.current_thread().ident
                with watch.lock:
                    out = watch.outstanding.get(path, {})
                    foreign = sorted(s for t, ss in out.items() if t != me for s in ss)
                    sqlite3.Connection.commit(self)
                    watch.outstanding[path] = {}
                    watch.acc.count("threads_commits")
                    if foreign:
                        # this commit has just made another thread's half-done work durable: what would a kill leave now?
                        watch.acc.count("threads_foreign_commits")
                        watch.crash_copy(path, "after a commit by one thread while another thread's %s was not finished" % ", ".join(foreign[:3]))
                    else:
                        watch.crash_copy(path, "after a commit")

        def connect(*a, **kw):
            kw["factory"] = WConn
            con = sqlite3.connect(*a, **kw)
            con._vpath = a[0] if a else kw.get("database")
            watch.acc.count("threads_connections_watched")
            return con
        shim = types.SimpleNamespace(**{k: getattr(sqlite3, k) for k in dir(sqlite3) if not k.startswith("__")})
        shim.connect = connect
        return shim


def stack_threads_case(acc, seed, tag):
    import yowsup.axolotl.store.sqlite.liteaxolotlstore as las
    from yowsup.layers.axolotl.layer_control import AxolotlControlLayer
    from yowsup.layers.protocol_messages.protocolentities import TextMessageProtocolEntity
    from vf import world, inject, env
    import random as _random
    import tempfile
    r = gen.rng(seed, ID, tag)
    w = {"kind": "stack-threads", "tag": tag}
    os.makedirs(os.path.join(env.SCRATCH, "c13"), exist_ok=True)
    scratch = tempfile.mkdtemp(prefix="c13t_", dir=os.path.join(env.SCRATCH, "c13"))
    watch = Watch(acc, gen.rng(seed, ID, tag + "/copies"), w, scratch)
    watch.p_stmt = r.choice([0.1, 0.3, 0.6])
    real_sqlite = las.sqlite3
    las.sqlite3 = watch.module()
    # the network thread being handed a confirmed key upload is what the held sender waits for
    real_flushed = AxolotlControlLayer.on_keys_flushed
    entered = {"n": 0, "during_hold": 0}

    def on_keys_flushed(self_, *a, **kw):
        entered["n"] += 1
        if watch.holding.is_set():
            entered["during_hold"] += 1
            # the sender goes on a moment after the confirmation has started to be processed (it may be waiting for the
            # manager's lock by then, or it may be writing)
            tm = threading.Timer(r_grace, watch.release.set)
            tm.daemon = True
            tm.start()
        return real_flushed(self_, *a, **kw)
    r_grace = r.choice([0.05, 0.12, 0.25])
    AxolotlControlLayer.on_keys_flushed = on_keys_flushed
    W = None
    yi = None
    try:
        nacc = r.choice([2, 2, 3])
        phones = ["49%d%s" % (i + 1, gen.s_from(r, gen.DIGITS, 8)) for i in range(nacc)]
        W = world.World(seed=r.randrange(1 << 30), strategy=r.choice(["uniform", "app-first", "newest"]), batch=r.choice([6, 10, 20]))
        for p in phones:
            W.add_client(p)
        group = None
        if nacc >= 3 or r.random() < 0.4:
            members = phones[:]
            group = "%s-%d@g.us" % (members[0], 1500000000)
            W.server.groups[group] = {"participants": ["%s@s.whatsapp.net" % p for p in members], "subject": "G", "creator": "%s@s.whatsapp.net" % members[0]}
        uid = [0]

        def send(who, to):
            uid[0] += 1
            text = "T%d %s" % (uid[0], gen.unicode_text(r, 0, 10))
            return {"op": "send", "who": who, "kind": "text", "uid": uid[0], "build": (lambda text=text, to=to: TextMessageProtocolEntity(text, to=to))}

        def run_actions(actions):
            W.script = list(W.script[:W.script_pos]) + actions
            return W.run(max_steps=W.steps + 20000)

        def jid(p):
            return "%s@s.whatsapp.net" % p
        # logins, then every pair talks once in each direction so that later sends REPLACE existing sessions
        acts = [{"op": "connect", "who": p} for p in phones] + [{"op": "wait-quiet"}]
        for a_ in phones:
            for b_ in phones:
                if a_ != b_:
                    acts.append(send(a_, jid(b_)))
                    acts.append({"op": "wait-quiet"})
        if not run_actions(acts):
            acc.inconc("%s: world not quiet after the opening conversation" % tag)
            return
        if any(not W.clients[p].ready() for p in phones):
            acc.inconc("%s: an account did not log in" % tag)
            return
        W.threaded_sends = True
        if r.random() < 0.6:
            yi = inject.YieldInjector(_random.Random(r.randrange(1 << 30)), ("yowsup/axolotl/store/sqlite/litesessionstore.py", "yowsup/axolotl/store/sqlite/liteaxolotlstore.py",
                                      "yowsup/axolotl/store/sqlite/liteidentitykeystore.py", "yowsup/axolotl/store/sqlite/liteprekeystore.py", "yowsup/axolotl/manager.py",
                                      "yowsup/layers/axolotl/layer_control.py", "yowsup/layers/axolotl/layer_send.py"), p=r.choice([0.05, 0.2]))
            yi.__enter__()
            acc.count("threads_histories_with_yield_injection")
        rounds = r.randint(2, 4)
        events = []
        for k in range(rounds):
            X = r.choice(phones)
            Y = r.choice([p for p in phones if p != X])
            placed = r.random() < 0.75
            ev = {"uploader": X, "to": Y, "placed": placed}
            events.append(ev)
            if placed:
                # a key upload of X is on its way, its confirmation is kept back by the server; X's application sends (a session
                # replacement: DELETE + INSERT); with the sender right after the DELETE the confirmation is delivered
                W.server.delay_upload_reply.add(X)
                W.server.ask_for_keys(X, r.choice([0, 1, 3]))
                run_actions([])
                W.server.delay_upload_reply.discard(X)
                if not W.server.delayed_results.get(X):
                    acc.count("threads_no_upload_to_hold")
                    continue
                watch.holds_left = 1
                watch.holding.clear()
                before = entered["during_hold"]

                def deliver(W_, X=X):
                    if watch.holding.wait(8.0):
                        acc.count("threads_confirmations_released_into_hold")
                    else:
                        acc.count("threads_sender_never_reached_delete")
                    W_.server.release_upload_replies(X)
                burst = [send(X, jid(Y))]
                if group and r.random() < 0.4:
                    burst.append(send(X, group))
                run_actions(burst[:1] + [{"op": "call", "fn": deliver}] + burst[1:] + [{"op": "wait-quiet"}])
                watch.holds_left = 0
                watch.release.set()
                if entered["during_hold"] > before:
                    acc.count("threads_confirmation_met_half_done_replacement")
                    ev["met"] = True
            else:
                # unplaced: uploads, sends of several accounts and replies interleave as the scheduler and the threads like
                burst = []
                for _ in range(r.randint(2, 5)):
                    s_ = r.choice(phones)
                    burst.append(send(s_, group if (group and r.random() < 0.3) else jid(r.choice([p for p in phones if p != s_]))))
                W.server.ask_for_keys(X, r.choice([0, 1, 3]))
                run_actions(burst + [{"op": "wait-quiet"}])
            if not W.join_senders():
                acc.inconc("%s: a sender thread did not come back" % tag)
                return
        if yi:
            yi.__exit__(None, None, None)
            acc.count("threads_yields", yi.yields)
            yi = None
        w["events"] = events
        acc.count("threads_histories")
        acc.count("threads_key_uploads_confirmed", entered["n"])
        from vf.evidence import h
        acc.case(h(["stack-threads", tag, events, watch.nsnap]), nontrivial=watch.nsnap > 10)
        # the final state, closed and reopened, still has every row that was ever durable
        for p in phones:
            path = [q for q in watch.durable if ("_%s" % p) in q]
            for q in path:
                with watch.lock:
                    watch.crash_copy(q, "at the end of the history")
        seen = set()
        for key, what, extra in watch.violations:
            if key in seen:
                continue
            seen.add(key)
            acc.violation(key, what, dict(w, **extra))
        errs = [e for c in W.clients.values() for e in c.errors]
        if errs:
            acc.count("threads_histories_with_exceptions")
    except Exception as e:  # noqa: harness-level failure
        import traceback
        acc.inconc("%s: harness failure: %s" % (tag, traceback.format_exc()[-500:]))
    finally:
        watch.holds_left = 0
        watch.release.set()
        if yi:
            yi.__exit__(None, None, None)
        AxolotlControlLayer.on_keys_flushed = real_flushed
        las.sqlite3 = real_sqlite
        if W is not None:
            try:
                W.join_senders(5.0)
                W.close()
            except Exception:  # noqa
                pass
        shutil.rmtree(scratch, ignore_errors=True)
    return w
