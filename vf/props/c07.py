"""C07 — mandatory acknowledgements are sent exactly once and match the stanza."""
from vf import gen, treeeq, stackkit

ID = "C07"
LEVEL = "exploration"
RULE = ("one evaluation = one injected stanza into a full protocol stack (bottom probe, axolotl control, axolotl send/"
        "receive, protocol group for one of the 16 module selections, top probe): notifications of every type (picture set/"
        "delete, status, contacts add/remove/update/sync, group create/add/remove/subject, encrypt count/identity, unknown "
        "types), calls of every kind, server pings, and plaintext-proto messages whose payload the library cannot present "
        "(revoke, empty payload, unknown media type, media-typed without media type, supported media while the media module is "
        "left out), with generated ids/JIDs/participants. The stanzas sent down in response are filtered by tag and compared "
        "with the required answer (exactly one ack / receipt / pong with matching id, class/type, to, participant, call id). "
        "Distinct by (kind, selection, participant present/absent, draw)")
ASSUMPTIONS = ["a picture notification that is neither set nor delete is rejected by design and not generated",
               "the key upload that an encrypt-count notification triggers is not answered here; only acknowledgements are counted",
               "kinds x selections are enumerated completely, values are sampled"]
REQUIRED = ["shape:unknown-attribute", "shape:unknown-child-appended", "redelivered_at_once", "redelivered_later", "injected", "answers_ok", "kind:notification", "kind:call", "kind:ping", "kind:message", "selections", "with_participant", "unknown_types"]
TIMEOUT = {"quick": 600, "thorough": 7200}

S = "s.whatsapp.net"


def notif(r, typ, kids, group=False, with_participant=None):
    a = {"id": gen.msgid(r), "type": typ, "t": str(r.randint(1, 2 ** 31 - 1)), "from": gen.jid(r, group) if typ != "encrypt" else S, "notify": "N", "offline": "0"}
    if with_participant or (with_participant is None and group):
        a["participant"] = gen.jid(r)
    return ("notification", a, kids, None)


def part(r):
    return ("participant", {"jid": gen.jid(r)}, [], None)


def notification_kinds():
    J = gen.jid
    return {
        "picture-set": lambda r, p: notif(r, "picture", [("set", {"jid": J(r), "id": gen.msgid(r)}, [], None)], with_participant=p),
        "picture-delete": lambda r, p: notif(r, "picture", [("delete", {"jid": J(r)}, [], None)], with_participant=p),
        # (a cleared status has no body at all; the codec hands an empty body up as None too)
        "status": lambda r, p: notif(r, "status", [("set", {}, [], r.choice([gen.blob(r, 8), gen.blob(r, 1), gen.unicode_text(r, 1, 30).encode("utf-8"), gen.blob(r, 300), None, b""]))], with_participant=p),
        "contacts-add": lambda r, p: notif(r, "contacts", [("add", {"jid": J(r)}, [], None)], with_participant=p),
        "contacts-remove": lambda r, p: notif(r, "contacts", [("remove", {"jid": J(r)}, [], None)], with_participant=p),
        "contacts-update": lambda r, p: notif(r, "contacts", [("update", {"jid": J(r)}, [], None)], with_participant=p),
        "contacts-sync": lambda r, p: notif(r, "contacts", [("sync", {"after": "1437251557"}, [], None)], with_participant=p),
        "group-create": lambda r, p: notif(r, "w:gp2", [("create", {"type": "new", "key": "k@temp"}, [("group", {"id": "1-2", "creator": J(r), "creation": "1", "subject": "s", "s_t": "2", "s_o": J(r)}, [part(r)], None)], None)], group=True, with_participant=True),
        "group-add": lambda r, p: notif(r, "w:gp2", [("add", {}, [part(r)], None)], group=True, with_participant=True),
        "group-remove": lambda r, p: notif(r, "w:gp2", [("remove", {"subject": "s"}, [part(r)], None)], group=True, with_participant=True),
        "group-subject": lambda r, p: notif(r, "w:gp2", [("subject", {"s_t": "3", "s_o": J(r), "subject": "new"}, [], None)], group=True, with_participant=True),
        "encrypt-count": lambda r, p: notif(r, "encrypt", [("count", {"value": str(r.choice([0, 1, r.randint(0, 9), 9, 10, 11, r.randint(10, 99), 100, 811, 812, r.randint(100, 5000)]))}, [], None)], with_participant=False),
        "encrypt-identity": lambda r, p: notif(r, "encrypt", [("identity", {}, [], None)], with_participant=False),
        "encrypt-other": lambda r, p: notif(r, "encrypt", r.choice([[("digest", {}, [], None)], [], [("whatever", {"x": "1"}, [], None)]]), with_participant=False),
        "unknown-type": lambda r, p: notif(r, r.choice(["web", "psa", "server_sync", "mediaretry", "x-" + gen.s_from(r, "abcdef", 4)]), [("whatever", {}, [], None)] if r.random() < 0.6 else [], with_participant=p),
        "unknown-subject-type": lambda r, p: notif(r, "subject", [], with_participant=p),
    }


def call_stanza(r, kind):
    a = {"id": gen.msgid(r), "from": gen.jid(r), "t": str(r.randint(1, 2 ** 31 - 1)), "notify": "N", "offline": "0"}
    kids = []
    if kind != "none":
        kids = [(kind, {"call-id": gen.msgid(r), "call-creator": a["from"]}, [], None)]
    return ("call", a, kids, None)


def message_stanza(r, kind):
    from yowsup.layers.protocol_messages.proto.e2e_pb2 import Message
    from yowsup.layers.protocol_messages.proto.protocol_pb2 import MessageKey
    a = {"id": gen.msgid(r), "from": gen.jid(r), "t": str(r.randint(1, 2 ** 31 - 1)), "notify": "N", "offline": "0", "type": "text"}
    if r.random() < 0.4:
        # (a sender inside a group - classic id with a dash or a newer one without -, a broadcast list or the status list)
        a["from"] = r.choice([gen.jid(r, True), gen.jid(r, True), "1203630%s@g.us" % gen.s_from(r, gen.DIGITS, 11), "%s@broadcast" % gen.s_from(r, gen.DIGITS, 10), "status@broadcast"])
        a["participant"] = gen.jid(r)
    m = Message()
    pattrs = {}
    if kind == "revoke":
        m.protocol_message.key.remote_jid = gen.jid(r)
        m.protocol_message.key.from_me = True
        m.protocol_message.key.id = gen.msgid(r)
        if r.random() < 0.5:
            m.protocol_message.type = 0        # (REVOKE is the default of this optional field: a sender may leave it off the wire)
    elif kind == "empty-payload":
        pass
    elif kind == "unknown-mediatype":
        a["type"] = "media"
        pattrs["mediatype"] = r.choice(["vcard-multi", "product", "livelocation", "x" + gen.s_from(r, "abc", 3)])
        m.image_message.url = "https://x.example/i"
        m.image_message.mimetype = "image/jpeg"
    elif kind == "media-without-mediatype":
        a["type"] = "media"
        m.image_message.url = "https://x.example/i"
        m.image_message.mimetype = "image/jpeg"
        m.image_message.file_sha256 = b"\x01" * 32
        m.image_message.file_length = 10
        m.image_message.width = 1
        m.image_message.height = 1
    elif kind == "supported-media-module-off":
        a["type"] = "media"
        pattrs["mediatype"] = "image"
        m.image_message.url = "https://x.example/i"
        m.image_message.mimetype = "image/jpeg"
        m.image_message.file_sha256 = b"\x01" * 32
        m.image_message.file_length = 10
        m.image_message.width = 1
        m.image_message.height = 1
    data = m.SerializeToString()
    return ("message", a, [("proto", pattrs, [], data)], None)


def answers(kit, tags):
    return [treeeq.to_tuple(n) for n in kit.bottom.sent if getattr(n, "tag", None) in tags]


_RING = []


def judge(acc, kit, name, stanza, want, w, redelivery=None):
    """want: dict(tag=..., n=1, attrs={...required attrs...}, absent=[attrs that must not be there], child=(tag, attrs)|None)"""
    if redelivery is None:
        _judge(acc, kit, name, stanza, want, w)
        # The server delivers a stanza again when it has not seen the answer (lost with a connection, say): the second delivery
        # is answered like the first. Every 5th stanza comes again at once, and one from a while ago (2, 9 or 70 stanzas back)
        # comes again every 7th time.
        _RING.append((kit, name, stanza, want, w))
        del _RING[:-80]
        n = acc.counters.get("injected", 0)
        if n % 5 == 0:
            acc.count("redelivered_at_once")
            _judge(acc, kit, name, stanza, want, dict(w, redelivered="at once"))
        if n % 7 == 0:
            back = [2, 9, 70][(n // 7) % 3]
            if len(_RING) > back and _RING[-1 - back][0] is kit:
                k2, n2, s2, w2, ww2 = _RING[-1 - back]
                acc.count("redelivered_later")
                _judge(acc, kit, n2, s2, w2, dict(ww2, redelivered="%d stanzas later" % back))
        return
    _judge(acc, kit, name, stanza, want, w)


def _tolerant_shape(acc, stanza, n):
    """Every 9th stanza carries something this version of the library does not know: an extra attribute on the stanza, and / or an
    extra child after the known ones (what a newer server adds). It is acknowledged like any other."""
    if n % 9 != 0:
        return stanza
    tag, attrs, kids, data = stanza
    how = (n // 9) % 3
    if how in (0, 2):
        attrs = dict(attrs, **{"verif-new-attr": "1"})
        acc.count("shape:unknown-attribute")
    if how in (1, 2) and data is None:
        if tag == "notification" and (n // 27) % 2 == 0:
            # (notifications are the extensible part of the protocol: their handlers look children up by name)
            kids = [("verif-new-child", {"k": "v"}, [], None)] + list(kids)
            acc.count("shape:unknown-child-first")
        else:
            kids = list(kids) + [("verif-new-child", {"k": "v"}, [], None)]
            acc.count("shape:unknown-child-appended")
    return (tag, attrs, kids, data)


def _judge(acc, kit, name, stanza, want, w):
    acc.count("injected")
    stanza = _tolerant_shape(acc, stanza, acc.counters.get("injected", 0))
    kit.clear()
    try:
        kit.inject(stanza)
    except Exception as e:  # noqa
        acc.violation("raises:%s:%s" % (name, type(e).__name__), "an incoming %s raised %r instead of being acknowledged" % (name, e), w)
        return
    tags = want["tags"]
    got = answers(kit, tags)
    got = [g for g in got if want.get("filter", lambda g: True)(g)]
    if len(got) != 1:
        acc.violation("answers:%s:%d" % (name, min(len(got), 2)), "an incoming %s%s was answered %d times (expected exactly one %s): %s"
                      % (name, " (delivered again %s)" % w["redelivered"] if w.get("redelivered") else "", len(got), "/".join(tags), [treeeq.describe(g, 3) for g in got][:3]), w)
        return
    g = got[0]
    if g[0] != want["tag"]:
        acc.violation("answer-kind:%s:%s" % (name, g[0]), "an incoming %s was answered with a %s, expected a %s" % (name, g[0], want["tag"]), w)
        return
    for k, v in want["attrs"].items():
        if g[1].get(k) != v:
            acc.violation("answer-attr:%s:%s" % (name, k), "the %s for %s carries %s=%r, expected %r" % (g[0], name, k, g[1].get(k), v), w)
            return
    for k in want.get("absent", []):
        if k in g[1]:
            acc.violation("answer-attr-spurious:%s:%s" % (name, k), "the %s for %s carries a spurious %s=%r" % (g[0], name, k, g[1][k]), w)
            return
    if want.get("child"):
        ctag, cattrs = want["child"]
        c = [x for x in g[2] if x[0] == ctag]
        if len(c) != 1 or any(c[0][1].get(k) != v for k, v in cattrs.items()):
            acc.violation("answer-child:%s:%s" % (name, ctag), "the %s for %s lacks <%s %s>" % (g[0], name, ctag, cattrs), w)
            return
    acc.count("answers_ok")


def shards(tier, seed, nworkers):
    q = tier == "quick"
    nsh = 8 if q else nworkers
    cells = list(range(16))
    return [{"kind": "cells", "cells": cells[k::nsh], "draws": 40 if q else 1500} for k in range(nsh) if cells[k::nsh]]


def run(spec, acc):
    from vf import env
    env.shim_thirdparty()
    seed = spec["seed"]
    sels = list(stackkit.selections())
    nk = notification_kinds()
    from yowsup.axolotl.manager import AxolotlManager
    AxolotlManager.COUNT_GEN_PREKEYS = 2     # an encrypt-count notification makes the library generate a batch of keys
    for si in spec["cells"]:
        sel = sels[si]
        sname = stackkit.sel_name(sel)
        acc.count("selections")
        kit = stackkit.Kit(sel, True)
        for name in sorted(nk):
            for k in range(spec["draws"]):
                for p in (False, True):
                    r = gen.rng(seed, ID, "n/%s/%d/%s" % (name, k, p))
                    st = nk[name](r, p)
                    a = st[1]
                    acc.count("kind:notification")
                    if "participant" in a:
                        acc.count("with_participant")
                    if name.startswith("unknown"):
                        acc.count("unknown_types")
                    acc.case(["n", name, sname, "participant" in a, k], nontrivial=True)
                    want = {"tags": ["ack"], "tag": "ack", "attrs": {"id": a["id"], "class": "notification", "type": a["type"], "to": a["from"]},
                            "filter": lambda g, i=a["id"]: g[1].get("id") == i or g[1].get("class") == "notification"}
                    if "participant" in a:
                        want["attrs"]["participant"] = a["participant"]
                    else:
                        want["absent"] = ["participant"]
                    judge(acc, kit, "notification:" + name, st, want, {"kind": "notification:" + name, "selection": sname, "stanza": treeeq.describe(st, 4)})
        for ck in ("offer", "transport", "relaylatency", "reject", "terminate", "none"):
            for k in range(spec["draws"]):
                r = gen.rng(seed, ID, "c/%s/%d" % (ck, k))
                st = call_stanza(r, ck)
                a = st[1]
                acc.count("kind:call")
                acc.case(["c", ck, sname, k], nontrivial=True)
                if ck == "offer":
                    want = {"tags": ["ack", "receipt"], "tag": "receipt", "attrs": {"id": a["id"], "to": a["from"]}, "child": ("offer", {"call-id": st[2][0][1]["call-id"]})}
                else:
                    want = {"tags": ["ack", "receipt"], "tag": "ack", "attrs": {"id": a["id"], "class": "call", "to": a["from"]}}
                judge(acc, kit, "call:" + ck, st, want, {"kind": "call:" + ck, "selection": sname, "stanza": treeeq.describe(st, 4)})
        for k in range(spec["draws"] * 2):
            r = gen.rng(seed, ID, "p/%d" % k)
            pid = r.choice([gen.msgid(r), str(r.randint(1, 10 ** 9)), "%d-ping" % r.randint(1, 10 ** 10)])
            st = ("iq", {"id": pid, "type": "get", "xmlns": "urn:xmpp:ping", "from": S}, [], None)
            acc.count("kind:ping")
            acc.case(["p", sname, k], nontrivial=True)
            judge(acc, kit, "ping", st, {"tags": ["iq"], "tag": "iq", "attrs": {"id": pid, "type": "result"}}, {"kind": "ping", "selection": sname, "stanza": treeeq.describe(st)})
        mkinds = ["revoke", "empty-payload", "unknown-mediatype", "media-without-mediatype"]
        if not sel["media"]:
            mkinds.append("supported-media-module-off")
        for mk in mkinds:
            for k in range(spec["draws"]):
                r = gen.rng(seed, ID, "m/%s/%d" % (mk, k))
                st = message_stanza(r, mk)
                a = st[1]
                acc.count("kind:message")
                acc.case(["m", mk, sname, "participant" in a, k], nontrivial=True)
                want = {"tags": ["receipt", "ack"], "tag": "receipt", "attrs": {"id": a["id"], "to": a["from"]}}
                if "participant" in a:
                    want["attrs"]["participant"] = a["participant"]
                else:
                    want["absent"] = ["participant"]
                key = "message:%s%s" % (mk, "" if sel["media"] or mk == "supported-media-module-off" else ":media-off")
                judge(acc, kit, key, st, want, {"kind": "message:" + mk, "selection": sname, "stanza": treeeq.describe(st, 4)})
    acc.sample({"selections": [stackkit.sel_name(sels[i]) for i in spec["cells"]], "notification_kinds": sorted(nk)})


def replay(spec, acc):
    from vf import env
    env.shim_thirdparty()
    run({"seed": spec["seed"], "cells": list(range(16)), "draws": 2}, acc)
