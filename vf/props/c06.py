"""C06 — exactly-once routing of stanzas and entities through the assembled stack."""
from vf import gen, treeeq, catalogue, stackkit

ID = "C06"
LEVEL = "exploration"
RULE = ("one evaluation = one (kind, module selection, with/without encryption layers, draw): a stack assembled from the "
        "library's own protocol layers (YowStackBuilder.getProtocolLayers for each of the 16 on/off selections of groups/media/"
        "privacy/profiles; optionally the axolotl control/send/receive layers below) sits between recording probes. Outgoing: "
        "every sendable entity kind is sent from the top; the probe directly below the protocol group must see exactly one "
        "stanza, strictly equal to the entity's own serialisation, when the package defining the entity is in the selection, "
        "and nothing (and no exception) when it is not. Incoming: every server-initiated stanza kind (documented shapes with "
        "generated values) is injected at the bottom; exactly one entity of the documented class, re-serialising to the "
        "stanza, must reach the top when its module is selected, none otherwise. All cases of one stack run interleaved in a "
        "seeded random order over that one stack (routing must not depend on earlier traffic); a reach monitor requires an "
        "outgoing kind for every (layer, tag) send handler found in the assembled stack. Distinct by (kind, selection, wiring, draw)")
ASSUMPTIONS = ["ownership of a kind = the package that defines its entity class (never the layers' own guards)",
               "iq results/errors are exercised through C08's request/reply path; encryption-specific stanzas through C03",
               "with the encryption layers present outgoing messages are judged at the probe below the protocol group"]
REQUIRED = ["outgoing_cases", "incoming_cases", "expected_one_observed_one", "expected_zero_observed_zero", "selections", "kinds_outgoing", "kinds_incoming",
            "unserved_retry_receipts", "unserved_retry_receipts_ok", "incoming_newer_shape", "incoming_newer_shape_ok", "encrypted_incoming", "encrypted_incoming_ok", "encrypted_incoming:first-message", "encrypted_incoming:later-message", "encrypted_incoming:group-with-distribution", "encrypted_incoming:group-sender-key-only", "encrypted_incoming:group-pairwise-only", "encrypted_incoming:group-media-with-distribution", "with_enc", "without_enc", "send_handlers_seen", "direction_switches", "reply_inside_send_cases", "reply_cases", "reply_one_entity", "reply_with_others_outstanding", "reply:error", "reply:result"]
TIMEOUT = {"quick": 600, "thorough": 7200}

INCOMING_FIXTURES = ["message_text", "message_media_contact", "message_media_downloadable_audio", "message_media_downloadable_image",
                     "message_media_downloadable_video", "message_media_extendedtext", "message_media_location", "receipt_incoming", "ack_incoming",
                     "presence", "chatstate_incoming", "notification_picture_set", "notification_picture_delete", "notification_status",
                     "notification_contact_add", "notification_contact_remove", "notification_contact_update", "call", "dirty_ib", "offline_iq",
                     "success", "failure"]
INCOMING_HAND = ["groups_add", "groups_remove", "groups_subject", "groups_create", "contacts_sync", "account_ib", "stream_error", "stream_features",
                 "sticker_message", "document_message", "receipt_list"]


def incoming_kinds():
    fx, errors = catalogue.fixtures()
    by = {n: (c, t) for n, c, t in fx}
    out = []
    for n in INCOMING_FIXTURES:
        if n in by:
            out.append((n, by[n][0], ("fixture", by[n][1])))
    for n in INCOMING_HAND:
        out.append((n, catalogue.hand_class(n), ("hand", catalogue.HAND[n][2])))
    return out


def outgoing_kinds():
    from vf.props import c09
    cat = c09.outgoing_catalogue()
    skip = {"keys-get", "keys-set", "retry-receipt-out", "enc-message-out", "request-upload", "pong"}
    out = {k: v for k, v in cat.items() if k not in skip}
    # every tag for which some protocol layer has a send handler needs a kind (see send_handler_reach): the notification
    # layer forwards outgoing <notification> entities
    from yowsup.layers.protocol_notifications.protocolentities import NotificationProtocolEntity
    out["notification-out"] = lambda r: NotificationProtocolEntity(r.choice(["picture", "status", "contacts"]), gen.msgid(r), gen.jid(r), gen.timestamp(r),
                                                                  gen.s_from(r, "abcdefghij klmnop", r.randint(1, 10)), r.choice(["0", "1"]))
    from yowsup.layers.protocol_calls.protocolentities import CallProtocolEntity
    out["call-out"] = lambda r: CallProtocolEntity(gen.msgid(r), r.choice(["offer", "terminate", None]), gen.timestamp(r), _to=gen.jid(r))
    return out


# send handlers that forward nothing carrying their own tag: the ib layer's handler only lets CleanIq (tag iq) through
SEND_HANDLER_EXEMPT = {"YowIbProtocolLayer:ib"}


def send_handler_reach(acc, kit, out_tags):
    """Reach monitor: every (layer, tag) with a send handler in the assembled stack must be exercised by an outgoing kind."""
    from vf import probes
    missing = []
    n = 0
    for l in probes.all_layers(kit.stack):
        hm = getattr(l, "handleMap", None)
        if not isinstance(hm, dict):
            continue
        for tag, pair in hm.items():
            if pair[1] is not None:
                n += 1
                if tag not in out_tags and "%s:%s" % (type(l).__name__, tag) not in SEND_HANDLER_EXEMPT:
                    missing.append("%s:%s" % (type(l).__name__, tag))
    acc.count("send_handlers_seen", n)
    return missing


# the repository's fixtures use placeholders for enumerations ("message_type", "notif_type"): routing needs the real literals
REAL = {
    "message_text": ({"type": "text"}, None),
    "message_media_contact": ({"type": "media"}, "contact"),
    "message_media_downloadable_audio": ({"type": "media"}, "audio"),
    "message_media_downloadable_image": ({"type": "media"}, "image"),
    "message_media_downloadable_video": ({"type": "media"}, "video"),
    "message_media_extendedtext": ({"type": "media"}, "url"),
    "message_media_location": ({"type": "media"}, "location"),
    "notification_picture_set": ({"type": "picture"}, None),
    "notification_picture_delete": ({"type": "picture"}, None),
    "notification_status": ({"type": "status"}, None),
    "notification_contact_add": ({"type": "contacts"}, None),
    "notification_contact_remove": ({"type": "contacts"}, None),
    "notification_contact_update": ({"type": "contacts"}, None),
}


def draw_incoming(r, src, name=None):
    kind, x = src
    if kind == "fixture":
        t = catalogue.mutate(r, x, {})
        if name in REAL:
            attrs, mediatype = REAL[name]
            tag, a, ch, d = t
            a = dict(a, **attrs)
            if "from" in a and "@" not in a["from"]:
                a["from"] = gen.jid(r)
            if mediatype:
                ch = [(c[0], dict(c[1], mediatype=mediatype), c[2], c[3]) if c[0] == "proto" else c for c in ch]
            t = (tag, a, ch, d)
        return t
    return x(r)


def check_outgoing(acc, kit, name, ent, sel, with_enc, w):
    from vf import probes
    cls = type(ent)
    owner = stackkit.owner_module(cls)
    expect = 1 if (owner is None or sel[owner]) else 0
    acc.count("outgoing_cases")
    kit.clear()
    try:
        want = treeeq.to_tuple(ent.toProtocolTreeNode())
    except Exception as e:  # noqa
        return   # C09's business
    try:
        kit.send(ent)
    except Exception as e:  # noqa
        acc.violation("outgoing-raises:%s:%s:%s" % (name, type(e).__name__, "present" if expect else "absent"),
                      "sending a %s entity raised %r (its module is %s)" % (name, e, "selected" if expect else "left out"), w)
        return
    seen = kit.mid.sent
    if len(seen) != expect:
        acc.violation("outgoing-count:%s:%d-for-%d" % (name, len(seen), expect), "a %s entity left the protocol layers %d times, expected %d (module %s %s)"
                      % (name, len(seen), expect, owner or "basic", "selected" if expect else "left out"), w)
        return
    if expect:
        d = treeeq.diff(want, seen[0])
        if d:
            acc.violation("outgoing-differs:%s" % name, "the stanza below the protocol group differs from the entity's serialisation: %s" % d, w)
            return
        acc.count("expected_one_observed_one")
    else:
        acc.count("expected_zero_observed_zero")
    acc.count("cell_out:%s" % name)


def check_incoming(acc, kit, name, cls, tree, sel, with_enc, w):
    owner = stackkit.owner_module(cls)
    expect = 1 if (owner is None or sel[owner]) else 0
    acc.count("incoming_cases")
    kit.clear()
    try:
        kit.inject(tree)
    except Exception as e:  # noqa
        acc.violation("incoming-raises:%s:%s:%s" % (name, type(e).__name__, "present" if expect else "absent"),
                      "an incoming %s stanza raised %r (its module is %s)" % (name, e, "selected" if expect else "left out"), w)
        return
    got = kit.top.received
    if len(got) != expect:
        acc.violation("incoming-count:%s:%d-for-%d" % (name, len(got), expect), "an incoming %s stanza produced %d entities at the top, expected %d (module %s %s)"
                      % (name, len(got), expect, owner or "basic", "selected" if expect else "left out"), w)
        return
    if expect:
        e = got[0]
        if type(e) is not cls:
            acc.violation("incoming-class:%s:%s" % (name, type(e).__name__), "the top received a %s for a %s stanza" % (type(e).__name__, cls.__name__), w)
            return
        from vf.props import c09
        ta, pa = c09.split_proto(tree)
        try:
            tb, pb = c09.split_proto(treeeq.to_tuple(e.toProtocolTreeNode()))
            # an application reads an entity as often as it likes: a second reading must give the same
            tb2, pb2 = c09.split_proto(treeeq.to_tuple(e.toProtocolTreeNode()))
        except Exception as ex:  # noqa
            acc.violation("incoming-entity-unserialisable:%s" % name, "delivered entity cannot be serialised: %r" % (ex,), w)
            return
        d2 = treeeq.diff(tb, tb2)
        if d2:
            acc.violation("incoming-entity-unstable:%s" % name, "reading the delivered entity a second time gives something else: %s" % d2, w)
            return
        d = treeeq.diff(ta, tb, by_value=True)
        if not d:
            for x, y in zip(pa, pb):
                d = c09.proto_diff(x, y)
                if d:
                    break
        if d:
            acc.violation("incoming-fields:%s" % name, "the delivered entity does not carry the stanza's fields: %s" % d, w)
            return
        acc.count("expected_one_observed_one")
    else:
        acc.count("expected_zero_observed_zero")
    acc.count("cell_in:%s" % name)
    # every 9th stanza comes once more with something this version of the library does not know (an extra attribute, an extra
    # child after the known ones: what a newer server adds): still exactly one entity of the same class
    n = acc.counters.get("incoming_cases", 0)
    if n % 9 == 0 and tree[3] is None:
        how = (n // 9) % 3
        extra = [("verif-new-child", {"k": "v"}, [], None)] if how in (1, 2) else []
        # (in front of the known children only for notifications: the server-driven, extensible part of the protocol, whose
        # handlers look their children up by name; elsewhere the position of the one child is part of the stanza's shape)
        front = (n // 27) % 2 == 0 and tree[0] == "notification"
        t2 = (tree[0], dict(tree[1], **({"verif-new-attr": "1"} if how in (0, 2) else {})), (extra + list(tree[2])) if front else (list(tree[2]) + extra), None)
        if extra:
            acc.count("incoming_newer_shape:child-%s" % ("first" if front else "last"))
        acc.count("incoming_newer_shape")
        kit.clear()
        try:
            kit.inject(t2)
        except Exception as e:  # noqa
            acc.violation("incoming-newer-shape-raises:%s:%s" % (name, type(e).__name__), "an incoming %s stanza with an unknown extra %s raised %r" % (name, ["attribute", "child", "attribute and child"][how], e), dict(w, newer_shape=how))
            return
        got = kit.top.received
        if len(got) != expect or (expect and type(got[0]) is not cls):
            acc.violation("incoming-newer-shape-count:%s:%d-for-%d" % (name, len(got), expect), "an incoming %s stanza with an unknown extra %s produced %d entities (%s), expected %d of class %s"
                          % (name, ["attribute", "child", "attribute and child"][how], len(got), [type(x).__name__ for x in got][:3], expect, cls.__name__), dict(w, newer_shape=how))
            return
        acc.count("incoming_newer_shape_ok")


def reply_rounds(acc, kit, sel, enc, sname, seed, rounds):
    """Requests sent by the application without callbacks, then their result/error replies in random order while other
    requests are still outstanding: every reply stanza must produce exactly one entity at the application side."""
    from vf.props import c08
    kinds = c08.request_kinds()
    names = sorted(kinds)
    for rd in range(rounds):
        r = gen.rng(seed, ID, "replies/%s/%s/%d" % (sname, enc, rd))
        k = r.choice([1, 2, 2, 3, 4])
        pending = []
        for _ in range(k):
            name = r.choice(names)
            try:
                ent = kinds[name](r)
                want = treeeq.to_tuple(ent.toProtocolTreeNode())
            except Exception:
                continue
            owner = stackkit.owner_module(type(ent))
            if owner is not None and not sel[owner]:
                continue            # (absent module: covered by the outgoing cases, nothing leaves)
            kit.clear()
            fast = r.random() < 0.25
            got_fast = []
            if fast:
                # a fast round trip: the reply is read (by the network thread) while the sender has not yet returned from its send
                typ_f = r.choice(["result", "error"])

                def on_send(node, name=name, typ_f=typ_f):
                    kit.bottom.on_send = None
                    st_f = c08.reply(r, name, treeeq.to_tuple(node), typ_f)
                    n0 = len(kit.top.received)
                    kit.inject(st_f)
                    got_fast.append((st_f, len(kit.top.received) - n0))
                if not enc:
                    kit.bottom.on_send = on_send
                else:
                    fast = False
            try:
                kit.send(ent)
            except Exception as e:  # noqa
                kit.bottom.on_send = None
                acc.violation("request-raises:%s:%s" % (name, type(e).__name__), "sending a %s request raised %r" % (name, e), {"dir": "request", "kind": name, "selection": sname, "enc": enc})
                continue
            kit.bottom.on_send = None
            if fast and got_fast:
                acc.count("reply_inside_send_cases")
                st_f, n_f = got_fast[0]
                if n_f != 1:
                    acc.violation("reply-inside-send:%s:%d-for-1" % (name, n_f), "a %s reply that arrives before the sender has returned from sending its %s request produced %d entities at the application side"
                                  % (st_f[1]["type"], name, n_f), {"dir": "reply-inside-send", "kind": name, "selection": sname, "enc": enc, "round": rd})
                continue
            if len(kit.mid.sent) != 1:
                continue            # judged by the outgoing cases
            pending.append((name, want))
        r.shuffle(pending)
        outstanding = [n for n, _ in pending]
        for name, req in pending:
            typ = r.choice(["result", "result", "error"])
            st = c08.reply(r, name, req, typ)
            kit.clear()
            acc.count("reply_cases")
            acc.count("reply:" + typ)
            w = {"dir": "reply", "kind": name, "type": typ, "selection": sname, "enc": enc, "round": rd, "outstanding": list(outstanding), "stanza": treeeq.describe(st, 5)}
            acc.case(["r", name, typ, sname, enc, rd, tuple(outstanding)], nontrivial=len(outstanding) > 1)
            try:
                kit.inject(st)
            except Exception as e:  # noqa
                acc.violation("reply-raises:%s:%s:%s" % (name, typ, type(e).__name__), "a %s reply to a %s request raised %r" % (typ, name, e), w)
                outstanding.remove(name)
                continue
            got = kit.top.received
            if len(got) != 1:
                others = [o for o in outstanding if o != name]
                acc.violation("reply-count:%s:%s:%d-for-1%s" % (name, typ, len(got), ":others-pending" if others and len(got) > 1 else ""),
                              "a %s reply to a %s request produced %d entities at the application side (classes %s; other requests outstanding: %s)"
                              % (typ, name, len(got), [type(x).__name__ for x in got], others), w)
            else:
                try:
                    gid = got[0].getId()
                except Exception:
                    gid = None
                if gid != st[1]["id"]:
                    acc.violation("reply-id:%s:%s" % (name, typ), "the entity delivered for a %s reply carries id %r, the stanza %r" % (typ, gid, st[1]["id"]), w)
                else:
                    acc.count("reply_one_entity")
                    if len(outstanding) > 1:
                        acc.count("reply_with_others_outstanding")
            outstanding.remove(name)


def shards(tier, seed, nworkers):
    q = tier == "quick"
    sels = list(stackkit.selections())
    specs = []
    nsh = 8 if q else nworkers
    cells = [(i, enc) for i in range(16) for enc in (False, True)]
    for k in range(nsh):
        specs.append({"kind": "cells", "cells": cells[k::nsh], "draws": 25 if q else 500})
    return specs


def run(spec, acc):
    from vf import env
    env.shim_thirdparty()
    seed = spec["seed"]
    sels = list(stackkit.selections())
    inc = incoming_kinds()
    out = outgoing_kinds()
    if len(inc) < 25:
        acc.inconc("only %d incoming kinds could be loaded" % len(inc))
    acc.count("kinds_incoming", 0)
    acc.count("kinds_outgoing", 0)
    from vf.props import c09
    for si, enc in spec["cells"]:
        sel = sels[si]
        sname = stackkit.sel_name(sel)
        acc.count("selections")
        acc.count("with_enc" if enc else "without_enc")
        acc.seen("selection_names", sname)
        kit = stackkit.Kit(sel, enc)
        cases = []
        out_tags = set()
        for name in sorted(out):
            for k in range(spec["draws"]):
                r = gen.rng(seed, ID, "out/%s/%d" % (name, k))
                try:
                    ent = out[name](r)
                except Exception:
                    break
                if ent is None:
                    break
                if k == 0:
                    acc.seen("kinds_out", name)
                    try:
                        out_tags.add(ent.getTag())
                    except Exception:
                        pass
                cases.append(("o", name, k, ent))
        for k in range(spec["draws"] * 3):
            r = gen.rng(seed, ID, "outm/%d" % k)
            try:
                name, ent = c09.media_entities(r)
                ent.toProtocolTreeNode()
            except Exception:
                continue
            acc.seen("kinds_out", name)
            out_tags.add(ent.getTag())
            cases.append(("om", name, k, ent))
        for name, cls, src in inc:
            acc.seen("kinds_in", name)
            for k in range(spec["draws"]):
                r = gen.rng(seed, ID, "in/%s/%d" % (name, k))
                cases.append(("i", name, k, (cls, draw_incoming(r, src, name))))
        missing = send_handler_reach(acc, kit, out_tags)
        if missing:
            acc.inconc("send handlers never exercised by an outgoing kind: %s" % sorted(set(missing))[:6])
        # both directions interleaved in a seeded random order over the one stack: routing must not depend on what went
        # through before (first half), then the plain order (second half of the draws) for comparability across seeds
        order = gen.rng(seed, ID, "order/%s/%s" % (sname, enc))
        order.shuffle(cases)
        acc.count("interleaved_cases", len(cases))
        prev = None
        for kind, name, k, x in cases:
            if prev is not None and prev != kind[0]:
                acc.count("direction_switches")
            prev = kind[0]
            if kind in ("o", "om"):
                acc.case([kind, name, sname, enc, k], nontrivial=True)
                check_outgoing(acc, kit, name, x, sel, enc, {"dir": "out", "kind": name, "selection": sname, "enc": enc, "draw": k})
            else:
                cls, tree = x
                w = {"dir": "in", "kind": name, "selection": sname, "enc": enc, "draw": k, "stanza": treeeq.describe(tree, 5)}
                acc.case(["i", name, sname, enc, k], nontrivial=True)
                check_incoming(acc, kit, name, cls, tree, sel, enc, w)
        reply_rounds(acc, kit, sel, enc, sname, seed, spec["draws"] * 4)
        # a retry receipt for a message nobody below has to serve (no encryption layers, or the id is not one of the messages
        # waiting in the send layer): it reaches the application like any other receipt
        for k in range(spec["draws"]):
            rr = gen.rng(seed, ID, "retryrc/%s/%s/%d" % (sname, enc, k))
            st = catalogue.HAND["retry_receipt"][2](rr)
            acc.count("unserved_retry_receipts")
            acc.case(["i", "retry_receipt", sname, enc, k], nontrivial=True)
            kit.clear()
            w_ = {"dir": "in", "kind": "retry_receipt:unserved", "selection": sname, "enc": enc, "draw": k, "stanza": treeeq.describe(st, 4)}
            try:
                kit.inject(st)
            except Exception as e:  # noqa
                acc.violation("incoming-raises:retry_receipt:%s" % type(e).__name__, "an incoming retry receipt raised %r" % (e,), w_)
                continue
            got = [e for e in kit.top.received if getattr(e, "getTag", lambda: None)() == "receipt"]
            if len(got) != 1 or got[0].getId() != st[1]["id"] or got[0].getType() != "retry":
                acc.violation("incoming-count:retry_receipt:%d-for-1" % min(len(got), 2), "a retry receipt that nothing below had to serve produced %d receipt entities at the top (%s)"
                              % (len(got), [(e.getId(), e.getType()) for e in got][:2]), w_)
            else:
                acc.count("unserved_retry_receipts_ok")
        if enc:
            encrypted_incoming(acc, kit, sel, sname, seed)
    acc.counters["kinds_incoming"] = len(inc)
    acc.counters["kinds_outgoing"] = len(out)
    acc.sample({"selections": [stackkit.sel_name(sels[i]) for i, _ in spec["cells"]][:4], "incoming_kinds": [n for n, _, _ in inc][:8], "outgoing_kinds": sorted(out)[:8]})


def encrypted_incoming(acc, kit, sel, sname, seed):
    """With the encryption layers: really encrypted message stanzas from a peer with its own key store (first message, later
    message, group message with sender-key distribution, group message with the sender key alone, and the pairwise-only group
    stanza a sender uses to answer a retry) each produce exactly one entity at the application side, carrying the text."""
    from yowsup.axolotl.factory import AxolotlManagerFactory
    from yowsup.axolotl.manager import AxolotlManager
    from axolotl.state.prekeybundle import PreKeyBundle
    from axolotl.protocol.prekeywhispermessage import PreKeyWhisperMessage
    from yowsup.layers.protocol_messages.proto.e2e_pb2 import Message
    from yowsup.layers.protocol_messages.protocolentities import TextMessageProtocolEntity
    r = gen.rng(seed, ID, "encin/%s" % sname)
    own = str(kit.profile.config.phone)
    m = kit.profile.axolotl_manager
    pphone = "4917" + gen.s_from(r, gen.DIGITS, 8)
    pj = "%s@s.whatsapp.net" % pphone
    old = AxolotlManager.COUNT_GEN_PREKEYS
    AxolotlManager.COUNT_GEN_PREKEYS = 3
    try:
        P = AxolotlManagerFactory().get_manager("c06peer_%s_%s" % (sname.replace("+", "_"), pphone), pphone)
        P.level_prekeys()
        pks = m.load_unsent_prekeys() or m.level_prekeys(force=True)
    finally:
        AxolotlManager.COUNT_GEN_PREKEYS = old
    pk = pks[0]
    spk = m.load_latest_signed_prekey(generate=True)
    P.create_session(own, PreKeyBundle(m.registration_id, 1, pk.getId(), pk.getKeyPair().getPublicKey(), spk.getId(), spk.getKeyPair().getPublicKey(),
                                       spk.getSignature(), m.identity.getPublicKey()), autotrust=True)
    gj = gen.jid(r, True)
    n = [0]

    def pairwise(proto):
        ct = P.encrypt(own, proto.SerializeToString())
        return ("enc", {"v": "2", "type": "pkmsg" if isinstance(ct, PreKeyWhisperMessage) else "msg"}, [], ct.serialize())

    def stanza(encs, group):
        n[0] += 1
        a = {"from": gj if group else pj, "id": "ENC%d%s" % (n[0], gen.s_from(r, gen.HEXU, 8)), "t": str(1600000000 + n[0]), "type": "text", "notify": "N"}
        if group:
            a["participant"] = pj
        return ("message", a, encs, None)

    def judge(shape, st, text):
        w = {"dir": "in-encrypted", "shape": shape, "selection": sname, "stanza": treeeq.describe(st, 3)}
        acc.count("encrypted_incoming")
        acc.count("encrypted_incoming:" + shape)
        acc.case(["ienc", shape, sname, n[0]], nontrivial=True)
        kit.clear()
        try:
            kit.inject(st)
        except Exception as e:  # noqa
            acc.violation("incoming-encrypted-raises:%s:%s" % (shape, type(e).__name__), "an encrypted %s stanza raised %r" % (shape, e), w)
            return False
        got = [e for e in kit.top.received if getattr(e, "getTag", lambda: None)() == "message"]
        if len(got) != 1:
            acc.violation("incoming-encrypted-count:%s:%d" % (shape, min(len(got), 2)), "an encrypted %s stanza produced %d message entities at the top (expected one); sent down meanwhile: %s"
                          % (shape, len(got), [(x.tag, x["type"]) for x in kit.bottom.sent][:4]), w)
            return False
        e = got[0]
        body = getattr(e, "getBody", lambda: None)()
        if body != text or e.getId() != st[1]["id"] or e.getFrom() != st[1]["from"] or e.getParticipant() != st[1].get("participant"):
            acc.violation("incoming-encrypted-fields:%s" % shape, "the entity for an encrypted %s stanza carries body %r id %r from %r participant %r; stanza: %r %r %r %r"
                          % (shape, body, e.getId(), e.getFrom(), e.getParticipant(), text, st[1]["id"], st[1]["from"], st[1].get("participant")), w)
            return False
        acc.count("encrypted_incoming_ok")
        return True

    def text():
        return gen.unicode_text(r, 1, 30)
    t = text()
    if not judge("first-message", stanza([pairwise(Message(conversation=t))], False), t):
        return
    # the application answers: the peer's session becomes an established one (its next messages are of type msg)
    kit.clear()
    kit.send(TextMessageProtocolEntity("re", to=pj))
    outs = [x for x in kit.bottom.sent if x.tag == "message"]
    if outs:
        encn = outs[0].getChild("enc")
        try:
            (P.decrypt_pkmsg if encn["type"] == "pkmsg" else P.decrypt_msg)(own, encn.getData(), True)
        except Exception as e:  # noqa
            acc.inconc("encin/%s: the peer cannot read the application's answer: %r" % (sname, e))
            return
    t = text()
    if not judge("later-message", stanza([pairwise(Message(conversation=t))], False), t):
        return
    # group: sender key distribution next to the sender-key message, then the sender key alone
    skdm = P.group_create_skmsg(gj).serialize()
    t = text()
    dist = Message()
    dist.sender_key_distribution_message.group_id = gj
    dist.sender_key_distribution_message.axolotl_sender_key_distribution_message = skdm
    sk = ("enc", {"v": "2", "type": "skmsg"}, [], P.group_encrypt(gj, Message(conversation=t).SerializeToString()))
    if not judge("group-with-distribution", stanza([pairwise(dist), sk] if r.random() < 0.5 else [sk, pairwise(dist)], True), t):
        return
    t = text()
    if not judge("group-sender-key-only", stanza([("enc", {"v": "2", "type": "skmsg"}, [], P.group_encrypt(gj, Message(conversation=t).SerializeToString()))], True), t):
        return
    # what a sender transmits to one participant in answer to that participant's retry receipt: the text together with the
    # sender key, pairwise encrypted, and nothing else
    t = text()
    both = Message(conversation=t)
    both.sender_key_distribution_message.group_id = gj
    both.sender_key_distribution_message.axolotl_sender_key_distribution_message = skdm
    judge("group-pairwise-only", stanza([pairwise(both)], True), t)
    if sel.get("media"):
        # a first media message of a sender in another group, as other clients send it: the pairwise part carries the sender key
        # only (and no mediatype attribute), the sender-key part carries the media message and says what it is
        gj2 = gen.jid(r, True)
        skdm2 = P.group_create_skmsg(gj2).serialize()
        dist2 = Message()
        dist2.sender_key_distribution_message.group_id = gj2
        dist2.sender_key_distribution_message.axolotl_sender_key_distribution_message = skdm2
        img = Message()
        img.image_message.url = "https://mmg.whatsapp.net/d/f/%s.enc" % gen.s_from(r, gen.ALNUM, 10)
        img.image_message.mimetype = "image/jpeg"
        img.image_message.file_sha256 = gen.blob(r, 32)
        img.image_message.file_length = r.randint(1, 10 ** 6)
        img.image_message.media_key = gen.blob(r, 32)
        img.image_message.width = 640
        img.image_message.height = 480
        sk2 = ("enc", {"v": "2", "type": "skmsg", "mediatype": "image"}, [], P.group_encrypt(gj2, img.SerializeToString()))
        n[0] += 1
        st2 = ("message", {"from": gj2, "participant": pj, "id": "ENCM%d%s" % (n[0], gen.s_from(r, gen.HEXU, 8)), "t": str(1600000000 + n[0]), "type": "media", "notify": "N"},
               [pairwise(dist2), sk2], None)
        w2 = {"dir": "in-encrypted", "shape": "group-media-with-distribution", "selection": sname, "stanza": treeeq.describe(st2, 3)}
        acc.count("encrypted_incoming")
        acc.count("encrypted_incoming:group-media-with-distribution")
        kit.clear()
        try:
            kit.inject(st2)
        except Exception as e:  # noqa
            acc.violation("incoming-encrypted-raises:group-media:%s" % type(e).__name__, "an encrypted group media stanza raised %r" % (e,), w2)
            return
        got = [e for e in kit.top.received if getattr(e, "getTag", lambda: None)() == "message"]
        rcpts = [(x["type"], x["id"]) for x in kit.bottom.sent if x.tag == "receipt"]
        if len(got) != 1 or getattr(got[0], "media_type", getattr(got[0], "getMediaType", lambda: None)()) not in ("image",):
            acc.violation("incoming-encrypted-count:group-media:%d" % min(len(got), 2), "an encrypted group image message (pairwise part without mediatype, sender-key part with it) produced %d "
                          "message entities at the top (%s); receipts sent down meanwhile: %s" % (len(got), [type(e).__name__ for e in got][:2], rcpts[:3]), w2)
            return
        acc.count("encrypted_incoming_ok")


def replay(spec, acc):
    from vf import env
    env.shim_thirdparty()
    run({"seed": spec["seed"], "cells": [(i, e) for i in range(16) for e in (False, True)], "draws": 2}, acc)
