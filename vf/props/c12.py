"""C12 — a failure while sending or receiving does not wedge the stack."""
import threading
import time

from vf import gen

ID = "C12"
LEVEL = "fault_enumeration"
RULE = ("one evaluation = one (failure site, direction, position k, follow-up plan): two real clients with the library's "
        "complete default stack (network, segments, noise, coder, logger, axolotl, all protocol layers, application) are "
        "logged in against the Noise responder double; a fixed script of 10 sends/receives runs with a failpoint that makes "
        "the k-th call of one layer's send/receive raise (every layer and sublayer x both directions x k=1..5), or with one "
        "of the natural failures (un-encodable attribute, send while not connected, undecodable frame, picture notification "
        "of unknown kind, application callback raising, unknown stream error; oversized frame in the thorough tier). Then: "
        "the error must reach the caller, a census of every lock object on every layer must find none held, follow-up sends "
        "and incoming frames from the same and from another thread must be processed (judged by the strict peer / the "
        "application log), and again after a reconnect; a thread parked on a lock or an untimed wait is a violation, a bare "
        "timeout is inconclusive. Non-trivial = the failure was actually reached; distinct by (site, direction, k, plan)")
ASSUMPTIONS = ["failpoints raise a RuntimeError subclass at the entry of a layer's send/receive; failures that kill the interpreter are out of scope",
               "sites at or below the transport cipher in the byte stream (network, segments in both directions, noise on receive) lose bytes of an ordered encrypted stream when they fail: "
               "for them same-connection follow-ups are only required not to block, and everything is required to work after a reconnect",
               "after-failure follow-ups run in helper threads so that a wedged stack is observed as a blocked thread instead of hanging the check"]
REQUIRED = ["real_upward_tidy_disconnects", "keyreq_followup_ok", "keyfetch_failure_cases", "keyfetch_failure_ok", "keyfetch_failure:no-keys-answer", "keyfetch_failure:send-raises", "keyfetch_failures_injected", "placed_followup_phases", "placed_followups_ok", "placed_round:me/send", "placed_round:me/recv", "placed_round:fresh/send", "placed_round:fresh/recv", "placed_round:fresh-any/send", "concurrent_followup_phases", "concurrent_followups_ok", "real_upward_failure_cases", "real_upward_failure_ok", "real_write_error_cases", "real_write_error_ok", "real_write_error:socket", "real_write_error:asyncore", "cases", "failpoints_reached", "natural_failures", "locks_censused", "followups_ok", "reconnect_followups_ok",
            "sites", "other_thread_followups"]
TIMEOUT = {"quick": 600, "thorough": 7200}


class FailpointError(RuntimeError):
    pass


def layer_sites(client):
    """[(site name, layer object)] for every layer of the client's stack, sublayers included (bottom to top)."""
    from vf.probes import all_layers
    from yowsup.layers import YowParallelLayer
    out = []
    for l in all_layers(client.stack):
        if isinstance(l, YowParallelLayer) or l is client.app:
            continue
        out.append((l.__class__.__name__, l))
    return out


CRITICAL = {("YowNetworkLayer", "send"), ("YowNetworkLayer", "receive"), ("YowNoiseSegmentsLayer", "send"), ("YowNoiseSegmentsLayer", "receive"),
            ("YowNoiseLayer", "receive")}


def install_failpoint(layer, direction, k, st):
    orig = getattr(layer, direction)

    def wrapper(data):
        if st["armed"]:
            st["calls"] += 1
            if st["calls"] == k and not st["fired"]:
                st["fired"] = True
                st["thread"] = threading.current_thread().name
                raise FailpointError("failpoint at %s.%s call %d" % (layer.__class__.__name__, direction, k))
        return orig(data)
    setattr(layer, direction, wrapper)


class Blob(object):
    """A raw outgoing iq entity (what protocol layers need: tag, xmlns, id, serialisation)."""

    def __init__(self, node):
        self.node = node

    def getTag(self):
        return self.node.tag

    def getXmlns(self):
        return self.node["xmlns"]

    def getId(self):
        return self.node["id"]

    def getType(self):
        return self.node["type"]

    def toProtocolTreeNode(self):
        return self.node


def run_case(acc, seed, tag, d):
    """d: {"kind": "failpoint"|natural name, "site": index, "direction", "k", "other_thread": bool}"""
    from vf import world, probes
    from yowsup.structs import ProtocolTreeNode
    from yowsup.layers.protocol_messages.protocolentities import TextMessageProtocolEntity
    from yowsup.layers.protocol_iq.protocolentities import PingIqProtocolEntity
    from yowsup.layers.protocol_presence.protocolentities import AvailablePresenceProtocolEntity
    r = gen.rng(seed, ID, tag)
    W = world.World(seed=r.randrange(1 << 30), strategy="uniform", batch=20, wiring="full")
    A, B = "4911" + gen.s_from(r, gen.DIGITS, 7), "4922" + gen.s_from(r, gen.DIGITS, 7)
    a = W.add_client(A)
    W.add_client(B)
    w = {"tag": tag, "desc": d}
    acc.count("cases")
    W.script = [{"op": "connect", "who": A}, {"op": "connect", "who": B}, {"op": "wait-quiet"}]
    if not W.run(max_steps=5000) or not W.clients[A].ready() or not W.clients[B].ready() or W.idle_timeouts:
        acc.inconc("%s: login did not complete" % tag)
        W.close()
        return
    a = W.clients[A]
    sites = layer_sites(a)
    acc.count("sites", 0)
    for nme, _ in sites:
        acc.seen("site_names", nme)
    st = {"armed": False, "calls": 0, "fired": False, "thread": None}
    site_name = None
    if d["kind"] == "failpoint":
        site_name, layer = sites[d["site"] % len(sites)]
        install_failpoint(layer, d["direction"], d["k"], st)
        w["site"] = site_name
        acc.count("sites")
    critical = d["kind"] == "failpoint" and (site_name, d["direction"]) in CRITICAL
    res = {"phase": "start", "events": [], "blocked": None}
    mk = [0]

    def srv_stanza(kind):
        mk[0] += 1
        i = "sv%d" % mk[0]
        if kind == "ping":
            return ("iq", {"id": i, "type": "get", "xmlns": "urn:xmpp:ping", "from": "s.whatsapp.net"}, [], None)
        if kind == "notif":
            return ("notification", {"id": i, "type": "status", "from": "%s@s.whatsapp.net" % B, "t": "1600000000"}, [("set", {}, [], b"hello")], None)
        if kind == "presence":
            return ("presence", {"from": "%s@s.whatsapp.net" % B, "last": "deny"}, [], None)
        raise ValueError(kind)

    def errors_now():
        return [e for e in W.clients[A].errors] + [l for l in W.log if l[0] == "exception"]

    def op_send(kind, via_thread=False):
        c = W.clients[A]
        mk[0] += 1
        if kind == "ping":
            ent = PingIqProtocolEntity()
        elif kind == "presence":
            ent = AvailablePresenceProtocolEntity()
        elif kind == "text":
            ent = TextMessageProtocolEntity("FU%d %s" % (mk[0], gen.s_from(r, gen.ALNUM, 6)), to="%s@s.whatsapp.net" % B)
        else:
            ent = Blob(ProtocolTreeNode("iq", {"id": "bl%d" % mk[0], "type": "set", "xmlns": "w"}, None, None))
        before = W.counters.get("srv_in:" + ent.getTag(), 0)
        if via_thread:
            box = {}
            t = threading.Thread(target=lambda: box.setdefault("ok", c.guarded(lambda: c.app.toLower(ent), "send:" + kind)), name="verif-other-sender")
            t.daemon = True
            t.start()
            t.join(15)
            if t.is_alive():
                stt = probes.thread_states([t]).get(t.name, [])
                res["blocked"] = ("other-thread send", [list(f[:3]) for f in stt[:6]], probes.blocked_on_lock(stt) or probes.parked_forever(stt))
                return None
            acc.count("other_thread_followups")
        else:
            c.guarded(lambda: c.app.toLower(ent), "send:" + kind)
        W.run(max_steps=W.steps + 3000)
        return W.counters.get("srv_in:" + ent.getTag(), 0) > before

    def op_recv(kind):
        before_acks = len(W.server.acked_by_client)
        before_in = sum(v for k, v in W.counters.items() if k.startswith("srv_in:"))
        before_app = len(W.app_log)
        W.server.to_client(A, srv_stanza(kind))
        W.run(max_steps=W.steps + 3000)
        after_in = sum(v for k, v in W.counters.items() if k.startswith("srv_in:"))
        if kind in ("ping", "notif"):
            return after_in > before_in       # pong / ack came back through the whole stack
        return len(W.app_log) > before_app    # entity reached the application

    SCRIPT = [("send", "ping"), ("recv", "ping"), ("send", "presence"), ("recv", "notif"), ("send", "text"), ("recv", "presence"),
              ("send", "blob"), ("recv", "ping"), ("send", "ping"), ("recv", "notif")]
    if d.get("variant"):
        gen.rng(seed, ID, "variant/%d" % d["variant"]).shuffle(SCRIPT)

    def natural(kind):
        c = W.clients[A]
        if kind == "unencodable":
            bad = Blob(ProtocolTreeNode("iq", {"id": "bad1", "type": "set", "xmlns": "w", "n": 5}, None, None))
            c.guarded(lambda: c.app.toLower(bad), "send:unencodable")
        elif kind == "oversized":
            big = Blob(ProtocolTreeNode("iq", {"id": "big1", "type": "set", "xmlns": "w"}, [ProtocolTreeNode("blob", {}, None, bytes((1 << 24) + 8))], None))
            c.guarded(lambda: c.app.toLower(big), "send:oversized")
        elif kind == "send-while-down":
            W.server_close(A)
            c.guarded(lambda: c.app.toLower(PingIqProtocolEntity()), "send:while-down")
            W.run(max_steps=W.steps + 3000)
            c.guarded(lambda: c.app.connect(), "connect")
            W.run(max_steps=W.steps + 5000)
            st["fired"] = True
            return
        elif kind == "undecodable-frame":
            d_ = c.dispatcher
            data = d_.srv.encrypt(b"\x00\xf8\x02\xfc")     # a frame that ends inside a string
            c.guarded(lambda: d_.connectionCallbacks.onRecvData(data), "receive:undecodable")
        elif kind == "unknown-picture-notification":
            W.server.to_client(A, ("notification", {"id": "pn1", "type": "picture", "from": "%s@s.whatsapp.net" % B, "t": "1600000000"}, [("request", {}, [], None)], None))
        elif kind == "app-callback-raises":
            def boom(entity):
                raise FailpointError("application callback raised")
            c.app.entity_callbacks["presence"] = boom
            W.server.to_client(A, srv_stanza("presence"))
            W.run(max_steps=W.steps + 3000)
            from vf.world import app_class
            c.app.entity_callbacks["presence"] = c.app.onPresence
            st["fired"] = True
            return
        elif kind == "undecryptable-message":
            # a message from B reaches A damaged in transit: the decryption fails inside the key manager; the library reports it to
            # the SENDER (retry receipt), not to a caller on this side
            from yowsup.layers.protocol_messages.protocolentities.attributes.attributes_message_meta import MessageMetaAttributes
            mid_ = "C12BAD%s" % gen.s_from(r, gen.HEXU, 8)
            W.server.faults[mid_] = {"corrupt": True}
            W.script = list(W.script[:W.script_pos]) + [{"op": "send", "who": B, "kind": "text", "uid": "bad1",
                                                         "build": lambda: TextMessageProtocolEntity("damaged on its way", message_meta_attributes=MessageMetaAttributes(id=mid_, recipient="%s@s.whatsapp.net" % A))}]
            W.run(max_steps=W.steps + 4000)
            res["undecryptable_injected"] = W.counters.get("fault_corrupt_injected", 0)
        elif kind == "truncated-compressed-frame":
            # a compressed frame whose deflate stream lacks its end (cut in transit before the connection's next frame): the
            # decoder cannot know the stanza is whole, it has to report it
            import zlib
            from vf import refcodec
            d_ = c.dispatcher
            tree_ = ("message", {"id": "TRUNC1", "from": "%s@s.whatsapp.net" % B, "t": "1600000000", "type": "text"}, [("enc", {"v": "2", "type": "msg"}, [], gen.blob(r, 700))], None)
            raw_ = refcodec.encode_canonical(tree_)
            comp_ = zlib.compress(bytes(raw_[1:]))
            frame_ = b"\x02" + comp_[:-r.choice([1, 3, 4, 6, 9])]
            data = d_.srv.encrypt(frame_)
            c.guarded(lambda: d_.connectionCallbacks.onRecvData(data), "receive:truncated-compressed")
        elif kind == "key-request-without-t":
            # a key-count notification lacking its timestamp attribute (the library cannot parse it: the error goes to the caller)
            W.server.to_client(A, ("notification", {"from": "s.whatsapp.net", "type": "encrypt", "id": "nkbad1"}, [("count", {"value": "3"}, [], None)], None))
        elif kind == "unknown-stream-error":
            W.server.to_client(A, ("stream:error", {}, [("weird-condition", {}, [], None)], None))
        W.run(max_steps=W.steps + 3000)
        st["fired"] = True

    def body():
        res["phase"] = "script"
        st["armed"] = True
        n_before = len(errors_now())
        if d["kind"] == "failpoint":
            for op, kind in SCRIPT:
                (op_send if op == "send" else op_recv)(kind)
                if st["fired"]:
                    res["failed_op"] = op
                    break
        else:
            natural(d["kind"])
        st["armed"] = False
        res["fired"] = st["fired"]
        res["new_errors"] = errors_now()[n_before:]
        if not st["fired"]:
            return
        # quiescence after the failure
        W.run(max_steps=W.steps + 3000)
        res["held_after_failure"] = probes.held_locks(W.clients[A].stack)
        if res["held_after_failure"]:
            res["threads_at_census"] = {n: [list(f[:3]) for f in s_[:7]] for n, s_ in probes.thread_states().items()}
            time.sleep(0.2)
            res["held_after_failure_200ms_later"] = probes.held_locks(W.clients[A].stack)
        res["phase"] = "followups"
        # first of all, with the race placed (before any other thread has been through the layers' locks again): a fresh thread is held at a chosen line inside the lower layers' send path (it holds the
        # locks of the layers above it) while the thread that lived through the failure sends; whoever comes second has to wait
        if not critical and W.clients[A].connected and not res["blocked"]:
            from vf import inject
            c_ = W.clients[A]

            def one(i_):
                c_.guarded(lambda: c_.app.toLower(Blob(ProtocolTreeNode("iq", {"id": i_, "type": "set", "xmlns": "w"}, [ProtocolTreeNode("blob", {}, None, gen.blob(r, 40))], None))), "send:placed")
            placed = []
            placed_recv_ok = True
            SEG = ("consonance/streams/segmented/blockingqueue.py",)
            LOW = ("yowsup/layers/noise/layer.py", "yowsup/layers/noise/layer_noise_segments.py", "consonance/transport.py", "consonance/protocol.py", "yowsup/layers/network/layer.py")
            me_name = threading.current_thread().name
            # Rounds (held thread, what THIS thread - it lived through the failure - does meanwhile); "held" is at the first line of the
            # cipher stream's write_segment, i.e. after the frame got its cipher counter and before it is queued for writing:
            #   ("me", "send")   this thread is held inside its own send while a fresh thread sends
            #   ("me", "recv")   this thread plays the network thread: an incoming notification makes the library send its ack, it is
            #                    held inside that while a fresh thread sends
            #   ("fresh", "send") / ("fresh", "recv")   the fresh thread is held while this thread sends / acknowledges
            #   ("fresh-any", "send")   the fresh thread is held anywhere in the Noise layer / cipher transport
            # The first round repeats the kind of operation that failed, with this thread held (a thread that passes through the
            # layers' locks normally may wipe out what the failure left behind, so the suspicious combination goes first).
            first = ("me", "recv") if res.get("failed_op") == "recv" else ("me", "send")
            rest = [x for x in [("me", "send"), ("me", "recv"), ("fresh", "send"), ("fresh", "recv")] if x != first]
            r.shuffle(rest)
            sent_ids = []
            for rnd_, (who_, role_) in enumerate([first] + rest + [("fresh-any", "send")]):
                pa = inject.PauseAt(LOW if who_ == "fresh-any" else SEG, r.choice([1, 2, 3, 5, 8, 13]) if who_ == "fresh-any" else 1, me_name if who_ == "me" else "verif-held-sender",
                                    hold=0.12, funcs=None if who_ == "fresh-any" else ("write_segment",))

                def fresh(i_=rnd_, pa_=pa, wait_=(who_ == "me")):
                    if wait_:
                        pa_.at_point.wait(2)
                    one("cph-%d" % i_)
                sent_ids.append("cph-%d" % rnd_)
                t_ = threading.Thread(target=fresh, name="verif-held-sender")
                t_.daemon = True
                with pa:
                    t_.start()
                    if who_ != "me":
                        pa.at_point.wait(2)
                    if role_ == "send":
                        one("cpx-%d" % rnd_)
                        sent_ids.append("cpx-%d" % rnd_)
                    else:
                        placed_recv_ok = op_recv("notif") and placed_recv_ok
                    held = pa.at_point.is_set()
                    t_.join(20)
                if t_.is_alive():
                    stt = probes.thread_states([t_]).get(t_.name, [])
                    res["blocked"] = ("placed follow-up send", [list(f[:3]) for f in stt[:6]], probes.blocked_on_lock(stt) or probes.parked_forever(stt))
                    return
                placed.append((held, "%s/%s@%s" % (who_, role_, pa.where)))
                if held:
                    acc.count("placed_round:%s/%s" % (who_, role_))
            W.run(max_steps=W.steps + 4000)
            got_ids = [i_ for ph, i_ in W.server.iq_ids_seen if ph == A and str(i_).startswith("cp")]
            res["placed"] = {"sent": sent_ids, "got": got_ids, "held": placed, "recv_ok": placed_recv_ok}
            acc.count("placed_followup_phases")
        fu = []
        if not critical:
            plan = [("send", "ping", False), ("recv", "ping", False), ("send", "presence", d["other_thread"]), ("recv", "notif", False),
                    ("send", "text", False), ("recv", "presence", False)]
            if d["kind"] == "undecryptable-message":
                # (an encrypted send from ANOTHER thread than the one that lived through the failed decryption comes first)
                plan = [("send", "text", True), ("send", "text", False)] + plan
        else:
            plan = [("recv", "presence", False)] if d["direction"] == "send" else []
        for op, kind, thr in plan:
            if not W.clients[A].connected:
                break
            ok = op_send(kind, via_thread=thr) if op == "send" else op_recv(kind)
            if res["blocked"]:
                return
            fu.append((op, kind, thr, ok))
        res["followups"] = fu
        if d["kind"] == "key-request-without-t" and W.clients[A].connected:
            # the same kind of operation again, well-formed: the server asks for keys, an upload has to follow
            acct = W.server.accounts.get(W.clients[A].jid)
            n0 = len(acct.uploads) if acct else 0
            W.server.ask_for_keys(A, 2)
            W.run(max_steps=W.steps + 4000)
            acct = W.server.accounts.get(W.clients[A].jid)
            res["keyreq_followup"] = (len(acct.uploads) if acct else 0) > n0
        # ... and from two threads at once: the thread that lived through the failure and a fresh one (the failure must not have
        # left anything behind that lets either of them slip past the others)
        if not critical and W.clients[A].connected and not res["blocked"]:
            import random as _random
            from vf import inject
            c_ = W.clients[A]
            ids = {"x": ["ccx-%d" % i for i in range(20)], "y": ["ccy-%d" % i for i in range(20)]}
            before_in = len(W.server.inbound.get(A, [])) + 0

            x_started = threading.Event()

            def burst(name):
                if name == "y":
                    # the other thread joins while the first one is inside a long send
                    x_started.wait(5)
                    time.sleep(0.0005)
                for n_, i_ in enumerate(ids[name]):
                    big = gen.blob(r, 64) * (3000 if (name == "x" and n_ % 5 == 0) else 1)
                    if name == "x" and n_ == 0:
                        x_started.set()
                    c_.guarded(lambda i_=i_, big=big: c_.app.toLower(Blob(ProtocolTreeNode("iq", {"id": i_, "type": "set", "xmlns": "w"}, [ProtocolTreeNode("blob", {}, None, big)], None))), "send:concurrent")
            yi = inject.YieldInjector(_random.Random(r.randrange(1 << 30)), ("yowsup/layers/__init__.py", "yowsup/layers/noise/layer.py", "yowsup/layers/noise/layer_noise_segments.py",
                                                                               "consonance/transport.py", "yowsup/layers/coder/layer.py"), p=0.5)
            t_ = threading.Thread(target=burst, args=("y",), name="verif-concurrent-sender")
            t_.daemon = True
            with yi:
                t_.start()
                burst("x")
                t_.join(20)
            if t_.is_alive():
                stt = probes.thread_states([t_]).get(t_.name, [])
                res["blocked"] = ("concurrent follow-up send", [list(f[:3]) for f in stt[:6]], probes.blocked_on_lock(stt) or probes.parked_forever(stt))
                return
            W.run(max_steps=W.steps + 4000)
            got_ids = [i_ for ph, i_ in W.server.iq_ids_seen if ph == A and str(i_).startswith("cc")]
            res["concurrent"] = {"sent": ids["x"] + ids["y"], "got": got_ids, "yields": yi.yields}
            acc.count("concurrent_followup_phases")
        res["peer_errors_same_conn"] = list(W.peer_errors)
        res["phase"] = "reconnect"
        # reconnect and try again
        del W.peer_errors[:]
        c = W.clients[A]
        if c.connected:
            c.guarded(lambda: c.app.disconnect(), "disconnect")
        W.run(max_steps=W.steps + 3000)
        c.guarded(lambda: c.app.connect(), "connect")
        W.run(max_steps=W.steps + 5000)
        res["reconnected"] = W.clients[A].ready()
        fu2 = []
        if res["reconnected"]:
            for op, kind, thr in [("send", "ping", False), ("recv", "ping", False), ("send", "text", d["other_thread"]), ("recv", "notif", False)]:
                ok = op_send(kind, via_thread=thr) if op == "send" else op_recv(kind)
                if res["blocked"]:
                    return
                fu2.append((op, kind, thr, ok))
        res["followups_reconnect"] = fu2
        res["held_end"] = probes.held_locks(W.clients[A].stack)
        res["peer_errors_after_reconnect"] = list(W.peer_errors)
        res["phase"] = "done"

    def guarded_body():
        try:
            body()
        except Exception:
            import traceback
            res["crash"] = traceback.format_exc()[-1200:]

    runner = threading.Thread(target=guarded_body, name="verif-c12-runner")
    runner.daemon = True
    runner.start()
    # a wedged stack shows as the runner parked on a lock / untimed wait with an unchanged stack: decide that
    # logically (3 identical samples one second apart) instead of waiting for the outer limit
    last, same = None, 0
    t_end = time.time() + 90
    while runner.is_alive() and time.time() < t_end:
        runner.join(1.0)
        if not runner.is_alive():
            break
        stt = probes.thread_states([runner]).get(runner.name, [])
        sig = tuple(f[:3] for f in stt[:6])
        if (probes.blocked_on_lock(stt) or probes.parked_forever(stt)) and sig == last:
            same += 1
            if same >= 3:
                break
        else:
            same = 0
        last = sig
    desc_site = "%s.%s" % (site_name, d["direction"]) if d["kind"] == "failpoint" else d["kind"]
    nontriv = bool(res.get("fired"))
    acc.case(["c", d], nontrivial=nontriv)

    def bad(key, what):
        acc.violation(key, "%s [failure: %s%s]" % (what, desc_site, " call %d" % d["k"] if d["kind"] == "failpoint" else ""), dict(w, result={k: v for k, v in res.items() if k != "crash"}))

    if runner.is_alive():
        stt = probes.thread_states([runner]).get(runner.name, [])
        w["runner_stack"] = [list(f[:3]) for f in stt[:10]]
        if probes.blocked_on_lock(stt) or probes.parked_forever(stt):
            where = next((f[1] for f in stt if "/yowsup/" in (f[3] if len(f) > 3 else "")), stt[0][1] if stt else "?")
            bad("blocks-forever:%s:%s" % (where, res["phase"]), "after the failure the calling thread is blocked forever in %s (phase %s)" % (where, res["phase"]))
        else:
            acc.inconc("%s: case still running after 90 s without being parked (phase %s)" % (tag, res["phase"]))
        return
    if "crash" in res:
        acc.inconc("%s: harness crashed: %s" % (tag, res["crash"]))
        W.close()
        return
    if res["blocked"]:
        what, stack, parked = res["blocked"]
        if parked:
            where = next((f[1] for f in stack if f[0].endswith(".py") and f[0] not in ("threading.py", "queue.py")), "?")
            bad("blocks-forever:%s:other-thread" % where, "a follow-up %s from another thread is blocked forever (stack %s)" % (what, stack[:3]))
        else:
            acc.inconc("%s: follow-up thread still running after 15 s" % tag)
        W.close()
        return
    if not res.get("fired"):
        acc.count("failpoint_not_reached")
        W.close()
        return
    acc.count("failpoints_reached" if d["kind"] == "failpoint" else "natural_failures")
    if d["kind"] != "failpoint":
        acc.count("natural:" + d["kind"])
    # (a) the error reached a caller
    errs = res["new_errors"]
    if d["kind"] == "failpoint":
        if not any(("FailpointError" in str(e)) for e in errs):
            bad("error-swallowed:%s" % desc_site, "the failure was not reported to any caller (errors seen: %s)" % ([str(e)[:80] for e in errs][:2]))
    elif d["kind"] in ("unencodable", "oversized", "send-while-down", "undecodable-frame", "unknown-picture-notification", "app-callback-raises", "unknown-stream-error", "key-request-without-t", "truncated-compressed-frame"):
        if not errs:
            bad("error-swallowed:%s" % d["kind"], "the failure was not reported to any caller")
    # (b) lock census
    acc.count("locks_censused", len(probes.lock_census(W.clients[A].stack)))
    if res.get("held_after_failure") and not res.get("held_after_failure_200ms_later"):
        # some thread was legitimately inside the critical section at the instant of the census: not "staying held"
        acc.count("transient_lock_holds")
        res["held_after_failure"] = []
    for phase in ("held_after_failure", "held_end"):
        if res.get(phase):
            bad("lock-held:%s" % ",".join(sorted(set(res[phase]))[:3]), "lock(s) %s still held at quiescence (%s)" % (res[phase], phase))
            W.close()
            return
    pl = res.get("placed")
    if pl:
        miss = [i_ for i_ in pl["sent"] if pl["got"].count(i_) != 1] + ([] if pl["recv_ok"] else ["(the ack of the notification received meanwhile)"])
        if miss or res.get("peer_errors_same_conn"):
            bad("placed-followups:%s" % ("stream-corrupt" if res.get("peer_errors_same_conn") else "not-exactly-once"),
                "after the failure, the thread that saw it sends while another thread is held inside the lower layers' send path (%s): %s"
                % (pl["held"], "the peer cannot decrypt the stream any more (%s)" % (res["peer_errors_same_conn"][:1],) if res.get("peer_errors_same_conn") else "stanzas %s arrived not exactly once" % miss[:4]))
            W.close()
            return
        else:
            acc.count("placed_followups_ok")
    if res.get("keyreq_followup") is False:
        bad("followup-not-processed:key-request", "after a key request the library could not parse, the next (well-formed) key request led to no upload")
        W.close()
        return
    if res.get("keyreq_followup"):
        acc.count("keyreq_followup_ok")
    # (c) follow-ups
    for op, kind, thr, ok in res.get("followups", []):
        if not ok:
            bad("followup-not-processed:%s:%s" % (op, "critical" if critical else "same-connection"), "a follow-up %s (%s%s) on the same connection was not processed" % (op, kind, ", other thread" if thr else ""))
            W.close()
            return
    if not critical and res.get("peer_errors_same_conn"):
        bad("peer-cannot-decrypt:same-connection", "after the failure the peer cannot decrypt the client's stream any more: %s" % (res["peer_errors_same_conn"][0],))
        W.close()
        return
    acc.count("followups_ok", len(res.get("followups", [])))
    cc = res.get("concurrent")
    if cc:
        miss = [i_ for i_ in cc["sent"] if cc["got"].count(i_) != 1]
        if miss or res.get("peer_errors_same_conn"):
            bad("concurrent-followups:%s" % ("stream-corrupt" if res.get("peer_errors_same_conn") else "not-exactly-once"),
                "after the failure, sends from the thread that saw it and from another thread at the same time: %s"
                % ("the peer cannot decrypt the stream any more (%s)" % (res["peer_errors_same_conn"][:1],) if res.get("peer_errors_same_conn") else "stanzas %s arrived not exactly once" % miss[:4]))
        else:
            acc.count("concurrent_followups_ok")
    if not res.get("reconnected"):
        bad("no-reconnect", "after the failure the client could not log in again")
        W.close()
        return
    for op, kind, thr, ok in res.get("followups_reconnect", []):
        if not ok:
            bad("followup-not-processed:%s:after-reconnect" % op, "after a reconnect a follow-up %s (%s) was not processed" % (op, kind))
            W.close()
            return
    if res.get("peer_errors_after_reconnect"):
        bad("peer-cannot-decrypt:after-reconnect", "after a reconnect the peer cannot decrypt the client's stream: %s" % (res["peer_errors_after_reconnect"][0],))
        W.close()
        return
    acc.count("reconnect_followups_ok", len(res.get("followups_reconnect", [])))
    acc.count("case_ok")
    W.close()


NATURALS = ["unencodable", "send-while-down", "undecodable-frame", "unknown-picture-notification", "app-callback-raises", "unknown-stream-error", "key-request-without-t",
            "truncated-compressed-frame", "undecryptable-message"]


def keyfetch_failure_case(acc, seed, tag, how):
    """A message arrives from a sender with whom this installation has no session; the key request that follows fails (the server
    answers without keys, or a lower layer raises while the request goes down). The next message from the same sender must be
    handled like the first: a new key request, and in the end a reaction to every message (shown, or a receipt / retry receipt)."""
    from vf import world
    from yowsup.layers.protocol_messages.protocolentities import TextMessageProtocolEntity
    r = gen.rng(seed, ID, tag)
    W = world.World(seed=r.randrange(1 << 30), strategy="uniform", batch=20, wiring="full")
    A, B = "4911" + gen.s_from(r, gen.DIGITS, 7), "4922" + gen.s_from(r, gen.DIGITS, 7)
    from yowsup.layers.axolotl.props import PROP_IDENTITY_AUTOTRUST
    W.add_client(A, props={PROP_IDENTITY_AUTOTRUST: True})
    W.add_client(B, props={PROP_IDENTITY_AUTOTRUST: True})
    w = {"tag": tag, "kind": "keyfetch-failure", "how": how}
    acc.count("keyfetch_failure_cases")
    acc.count("keyfetch_failure:" + how)
    acc.case(["keyfetch", tag], nontrivial=True)
    from_a = []
    orig_process = W.server.process

    def process(client, t):
        if client.phone == A:
            from_a.append(t)
        return orig_process(client, t)
    W.server.process = process
    ids = {}

    def send(frm, to, mk):
        def build():
            e = TextMessageProtocolEntity(mk, to="%s@s.whatsapp.net" % to)
            ids[mk] = e.getId()
            return e
        return {"op": "send", "who": frm, "kind": "text", "uid": mk, "build": build}

    def run(actions):
        W.script = list(W.script) + actions
        return W.run(max_steps=W.steps + 12000)

    def key_requests():
        return len([t for t in from_a if t[0] == "iq" and t[1].get("xmlns") == "encrypt" and t[1].get("type") == "get"
                    and any(u[1].get("jid", "").startswith(B) for k in t[2] if k[0] == "key" for u in k[2])])

    def reacted(mk):
        mid = ids.get(mk)
        shown = any(ph == A and k == "message" and getattr(e, "getBody", lambda: None)() == mk for ph, k, e, g in W.app_log)
        rc = [t for t in from_a if t[0] == "receipt" and t[1].get("id") == mid]
        return shown, len(rc)
    try:
        if not run([{"op": "connect", "who": A}, {"op": "connect", "who": B}, {"op": "wait-quiet"}, send(B, A, "KF0"), {"op": "wait-quiet"}, send(A, B, "KF1"), {"op": "wait-quiet"}]):
            acc.inconc("%s: set-up did not quiesce" % tag)
            return
        if not reacted("KF0")[0]:
            acc.inconc("%s: set-up message not shown" % tag)
            return
        # this installation is replaced by a fresh one (new key store): the peer still encrypts for the old session
        run([{"op": "reinstall", "who": A}, {"op": "wait-quiet"}])
        del from_a[:]
        a = W.clients[A]
        bj = "%s@s.whatsapp.net" % B
        st = {"armed": False, "calls": 0, "fired": False, "thread": None}
        if how == "no-keys-answer":
            W.server.key_errors[bj] = ("404", "item-not-found")
        else:
            sites = dict(layer_sites(a))
            lay = sites["YowCoderLayer"]
            orig_send = lay.send

            def failing(node):
                # (only the key request: whatever else goes down passes)
                if not st["fired"] and getattr(node, "tag", None) == "iq" and node["xmlns"] == "encrypt" and node["type"] == "get":
                    st["fired"] = True
                    raise FailpointError("failpoint: the key request could not be sent")
                return orig_send(node)
            lay.send = failing
        run([send(B, A, "KF2"), {"op": "wait-quiet"}])
        n1 = key_requests()
        if how == "no-keys-answer":
            W.server.key_errors.pop(bj, None)
            if n1 < 1:
                acc.inconc("%s: the message without session did not lead to a key request (requests %d)" % (tag, n1))
                return
        else:
            lay.send = orig_send
            if not st["fired"]:
                acc.inconc("%s: the failpoint on the key request was not reached" % tag)
                return
        acc.count("keyfetch_failures_injected")
        run([send(B, A, "KF3"), {"op": "wait-quiet"}])
        n2 = key_requests()
        w["key_requests"] = [n1, n2]
        w["reactions"] = {mk: reacted(mk) for mk in ("KF2", "KF3")}
        if n2 <= n1 and not all(reacted(mk)[0] or reacted(mk)[1] for mk in ("KF2", "KF3")):
            acc.violation("keyfetch-failure:%s:later-message-not-handled" % how, "after a failed key request (%s) the next message of the same sender led to no new key request (%d before, %d after) "
                          "and the messages got no reaction (shown / receipts: %s)" % (how, n1, n2, w["reactions"]), w)
            return
        lost = [mk for mk in ("KF2", "KF3") if not (reacted(mk)[0] or reacted(mk)[1])]
        if lost:
            acc.violation("keyfetch-failure:%s:message-without-reaction" % how, "after a failed key request (%s) messages %s were neither shown nor answered with a receipt / retry receipt "
                          "(key requests %d then %d)" % (how, lost, n1, n2), w)
            return
        acc.count("keyfetch_failure_ok")
        acc.count("keyfetch_shown", len([1 for mk in ("KF2", "KF3") if reacted(mk)[0]]))
    finally:
        W.close()


def all_cases(tier):
    cases = []
    nsites = 24   # upper bound; indexes wrap around the actual number of layers (23 in the default stack)
    kmax = 5 if tier == "quick" else 8
    variants = 1 if tier == "quick" else 4
    for v in range(variants):
        for site in range(nsites):
            for direction in ("send", "receive"):
                for k in range(1, kmax + 1):
                    cases.append({"kind": "failpoint", "site": site, "direction": direction, "k": k, "other_thread": (site + k + v) % 2 == 0, "variant": v})
        for n in NATURALS + ["oversized"]:
            for ot in (False, True):
                cases.append({"kind": n, "site": 0, "direction": "-", "k": 0, "other_thread": ot, "variant": v})
    return cases


# ---------------------------------------------------------------------------------------------
# a socket write that fails (connection reset) under the library's real dispatchers
class SockProxy(object):
    """The dispatcher's socket with one injected failure: the next send() raises ECONNRESET (what a write on a connection the
    peer has reset does)."""

    def __init__(self, real):
        self.__dict__["_real"] = real
        self.__dict__["fail_sends"] = 1
        self.__dict__["failed"] = 0

    def send(self, data, *a):
        if self.fail_sends > 0:
            self.__dict__["fail_sends"] -= 1
            self.__dict__["failed"] += 1
            import errno
            raise ConnectionResetError(errno.ECONNRESET, "Connection reset by peer")
        return self._real.send(data, *a)

    def sendall(self, data, *a):
        return self.send(data, *a)

    def __getattr__(self, n):
        return getattr(self._real, n)

    def __setattr__(self, n, v):
        setattr(self._real, n, v)


def real_write_error_case(acc, seed, tag, dispatcher_name):
    from vf import realnet, probes
    from yowsup.layers.network import YowNetworkLayer
    from yowsup.layers.auth import YowAuthenticationProtocolLayer
    from yowsup.layers.protocol_iq.protocolentities import PingIqProtocolEntity
    disp = YowNetworkLayer.DISPATCHER_SOCKET if dispatcher_name == "socket" else YowNetworkLayer.DISPATCHER_ASYNCORE
    srv = realnet.LoopServer()
    srv.start()
    c = realnet.RealClient("c12real_%s" % tag.replace("/", "_"), srv.port, disp)
    w = {"tag": tag, "dispatcher": dispatcher_name, "kind": "write-error"}
    A, D = YowAuthenticationProtocolLayer.EVENT_AUTHED, YowNetworkLayer.EVENT_STATE_DISCONNECTED
    acc.count("real_write_error_cases")
    acc.count("real_write_error:" + dispatcher_name)
    acc.case(["real-write-error", dispatcher_name, tag], nontrivial=True)

    def bad(key, what, **extra):
        acc.violation("real-write-error:%s:%s" % (key, dispatcher_name), "%s dispatcher, a socket write fails with ECONNRESET: %s" % (dispatcher_name, what), dict(w, **extra))
        return False

    def send_in_thread(name):
        err = []

        def body():
            try:
                c.app.toLower(PingIqProtocolEntity())
            except Exception as e:  # noqa
                err.append((type(e).__name__, str(e)[:120]))
        t = threading.Thread(target=body, name=name)
        t.daemon = True
        t.start()
        t.join(6)
        return t, err
    try:
        c.start_loop()
        c.connect_async()
        if not c.wait(lambda: c.events(A) >= 1, 15):
            acc.inconc("%s: login over loopback did not complete" % tag)
            return False
        d = c.net._dispatcher
        proxy = SockProxy(d.socket)
        d.socket = proxy
        t1, e1 = send_in_thread("verif-writer-1")
        if proxy.failed == 0:
            acc.inconc("%s: the injected write failure was not reached" % tag)
            return False
        if t1.is_alive():
            st = probes.thread_states([t1]).get(t1.name, [])
            return bad("send-blocks", "the send that hit the failing write never returned (blocked in %s)" % [f[1] for f in st[:4]], stack=[list(f[:3]) for f in st[:10]])
        t2, e2 = send_in_thread("verif-writer-2")
        if t2.is_alive():
            st = probes.thread_states([t2]).get(t2.name, [])
            return bad("followup-send-blocks", "a later send from another thread never returned (blocked in %s)" % [f[1] for f in st[:4]], stack=[list(f[:3]) for f in st[:10]])
        if not c.wait(lambda: c.events(D) >= 1, 6):
            return bad("no-disconnected", "the failed connection was never announced as down (status %s)" % c.net.getStatus())
        held = probes.held_locks(c.stack)
        sl = getattr(d, "_send_lock", None)
        if sl is not None and sl.locked():
            held.append("dispatcher._send_lock")
        if held:
            time.sleep(0.2)
            held2 = probes.held_locks(c.stack) + (["dispatcher._send_lock"] if sl is not None and sl.locked() else [])
            if set(held) & set(held2):
                return bad("lock-held", "locks still held after the failure: %s" % sorted(set(held) & set(held2)))
        # the stack stays usable: reconnect and send
        c.wait(lambda: c.probe_top.event_names().count(D) >= 1, 5)
        t0 = time.time()
        while time.time() - t0 < 3 and any(t.is_alive() for t in c.net_threads):
            time.sleep(0.01)
        c.connect_async()
        if not c.wait(lambda: c.events(A) >= 2, 15):
            return bad("no-relogin", "after the failure a new connection does not log in (server states %s)" % [x.srv.state for x in srv.conns])
        n0 = len(srv.conns[-1].stanzas)
        t3, e3 = send_in_thread("verif-writer-3")
        if t3.is_alive() or not c.wait(lambda: len(srv.conns[-1].stanzas) > n0, 6):
            return bad("followup-after-reconnect", "a send after the reconnect did not reach the server")
        acc.count("real_write_error_ok")
        return True
    finally:
        # (in a helper thread: on a tree that leaks the dispatcher's lock the clean-up itself would block forever)
        def cleanup():
            try:
                c.app.disconnect()
            except Exception:
                pass
        ct = threading.Thread(target=cleanup, name="verif-cleanup")
        ct.daemon = True
        ct.start()
        ct.join(3)
        c.stop_loop()
        time.sleep(0.05)
        srv.stop()


def real_upward_failure_case(acc, seed, tag, dispatcher_name):
    """Real dispatcher over loopback: a layer raises while an incoming frame travels upward; the application reconnects at once
    from another thread (as soon as the connection is announced down), while the network thread may still be unwinding from
    the failure. The new connection must log in, stay up and carry traffic; the old connection is announced down once."""
    import sys
    from vf import realnet, probes, inject
    from yowsup.layers.network import YowNetworkLayer
    from yowsup.layers.auth import YowAuthenticationProtocolLayer
    from yowsup.layers.protocol_iq.protocolentities import PingIqProtocolEntity
    r = gen.rng(seed, ID, tag)
    disp = YowNetworkLayer.DISPATCHER_SOCKET if dispatcher_name == "socket" else YowNetworkLayer.DISPATCHER_ASYNCORE
    srv = realnet.LoopServer()
    srv.start()
    c = realnet.RealClient("c12up_%s" % tag.replace("/", "_"), srv.port, disp)
    w = {"tag": tag, "dispatcher": dispatcher_name, "kind": "upward-failure-reconnect"}
    A, D = YowAuthenticationProtocolLayer.EVENT_AUTHED, YowNetworkLayer.EVENT_STATE_DISCONNECTED
    acc.count("real_upward_failure_cases")
    acc.case(["real-upward-failure", dispatcher_name, tag], nontrivial=True)
    mon = sys.monitoring
    installed = [False]

    def bad(key, what, **extra):
        acc.violation("real-upward-failure:%s:%s" % (key, dispatcher_name), "%s dispatcher, a layer raises on an incoming frame and the application reconnects at once: %s" % (dispatcher_name, what), dict(w, **extra))
        return False
    try:
        c.start_loop()
        c.connect_async()
        if not c.wait(lambda: c.events(A) >= 1, 15):
            acc.inconc("%s: login over loopback did not complete" % tag)
            return False
        old_thread = c.net_threads[0]
        armed = [True]

        def boom(data):
            if armed[0]:
                armed[0] = False
                raise RuntimeError("verif: failure in a layer while a frame travels upward")
        c.probe_low.on_receive = boom
        at_point, resume, paused = threading.Event(), threading.Event(), [False]
        where = [None]

        def cb(code, lineno):
            if not code.co_filename.endswith(("network/layer.py", "dispatcher_asyncore.py", "dispatcher_socket.py")):
                return mon.DISABLE
            if paused[0] or threading.current_thread() is not old_thread or c.events(D) < 1:
                return None
            paused[0] = True
            where[0] = "%s:%d" % (code.co_name, lineno)
            at_point.set()
            resume.wait(5)
        try:
            mon.use_tool_id(inject.TOOL, "vf-upfail")
        except ValueError:
            mon.free_tool_id(inject.TOOL)
            mon.use_tool_id(inject.TOOL, "vf-upfail")
        installed[0] = True
        mon.register_callback(inject.TOOL, mon.events.LINE, cb)
        mon.set_events(inject.TOOL, mon.events.LINE)
        mon.restart_events()
        srv.conns[0].send_stanza(("ib", {"from": "s.whatsapp.net"}, [("dirty", {"type": "groups", "timestamp": "1600000000"}, [], None)], None))
        if not c.wait(lambda: c.events(D) >= 1, 10):
            return bad("no-disconnected", "the failed connection was never announced as down (status %s)" % c.net.getStatus())
        mid = at_point.wait(0.5)
        # the application reacts to the announcement as soon as it has reached it (the stack's loop has turned: reconnecting
        # before that is the known finding reconnect-up-before-loop-turn of C16), from its own thread, while the network thread
        # that ran the failed connection is held at its next line
        if not c.wait(lambda: c.probe_top.event_names().count(D) >= 1, 5):
            return bad("no-disconnected-at-top", "the down announcement never reached the application")
        if r.random() < 0.5:
            # the application tidies up first: it asks for a disconnect although the connection is gone already
            w["tidy_disconnect"] = True
            acc.count("real_upward_tidy_disconnects")
            try:
                c.app.disconnect()
            except Exception as e:  # noqa
                return bad("tidy-disconnect-raises:%s" % type(e).__name__, "disconnect() on a connection that is already down raised %r" % (e,))
            time.sleep(0.02)
        c.connect_async()
        if mid:
            c.wait(lambda: c.net.state != YowNetworkLayer.STATE_DISCONNECTED, 2)
            acc.count("real_upward_reconnect_while_unwinding")
            acc.seen("upward_unwind_points", where[0])
        resume.set()
        if not c.wait(lambda: c.events(A) >= 2, 15):
            return bad("no-relogin", "the new connection does not log in (server states %s, disconnected announced %d times)" % ([x.srv.state for x in srv.conns], c.events(D)))
        time.sleep(0.3)
        if not c.net.getStatus():
            return bad("new-connection-marked-down", "the new connection is alive at the server but the network layer reports it down (disconnected announced %d times)" % c.events(D))
        # (a disconnect request made while no connection is up lies outside the histories the connection-lifecycle property
        # quantifies over; the pinned asyncore path announces 'disconnected' once more for it, which is not judged here)
        if c.events(D) != 1 and not (w.get("tidy_disconnect") and c.events(D) == 2):
            return bad("disconnected-count", "one connection went down, 'disconnected' was announced %d times" % c.events(D))
        n0 = len(srv.conns[-1].stanzas)
        c.app.toLower(PingIqProtocolEntity())
        if not c.wait(lambda: len(srv.conns[-1].stanzas) > n0, 6):
            return bad("followup-lost", "a send on the new connection did not reach the server")
        acc.count("real_upward_failure_ok")
        return True
    finally:
        try:
            resume.set()
        except Exception:
            pass
        if installed[0]:
            mon.set_events(inject.TOOL, 0)
            mon.register_callback(inject.TOOL, mon.events.LINE, None)
            mon.free_tool_id(inject.TOOL)

        def cleanup():
            try:
                c.app.disconnect()
            except Exception:
                pass
        ct = threading.Thread(target=cleanup, name="verif-cleanup")
        ct.daemon = True
        ct.start()
        ct.join(3)
        c.stop_loop()
        time.sleep(0.05)
        srv.stop()


def shards(tier, seed, nworkers):
    q = tier == "quick"
    cases = all_cases(tier)
    nsh = 6 if q else nworkers
    specs = [{"kind": "cases", "cases": cases[i::nsh], "shard": i} for i in range(nsh)]
    for dname in ("socket", "asyncore"):
        specs.append({"kind": "real-write-error", "dispatcher": dname, "n": 3 if q else 40})
        specs.append({"kind": "real-upward-failure", "dispatcher": dname, "n": 3 if q else 40})
    for how in ("no-keys-answer", "send-raises"):
        specs.append({"kind": "keyfetch-failure", "how": how, "n": 3 if q else 40})
    return specs


def run(spec, acc):
    from vf import env
    env.shim_thirdparty()
    if spec["kind"] == "keyfetch-failure":
        for i in range(spec["n"]):
            keyfetch_failure_case(acc, spec["seed"], "kf/%s/%d" % (spec["how"], i), spec["how"])
        acc.sample({"keyfetch_failure": "message from a sender without session, the key request fails (%s), next message of that sender" % spec["how"]})
        return
    if spec["kind"] == "real-upward-failure":
        for i in range(spec["n"]):
            real_upward_failure_case(acc, spec["seed"], "ru/%s/%d" % (spec["dispatcher"], i), spec["dispatcher"])
        acc.sample({"real_upward_failure": "a layer raises on an incoming frame; reconnect from another thread while the network thread unwinds", "dispatcher": spec["dispatcher"]})
        return
    if spec["kind"] == "real-write-error":
        for i in range(spec["n"]):
            real_write_error_case(acc, spec["seed"], "rw/%s/%d" % (spec["dispatcher"], i), spec["dispatcher"])
        acc.sample({"real_write_error": "ECONNRESET injected into the dispatcher's next socket write over loopback", "dispatcher": spec["dispatcher"]})
        return
    for i, d in enumerate(spec["cases"]):
        tag = "case/%d/%d" % (spec["shard"], i)
        run_case(acc, spec["seed"], tag, d)
        if i < 2:
            acc.sample(d)


def replay(spec, acc):
    from vf import env
    env.shim_thirdparty()
    wt = spec["witness"]
    if wt.get("kind") == "keyfetch-failure":
        return keyfetch_failure_case(acc, spec["seed"], wt["tag"], wt["how"])
    if "desc" not in wt:
        tag = wt["tag"]
        fn = real_write_error_case if tag.startswith("rw/") else real_upward_failure_case
        return fn(acc, spec["seed"], tag, wt["dispatcher"])
    run_case(acc, spec["seed"], wt["tag"], wt["desc"])
