"""C03 — end-to-end messaging: exactly-once authentic delivery, only ciphertext on the wire."""
from vf import gen

ID = "C03"
LEVEL = "exploration"
RULE = ("one evaluation = one world run to quiescence: 2-4 real client stacks (network..axolotl..protocol..application "
        "layers, real profiles and key stores) against the server double, a generated conversation script (text, extended "
        "text, link preview, image, location, contact; 1:1 and groups; replies, bursts, crossing first contacts, restarts "
        "between messages), one of 5 scheduler strategies over who is served next, and server faults (duplicate delivery, "
        "one corrupted ciphertext per message). An offline checker over the recorded logs decides exactly-once delivery "
        "with original content/sender/group, no delivery to others, no phantom deliveries, delivery receipts at the sender, "
        "no marker of any message body in any frame that left a client. Non-trivial = >= 2 messages with a group or media "
        "message, or a fault/restart; distinct by (script, schedule trace) hash")
ASSUMPTIONS = ["the server double implements our reading of the server's routing (per-participant pkmsg/msg + shared skmsg, acks, receipts, offline queue, one one-time key per fetch)",
               "85% of the runs use the framed wiring (no noise/segment layers; frames are plaintext binary-XML, so the plaintext scan sees exactly what would be encrypted on the socket), 15% the library's complete default layer stack against the Noise responder double with the handshake worker thread synchronised between scheduler steps",
               "python-axolotl's block-aligned padding defect is shimmed (third party)",
               "restarts happen only when nothing is in flight; eventual delivery is judged at quiescence with every party connected"]
REQUIRED = ["runs", "wiring:full", "wiring:framed", "messages_sent", "deliveries_checked", "receipts_checked", "frames_scanned", "kind:text", "kind:image",
            "target:group", "target:direct", "fault:dup", "fault:corrupt", "restarts", "sessions_bootstrapped", "retries_seen", "lead_fields_checked", "kind:reply", "threaded_runs", "threaded_yields",
            "overtaken_cases", "overtaken_sender_held", "overtaken_retry_served_around_hold",
            "twin_cases", "twin_composer_held_in_id_generator", "twin_id_pairs_compared"]
TIMEOUT = {"quick": 600, "thorough": 7200}

KINDS = ["text", "text", "extended", "image", "location", "contact", "link", "reply"]
STRATEGIES = ["uniform", "app-first", "app-last", "newest", "starve"]


class Msg(object):
    def __init__(self, uid, sender, target, kind, r):
        self.uid, self.sender, self.target, self.kind = uid, sender, target, kind
        self.marker = "MK%sX%s" % (uid, gen.s_from(r, gen.ALNUM, 8))
        self.bmarker = ("BM%sX" % uid).encode() + gen.blob(r, 10)
        self.fields = {"t1": gen.unicode_text(r, 0, 12), "t2": gen.unicode_text(r, 0, 12), "n": r.randint(0, 4000), "empty": r.random() < 0.15}
        self.entity_id = None
        self.proto = None

    def build(self, W):
        from yowsup.layers.protocol_messages.protocolentities import TextMessageProtocolEntity, ExtendedTextMessageProtocolEntity
        from yowsup.layers.protocol_messages.protocolentities.attributes.attributes_message_meta import MessageMetaAttributes
        from yowsup.layers.protocol_messages.protocolentities.attributes.attributes_extendedtext import ExtendedTextAttributes
        from yowsup.layers.protocol_messages.protocolentities.attributes.attributes_image import ImageAttributes
        from yowsup.layers.protocol_messages.protocolentities.attributes.attributes_downloadablemedia import DownloadableMediaMessageAttributes
        from yowsup.layers.protocol_messages.protocolentities.attributes.attributes_location import LocationAttributes
        from yowsup.layers.protocol_messages.protocolentities.attributes.attributes_contact import ContactAttributes
        from yowsup.layers.protocol_messages.protocolentities.attributes.converter import AttributesConverter
        from yowsup.layers.protocol_media.protocolentities import (ImageDownloadableMediaMessageProtocolEntity, LocationMediaMessageProtocolEntity,
                                                                   ContactMediaMessageProtocolEntity, ExtendedTextMediaMessageProtocolEntity)
        f, mk = self.fields, self.marker
        meta = MessageMetaAttributes(recipient=self.target)
        opt = (lambda v: None) if f["empty"] else (lambda v: v)
        if self.kind == "text":
            e = TextMessageProtocolEntity(mk + " " + f["t1"], to=self.target)
        elif self.kind == "extended":
            e = ExtendedTextMessageProtocolEntity(ExtendedTextAttributes(mk + f["t1"], opt("http://x.example/" + mk), opt("http://x.example/c" + mk), opt(f["t2"]),
                                                                         opt("T" + mk), opt(self.bmarker), None), meta)
        elif self.kind == "reply":
            # a reply quoting an earlier message (the payload nests a second message)
            from yowsup.layers.protocol_messages.protocolentities.attributes.attributes_context_info import ContextInfoAttributes
            from yowsup.layers.protocol_messages.protocolentities.attributes.attributes_message import MessageAttributes
            ctx = ContextInfoAttributes(stanza_id="Q" + mk, participant="4915770000000@s.whatsapp.net", quoted_message=MessageAttributes(conversation="QUOTED " + mk + f["t2"]))
            e = ExtendedTextMessageProtocolEntity(ExtendedTextAttributes(mk + f["t1"], None, None, None, None, None, ctx), meta)
        elif self.kind == "link":
            e = ExtendedTextMediaMessageProtocolEntity(ExtendedTextAttributes(mk + f["t1"], "http://x.example/" + mk, "http://x.example/c" + mk, f["t2"], "T" + mk,
                                                                              self.bmarker, None), meta)
        elif self.kind == "image":
            dl = DownloadableMediaMessageAttributes("image/jpeg", f["n"], self.bmarker + b"sha", "https://mmg.example/" + mk, self.bmarker + b"key")
            e = ImageDownloadableMediaMessageProtocolEntity(ImageAttributes(dl, f["n"] % 999, 7, opt("cap " + mk + f["t1"]), opt(self.bmarker + b"thumb")), meta)
        elif self.kind == "location":
            e = LocationMediaMessageProtocolEntity(LocationAttributes(52.5 + f["n"] / 10000.0, 13.4, "N" + mk, opt(f["t1"] + mk), opt("http://maps.example/" + mk),
                                                                       jpeg_thumbnail=opt(self.bmarker)), meta)
        else:
            e = ContactMediaMessageProtocolEntity(ContactAttributes("D" + mk + f["t1"], ("BEGIN:VCARD\nFN:%s\nEND:VCARD" % mk).encode()), meta)
        self.proto = AttributesConverter.get().message_to_protobytes(e.message_attributes)
        return e


def gen_script(r, phones, groups, latecomer=None):
    """Returns (script, messages). A latecomer logs in (and uploads its keys) only after messages were sent to it."""
    msgs = []
    script = [{"op": "connect", "who": p} for p in phones if p != latecomer]
    r.shuffle(script)
    # every account completes its first login (key upload + reconnect) before the conversation starts
    script.append({"op": "wait-quiet"})
    n = r.randint(4, 16)
    uid = 0
    restarts = 0
    for i in range(n):
        c = r.random()
        if c < 0.08 and restarts < 2:
            # (one restart in four finds the key store locked by another process at first and has to be repeated)
            script.append({"op": "restart", "who": r.choice(phones), "busy": r.random() < 0.25})
            restarts += 1
            continue
        sender = r.choice(phones)
        if groups and r.random() < 0.45:
            g = r.choice([g for g in groups if "%s@s.whatsapp.net" % sender in groups[g]] or [None])
            if g is None:
                continue
            target = g
        else:
            target = "%s@s.whatsapp.net" % r.choice([p for p in phones if p != sender])
        burst = r.choice([1, 1, 1, 2, 3])
        for _ in range(burst):
            uid += 1
            m = Msg(uid, sender, target, r.choice(KINDS), r)
            msgs.append(m)
            script.append({"op": "send", "who": sender, "kind": m.kind, "uid": m.uid, "msg": m})
    if latecomer:
        senders = [i for i, a in enumerate(script) if a["op"] == "send"]
        pos = r.choice(senders[len(senders) // 3:] or [len(script)]) if senders else len(script)
        script.insert(pos, {"op": "connect", "who": latecomer})
        script.insert(pos + 1, {"op": "wait-quiet"})
        script = [a for i, a in enumerate(script) if not (a["op"] in ("send", "restart") and a["who"] == latecomer and i < pos)]
        msgs = [a["msg"] for a in script if a["op"] == "send"]
    return script, msgs


def entity_texts(e):
    """All text and byte content of a delivered entity, for marker matching."""
    out_s, out_b = [], []

    def walk(o, depth=0):
        if o is None or depth > 6:
            return
        if isinstance(o, str):
            out_s.append(o)
        elif isinstance(o, (bytes, bytearray)):
            out_b.append(bytes(o))
        elif isinstance(o, (list, tuple)):
            for x in o:
                walk(x, depth + 1)
        elif hasattr(o, "__dict__") and type(o).__module__.startswith("yowsup"):
            for k, v in vars(o).items():
                walk(v, depth + 1)
    walk(getattr(e, "message_attributes", None))
    return out_s, out_b


def check_world(acc, W, msgs, groups, w):
    from yowsup.layers.protocol_messages.protocolentities.attributes.converter import AttributesConverter
    ok = True

    sfx = ":recipient-without-keys" if w.get("latecomer") else ""

    def bad(key, what, extra=None):
        if sfx:
            # in this scenario everything follows from one mechanism (plaintext fallback for recipients without keys)
            cat = "plaintext-on-wire" if key.startswith("plaintext") else "exception" if key.startswith("exception") else "not-exactly-once"
            key = "recipient-without-keys:" + cat
            what += " [scenario: %s had not uploaded keys when first addressed]" % w["latecomer"]
        acc.violation(key, what, dict(w, **(extra or {})))
        return False

    # exceptions escaping into the application / dispatcher callers
    for c in W.clients.values():
        for e in c.errors:
            ok = bad("exception:%s:%s" % (e["type"], e["where"]), "%s escaped from the stack during %s: %s" % (e["type"], e["what"], e["msg"]))
    for l in W.log:
        if l[0] == "exception" and l[2] == "detached":
            ok = bad("exception-detached:%s" % l[3], "exception in a deferred event handler: %s" % (l[4],))
    if W.peer_errors:
        ok = bad("peer-cannot-decrypt", "the strict Noise peer could not parse/decrypt a client's byte stream: %s" % (W.peer_errors[0],))
    if W.decode_errors:
        ok = bad("client-frame-invalid", "a client emitted a frame the reference decoder rejects: %s" % (W.decode_errors[0],))
    sent = [m for m in msgs if m.entity_id is not None]
    by_marker = {m.marker: m for m in sent}
    deliveries = [(p, e, g) for p, k, e, g in W.app_log if k == "message"]
    receipts = [(p, e) for p, k, e, g in W.app_log if k == "receipt"]
    seen = {}  # (uid, phone) -> count
    for phone, e, g in deliveries:
        ss, bb = entity_texts(e)
        hit = None
        for mk, m in by_marker.items():
            if any(mk in s for s in ss):
                hit = m
                break
        acc.count("deliveries_checked")
        if hit is None:
            kind = type(e).__name__
            ok = bad("phantom-delivery:%s" % kind, "application of %s was shown a %s that corresponds to no sent message (id %s from %s, participant %s)"
                     % (phone, kind, e.getId(), e.getFrom(), e.getParticipant()), {"entity": kind})
            continue
        m = hit
        seen[(m.uid, phone)] = seen.get((m.uid, phone), 0) + 1
        is_group = "-" in m.target.split("@")[0]
        recips = [j.split("@")[0] for j in groups[m.target] if j.split("@")[0] != m.sender] if is_group else [m.target.split("@")[0]]
        if phone not in recips:
            ok = bad("delivered-to-outsider", "message %s from %s to %s was delivered to %s" % (m.uid, m.sender, m.target, phone), {"uid": m.uid})
            continue
        sj = "%s@s.whatsapp.net" % m.sender
        if is_group:
            if e.getFrom() != m.target or e.getParticipant() != sj:
                ok = bad("wrong-group-identity", "group message %s delivered with from=%s participant=%s" % (m.uid, e.getFrom(), e.getParticipant()), {"uid": m.uid})
        elif e.getFrom() != sj:
            ok = bad("wrong-sender", "message %s delivered with from=%s" % (m.uid, e.getFrom()), {"uid": m.uid})
        if e.getId() != m.entity_id:
            ok = bad("wrong-id", "message %s delivered under id %s (sent as %s)" % (m.uid, e.getId(), m.entity_id), {"uid": m.uid})
        # the leading field of every kind, read from the delivered entity itself (independent of the library's converter)
        ma = e.message_attributes
        f_, mk_ = m.fields, m.marker
        try:
            lead = {"text": lambda: (ma.conversation, mk_ + " " + f_["t1"]),
                    "extended": lambda: (ma.extended_text.text, mk_ + f_["t1"]),
                    "link": lambda: (ma.extended_text.text, mk_ + f_["t1"]),
                    "reply": lambda: ((ma.extended_text.text, ma.extended_text.context_info.quoted_message.conversation), (mk_ + f_["t1"], "QUOTED " + mk_ + f_["t2"])),
                    "image": lambda: (ma.image.downloadablemedia_attributes.url, "https://mmg.example/" + mk_),
                    "location": lambda: (ma.location.name, "N" + mk_),
                    "contact": lambda: (ma.contact.display_name, "D" + mk_ + f_["t1"])}[m.kind]()
        except Exception as ex:  # noqa
            lead = ("<%s: %s>" % (type(ex).__name__, ex), None)
        acc.count("lead_fields_checked")
        if lead[0] != lead[1]:
            ok = bad("content-lead-field:%s" % m.kind, "message %s (%s) reached %s with %r where the sender wrote %r" % (m.uid, m.kind, phone, lead[0], lead[1]), {"uid": m.uid})
            continue
        got = AttributesConverter.get().message_to_protobytes(e.message_attributes)
        if got != m.proto:
            # a sender key distribution riding along is not content; compare without it
            from yowsup.layers.protocol_messages.proto.e2e_pb2 import Message
            a, b = Message(), Message()
            a.ParseFromString(got)
            b.ParseFromString(m.proto)
            a.ClearField("sender_key_distribution_message")
            if a.SerializeToString() != b.SerializeToString():
                ok = bad("content-differs:%s" % m.kind, "message %s (%s) reached %s with different content" % (m.uid, m.kind, phone), {"uid": m.uid})
    for m in sent:
        is_group = "-" in m.target.split("@")[0]
        recips = [j.split("@")[0] for j in groups[m.target] if j.split("@")[0] != m.sender] if is_group else [m.target.split("@")[0]]
        for p in recips:
            n = seen.get((m.uid, p), 0)
            tgt = "group" if is_group else "direct"
            if n != 1:
                faults = W.server.faults.get(m.entity_id, {})
                ftag = "+".join(sorted(k for k, v in faults.items() if v)) or "nofault"
                first = "first" if m.first_to_target else "later"
                nretry = len([t for ph, t in W.wire_receipts if ph == p and t[1].get("id") == m.entity_id and t[1].get("type") == "retry"])
                ftag += "+retry%d" % min(nretry, 2) if nretry else ""
                ok = bad("delivered-%s:%s:%s" % ("twice" if n > 1 else "never", tgt, ftag),
                         "message %s (%s, %s, %s) was shown %d times to %s" % (m.uid, m.kind, tgt, ftag, n, p), {"uid": m.uid})
            # delivery receipt at the sender's application
            sj = "%s@s.whatsapp.net" % p
            rc = [e for ph, e in receipts if ph == m.sender and e.getId() == m.entity_id and e.getType() in (None, "read")
                  and ((e.getParticipant() == sj) if is_group else (e.getFrom() == sj))]
            acc.count("receipts_checked")
            if not rc and n >= 1:
                ok = bad("receipt-missing:%s" % tgt, "sender %s never saw %s's delivery receipt for message %s" % (m.sender, p, m.uid), {"uid": m.uid})
            faults = W.server.faults.get(m.entity_id, {})
            if faults.get("dup") and n >= 1:
                wr = [t for ph, t in W.wire_receipts if ph == p and t[1].get("id") == m.entity_id and t[1].get("type") in (None, "read")]
                if len(wr) < 2:
                    ok = bad("duplicate-not-reacknowledged", "server delivered message %s twice to %s but got %d receipts" % (m.uid, p, len(wr)), {"uid": m.uid})
            if faults.get("corrupt") and n >= 1:
                wr = [t for ph, t in W.wire_receipts if ph == p and t[1].get("id") == m.entity_id and t[1].get("type") == "retry"]
                if not wr:
                    ok = bad("no-retry-after-corruption", "corrupted message %s to %s was not followed by a retry receipt" % (m.uid, p), {"uid": m.uid})
                else:
                    acc.count("retries_seen")
    # plaintext scan over every frame that left any client
    needles = []
    for m in sent:
        needles.append((m.marker.encode("utf-8"), m.uid))
        needles.append((m.bmarker, m.uid))
    for phone, frame in W.wire_frames + W.cipher_frames:
        acc.count("frames_scanned")
        for nd, uid in needles:
            if nd in frame:
                m_ = [x for x in sent if x.uid == uid][0]
                keyless = W.server.keyless_answers.get((phone, m_.target))
                extra = {"uid": uid, "frame_head": frame[:60].hex(), "to": m_.target, "keyless_answer": keyless,
                         "server_log_tail": [list(map(str, l)) for l in W.log if l[0] in ("keys-none", "upload", "skipped")][-12:]}
                if keyless and not sfx:
                    # the mechanism of the known finding, identified by what the server double saw (the directory had no keys for
                    # the recipient when the sender asked), not by the scenario
                    acc.violation("recipient-without-keys:plaintext-on-wire", "a frame leaving %s contains plaintext of message %s: the directory had no keys for %s (%s) when %s asked"
                                  % (phone, uid, m_.target, keyless, phone), dict(w, **extra))
                    ok = False
                else:
                    ok = bad("plaintext-on-wire", "a frame leaving %s contains plaintext of message %s" % (phone, uid), extra)
                break
    return ok


def one_run(acc, seed, tag):
    from vf import world
    r = gen.rng(seed, ID, tag)
    nacc = r.choice([2, 2, 3, 3, 4])
    phones = ["49%d%s" % (i + 1, gen.s_from(r, gen.DIGITS, 8)) for i in range(nacc)]
    strategy = r.choice(STRATEGIES)
    if strategy == "starve":
        strategy = "starve:" + r.choice(phones)
    wiring = "full" if r.random() < 0.15 else "framed"
    W = world.World(seed=r.randrange(1 << 30), strategy=strategy, batch=r.choice([30, 40, 60]), wiring=wiring)
    if wiring == "full" and r.random() < 0.5:
        cr = gen.rng(seed, ID, tag + "/chunks")
        W.chunker = lambda b: gen.cut(b, gen.random_cuts(cr, len(b), cr.choice([0, 1, 2, 5])))
    W.server.low_keys = 12
    W.server.skmsg_first = gen.rng(seed, ID, tag + "/srvshape").random() < 0.3
    W.server.retry_participant_empty = gen.rng(seed, ID, tag + "/srvshape2").random() < 0.3
    threaded = wiring == "framed" and r.random() < 0.25
    W.threaded_sends = threaded
    groups = {}
    for gi in range(r.choice([0, 1, 1, 2])):
        members = r.sample(phones, r.randint(2, nacc))
        gj = "%s-%d@g.us" % (members[0], 1500000000 + gi)
        groups[gj] = ["%s@s.whatsapp.net" % p for p in members]
        W.server.groups[gj] = {"participants": groups[gj], "subject": "G%d" % gi, "creator": groups[gj][0]}
    latecomer = r.choice(phones) if (nacc >= 2 and not groups and r.random() < 0.1) else None
    script, msgs = gen_script(r, phones, groups, latecomer)
    # (the identity auto-trust option is on for a third of the accounts: nobody changes identity in these runs, so it must
    # not make any difference)
    from yowsup.layers.axolotl.props import PROP_IDENTITY_AUTOTRUST
    orr = gen.rng(seed, ID, tag + "/options")
    for p in phones:
        if orr.random() < 0.34:
            W.add_client(p, props={PROP_IDENTITY_AUTOTRUST: True})
            acc.count("accounts_with_autotrust")
        else:
            W.add_client(p)
    seen_targets = set()
    for a in script:
        if a["op"] == "send":
            m = a["msg"]
            key = (m.sender, m.target)
            m.first_to_target = key not in seen_targets
            seen_targets.add(key)

            def mk(m=m):
                e = m.build(W)
                m.entity_id = e.getId()
                fl = {}
                if m.fault == "dup":
                    fl["dup"] = True
                elif m.fault == "corrupt":
                    fl["corrupt"] = True
                if fl:
                    W.server.faults[m.entity_id] = fl
                return e
            c = r.random()
            m.fault = "dup" if c < 0.12 else "corrupt" if c < 0.24 else None
            a["build"] = mk
    W.script = script
    w = {"tag": tag, "strategy": strategy, "wiring": wiring, "accounts": nacc, "latecomer": latecomer, "groups": {g: len(v) for g, v in groups.items()},
         "script": [(a["op"], a.get("who"), a.get("kind"), a["msg"].target if "msg" in a else None, a["msg"].fault if "msg" in a else None) for a in script]}
    w["threaded_sends"] = threaded
    yi = None
    if threaded:
        import random as _random
        from vf import inject
        acc.count("threaded_runs")
        yi = inject.YieldInjector(_random.Random(r.randrange(1 << 30)), ("yowsup/axolotl/store/sqlite/litesessionstore.py", "yowsup/axolotl/store/sqlite/liteaxolotlstore.py",
                                  "yowsup/axolotl/store/sqlite/liteidentitykeystore.py", "yowsup/axolotl/store/sqlite/liteprekeystore.py", "yowsup/axolotl/store/sqlite/litesenderkeystore.py",
                                  "yowsup/axolotl/manager.py", "yowsup/layers/axolotl/layer_send.py", "yowsup/layers/axolotl/layer_receive.py", "yowsup/layers/axolotl/layer_base.py"),
                                  p=r.choice([0.05, 0.2, 0.4]))
        yi.__enter__()
    try:
        quiet = W.run(max_steps=6000)       # (quiet runs need a few hundred steps: 506 at most in a quick tier)
        if yi:
            yi.__exit__(None, None, None)
            acc.count("threaded_yields", yi.yields)
            yi = None
    except Exception as e:  # noqa: harness-level failure
        if yi:
            yi.__exit__(None, None, None)
        import traceback
        acc.inconc("%s: world crashed: %s" % (tag, traceback.format_exc()[-600:]))
        W.close()
        return
    acc.count("runs")
    acc.count("wiring:" + wiring)
    if W.idle_timeouts:
        acc.inconc("%s: handshake threads did not become idle within 20 s (%d times)" % (tag, W.idle_timeouts))
        W.close()
        return
    acc.count("strategy:" + strategy.split(":")[0])
    if latecomer:
        acc.count("latecomer_runs")
    acc.maxi("steps_at_quiescence", W.steps)
    if not quiet:
        acc.violation("no-quiescence", "the system did not become quiescent within %d scheduler steps (livelock); retry receipts seen by the server: %d"
                      % (W.steps, len([1 for ph, t in W.wire_receipts if t[1].get("type") == "retry"])), w)
        W.close()
        return
    sent = [m for m in msgs if m.entity_id is not None]
    acc.count("messages_sent", len(sent))
    for m in sent:
        acc.count("kind:" + m.kind)
        acc.count("target:" + ("group" if "-" in m.target.split("@")[0] else "direct"))
        if m.fault:
            acc.count("fault:" + m.fault)
    acc.count("restarts", W.counters.get("restarts", 0))
    acc.count("sessions_bootstrapped", W.counters.get("srv_prekeys_served", 0))
    acc.count("scheduler_steps", W.steps)
    acc.count("script_actions_skipped", W.counters.get("script_skipped", 0))
    acc.count("server_key_stock_exhausted", W.counters.get("srv_prekeys_exhausted", 0))
    acc.count("server_asked_for_keys", W.server.ask_keys_ids)
    from vf.evidence import h
    nontriv = (len(sent) >= 2 and any(m.kind not in ("text",) or "-" in m.target.split("@")[0] for m in sent)) or any(m.fault for m in sent) or W.counters.get("restarts", 0) > 0
    acc.case(h([w["script"], W.trace]), nontrivial=nontriv)
    acc.seen("traces", h(W.trace))
    if check_world(acc, W, msgs, groups, w):
        acc.count("run_ok")
    W.close()
    return w


def overtaken_case(acc, seed, tag):
    """Race placement (found by a thorough run, 1 schedule in 25 000): an application thread has encrypted a group message and is
    held before it hands the stanza down; meanwhile the network thread serves a retry receipt for the sender's FIRST (damaged)
    group message, i.e. encrypts a sender key re-distribution at a later chain iteration, and writes it. Every message has to be
    shown exactly once all the same."""
    from vf import world, inject
    r = gen.rng(seed, ID, tag)
    nacc = r.choice([2, 2, 3])
    phones = ["49%d%s" % (i + 1, gen.s_from(r, gen.DIGITS, 8)) for i in range(nacc)]
    W = world.World(seed=r.randrange(1 << 30), strategy=r.choice(["uniform", "newest", "app-last"]), batch=r.choice([30, 40]))
    W.server.low_keys = 12
    W.server.skmsg_first = r.random() < 0.3
    for p in phones:
        W.add_client(p)
    S = phones[0]
    gj = "%s-%d@g.us" % (S, 1500000000)
    groups = {gj: ["%s@s.whatsapp.net" % p for p in phones]}
    W.server.groups[gj] = {"participants": groups[gj], "subject": "G", "creator": groups[gj][0]}
    msgs = []
    seen_targets = set()

    def send(sender, target, kind, fault=None):
        m = Msg(len(msgs) + 1, sender, target, kind, r)
        m.fault = fault
        m.first_to_target = (sender, target) not in seen_targets
        seen_targets.add((sender, target))
        msgs.append(m)

        def mk(m=m):
            e = m.build(W)
            m.entity_id = e.getId()
            if m.fault:
                W.server.faults[m.entity_id] = {m.fault: True}
            return e
        return {"op": "send", "who": sender, "kind": kind, "uid": m.uid, "msg": m, "build": mk}

    def run_actions(actions):
        W.script = list(W.script[:W.script_pos]) + actions
        return W.run(max_steps=W.steps + 6000)
    w = {"kind": "overtaken", "tag": tag, "accounts": nacc, "latecomer": None}
    try:
        scenario = r.choice(["group-first-damaged"] * 3 + ["direct-damaged", "direct-crossing"])
        w["scenario"] = scenario
        acc.count("overtaken_scenario:" + scenario)
        R1 = phones[1]
        acts = [{"op": "connect", "who": p} for p in phones] + [{"op": "wait-quiet"}]
        if scenario == "direct-damaged" or (scenario == "group-first-damaged" and r.random() < 0.7):
            # the members know each other pairwise already
            for p in phones[1:]:
                acts += [send(S, "%s@s.whatsapp.net" % p, r.choice(KINDS)), {"op": "wait-quiet"}]
        if not run_actions(acts):
            acc.inconc("%s: not quiet after the opening" % tag)
            return
        if scenario == "group-first-damaged":
            # the sender's first message to the group, damaged on its way to the members; stepped until the sender has encrypted
            # and written it (its sender key exists), before the server has relayed it
            W.do_action(send(S, gj, r.choice(KINDS), "corrupt"))
            guard = 0
            while W.clients[S].manager().load_senderkey(gj).isEmpty():
                guard += 1
                if not W.step() or guard > 500:
                    acc.inconc("%s: the first group message was never encrypted" % tag)
                    return
            target2 = gj
        elif scenario == "direct-damaged":
            # a damaged 1:1 message is written; its retry (new keys, new session) is served while the next one is held
            W.do_action(send(S, "%s@s.whatsapp.net" % R1, r.choice(KINDS), "corrupt"))
            target2 = "%s@s.whatsapp.net" % R1
        else:
            # first contact in both directions at once: the peer's first message is on its way while ours is held
            W.do_action(send(R1, "%s@s.whatsapp.net" % S, r.choice(KINDS)))
            target2 = "%s@s.whatsapp.net" % R1
        W.threaded_sends = True
        wide = r.random() < (0.35 if scenario == "group-first-damaged" else 0.7)
        if wide:
            # anywhere on the sender thread's way through the send layer (any statement of layer_send.py / layer_base.py)
            k, funcs = r.randint(1, 25), None
            acc.count("overtaken_wide_placements")
        else:
            k, funcs = r.choice([1, 1, 2, 4]), ("sendEncEntities",)
        with inject.PauseAt(("yowsup/layers/axolotl/layer_send.py", "yowsup/layers/axolotl/layer_base.py", "yowsup/axolotl/manager.py",
                             "yowsup/layers/protocol_messages/layer.py") if wide else ("yowsup/layers/axolotl/layer_send.py",),
                            k, "verif-app-sender-0", hold=r.choice([1.0, 1.5]), funcs=funcs) as pa:
            W.do_action(send(S, target2, r.choice(KINDS)))
            if not pa.at_point.wait(3 if wide else 10):
                if not wide and scenario != "direct-crossing":
                    acc.inconc("%s: the sender thread never reached the place between encryption and hand-over" % tag)
                    return
                # (the thread made fewer than k steps in these files: an unplaced threaded send)
                acc.count("overtaken_wide_not_reached")
            acc.count("overtaken_sender_held")
            w["held_at"] = pa.where
            n0 = len([1 for ph, t in W.wire_receipts if t[1].get("type") == "retry"])
            # (on a tree where encryption and hand-over are one step the network thread waits here until the hold is over)
            steps = 0
            while W.step() and steps < 3000:
                steps += 1
            if len([1 for ph, t in W.wire_receipts if t[1].get("type") == "retry"]) > n0 or any(t[1].get("type") == "retry" for ph, t in W.wire_receipts):
                acc.count("overtaken_retry_served_around_hold")
            if scenario == "direct-crossing":
                acc.count("overtaken_crossing_first_contacts")
            pa.release()
            quiet = W.run(max_steps=W.steps + 6000)
        if not quiet:
            acc.inconc("%s: not quiet after the held message was released" % tag)
            return
        # ... and the conversation goes on
        more = [send(r.choice(phones), gj, r.choice(KINDS)) for _ in range(r.randint(0, 2))] + [send(R1, "%s@s.whatsapp.net" % S, r.choice(KINDS)) for _ in range(r.randint(0, 1))]
        more = [a for a in more]
        W.threaded_sends = False
        if not run_actions(more + [{"op": "wait-quiet"}]):
            acc.inconc("%s: not quiet at the end" % tag)
            return
        acc.count("overtaken_cases")
        from vf.evidence import h
        acc.case(h(["overtaken", tag, w.get("held_at")]), nontrivial=True)
        w["script"] = [("send", m.sender, m.kind, m.target, m.fault) for m in msgs]
        if check_world(acc, W, msgs, groups, w):
            acc.count("overtaken_ok")
    except Exception:  # noqa: harness-level failure
        import traceback
        acc.inconc("%s: overtaken case crashed: %s" % (tag, traceback.format_exc()[-500:]))
    finally:
        try:
            W.join_senders(5.0)
            W.close()
        except Exception:  # noqa
            pass
    return w


def twin_ids_case(acc, seed, tag):
    """Two application threads of one account each compose a message and send it (composing assigns the message id). The first
    is held inside the id generator while the second composes and sends; the second message may be damaged in transit, so that
    the retry is served from the sender's queue BY ID. Every message shown exactly once, with its own receipt, and the two ids
    differ (a receipt names its message by id only)."""
    from vf import world, inject
    import threading as _th
    r = gen.rng(seed, ID, tag)
    phones = ["49%d%s" % (i + 1, gen.s_from(r, gen.DIGITS, 8)) for i in range(2)]
    S, R = phones
    W = world.World(seed=r.randrange(1 << 30), strategy=r.choice(["uniform", "newest", "app-last"]), batch=30)
    for p in phones:
        W.add_client(p)
    msgs = []
    seen_targets = set()

    def msg(sender, target, kind, fault=None):
        m = Msg(len(msgs) + 1, sender, target, kind, r)
        m.fault = fault
        m.first_to_target = (sender, target) not in seen_targets
        seen_targets.add((sender, target))
        msgs.append(m)
        return m

    def compose(m):
        e = m.build(W)
        m.entity_id = e.getId()
        if m.fault:
            W.server.faults.setdefault(m.entity_id, {})[m.fault] = True
        return e

    def send(m):
        return {"op": "send", "who": m.sender, "kind": m.kind, "uid": m.uid, "msg": m, "build": (lambda m=m: compose(m))}

    def run_actions(actions):
        W.script = list(W.script[:W.script_pos]) + actions
        return W.run(max_steps=W.steps + 6000)
    w = {"kind": "twin-ids", "tag": tag, "accounts": 2, "latecomer": None}
    jid = lambda p: "%s@s.whatsapp.net" % p  # noqa
    try:
        if not run_actions([{"op": "connect", "who": S}, {"op": "connect", "who": R}, {"op": "wait-quiet"},
                            send(msg(S, jid(R), "text")), {"op": "wait-quiet"}, send(msg(R, jid(S), "text")), {"op": "wait-quiet"}]):
            acc.inconc("%s: not quiet after the opening" % tag)
            return
        c = W.clients[S]
        fa, fb = r.choice([(None, None), ("corrupt", None), ("corrupt", None), (None, "corrupt"), ("dup", None), ("corrupt", "dup")])
        ma = msg(S, jid(R), r.choice(KINDS), fa)
        mb = msg(S, jid(R), r.choice(KINDS), fb)

        def app_thread(m):
            def body():
                e = compose(m)
                W.log.append(("app-send", m.sender, m.uid, e.getId()))
                c.app.toLower(e)
            c.guarded(body, "send:" + m.kind)
        ta = _th.Thread(target=app_thread, args=(ma,), name="verif-app-sender-0", daemon=True)
        tb = _th.Thread(target=app_thread, args=(mb,), name="verif-app-sender-1", daemon=True)
        k = r.choice([1, 2, 2, 2])
        with inject.PauseAt(("yowsup/structs/protocolentity.py",), k, "verif-app-sender-0", hold=1.0, funcs=("_generateId",)) as pa:
            W.sender_threads.append(ta)
            ta.start()
            if not pa.at_point.wait(10):
                acc.inconc("%s: the composing thread never reached the id generator" % tag)
                return
            acc.count("twin_composer_held_in_id_generator")
            w["held_at"] = pa.where
            W.sender_threads.append(tb)
            tb.start()
            tb.join(3.0)       # (where the generator is guarded by a lock the second thread waits until the hold is over)
            pa.release()
        if not W.run(max_steps=W.steps + 6000):
            acc.inconc("%s: not quiet after the two sends" % tag)
            return
        acc.count("twin_cases")
        from vf.evidence import h
        acc.case(h(["twin", tag, w.get("held_at")]), nontrivial=True)
        w["script"] = [("send", m.sender, m.kind, m.target, m.fault) for m in msgs]
        ok = True
        if ma.entity_id is None or mb.entity_id is None:
            acc.inconc("%s: a message was not composed" % tag)
            return
        acc.count("twin_id_pairs_compared")
        if ma.entity_id == mb.entity_id:
            acc.violation("two-messages-one-id", "two messages composed by two threads of one account got the same id %s: their receipts (and a retry request) cannot be told apart"
                          % ma.entity_id, w)
            ok = False
        if check_world(acc, W, msgs, {}, w) and ok:
            acc.count("twin_ok")
    except Exception:  # noqa: harness-level failure
        import traceback
        acc.inconc("%s: twin-ids case crashed: %s" % (tag, traceback.format_exc()[-500:]))
    finally:
        try:
            W.join_senders(5.0)
            W.close()
        except Exception:  # noqa
            pass
    return w


def shards(tier, seed, nworkers):
    q = tier == "quick"
    nsh = 6 if q else nworkers
    return [{"kind": "runs", "shard": i, "n": (420 if q else 25000) // nsh} for i in range(nsh)] + \
           [{"kind": "overtaken", "shard": i, "n": (12 if q else 320) // nsh} for i in range(nsh)] + \
           [{"kind": "twin-ids", "shard": i, "n": (12 if q else 320) // nsh} for i in range(nsh)]


def run(spec, acc):
    from vf import env
    env.shim_thirdparty()
    if spec["kind"] == "twin-ids":
        for i in range(spec["n"]):
            w = twin_ids_case(acc, spec["seed"], "twin/%d/%d" % (spec["shard"], i))
            if i < 1 and w:
                acc.sample(w)
        return
    if spec["kind"] == "overtaken":
        for i in range(spec["n"]):
            w = overtaken_case(acc, spec["seed"], "ovt/%d/%d" % (spec["shard"], i))
            if i < 1 and w:
                acc.sample(w)
        return
    for i in range(spec["n"]):
        tag = "run/%d/%d" % (spec["shard"], i)
        w = one_run(acc, spec["seed"], tag)
        if i < 2 and w:
            acc.sample(w)


def replay(spec, acc):
    from vf import env
    env.shim_thirdparty()
    if spec["witness"]["tag"].startswith("twin/"):
        twin_ids_case(acc, spec["seed"], spec["witness"]["tag"])
        return
    if spec["witness"].get("kind") == "overtaken" or spec["witness"]["tag"].startswith("ovt/"):
        overtaken_case(acc, spec["seed"], spec["witness"]["tag"])
        return
    one_run(acc, spec["seed"], spec["witness"]["tag"])
