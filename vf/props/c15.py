"""C15 — media encryption: lossless round trip, tamper detection, WhatsApp-compatible layout."""
import base64
import hashlib
import hmac
import json
import os

from vf import gen

ID = "C15"
LEVEL = "exploration"
RULE = ("one evaluation = one (plaintext length, key, kind) encrypt/decrypt pair judged against an independent "
        "HKDF+AES-CBC+HMAC implementation, or one tamper attempt (byte flip / truncation / wrong key / wrong kind) that "
        "must raise; lengths 0..64 exhaustively x 4 kinds x keys, every byte position and truncation of short "
        "ciphertexts; non-trivial = block-aligned or empty plaintext, or a tamper case; distinct by (kind, key no, length, tamper)")
ASSUMPTIONS = ["`cryptography`'s AES-CBC primitive and hashlib's HMAC-SHA256 are trusted",
               "the reference implementation is anchored on the real-world (key, plaintext, ciphertext) triple frozen in data/mediacipher_vector.json",
               "an accepted forgery that decrypts to the same plaintext would not be flagged (80-bit MAC: does not occur)"]
REQUIRED = ["concurrent_cases", "concurrent_ok", "concurrent_yields", "roundtrip_cases", "aligned_or_empty", "tamper_cases", "tamper_rejected", "anchor_ok", "wrapper_cases", "consumer_cases", "consumer_ok", "consumer_empty_ok", "consumer_tamper_rejected"]

KINDS = {"image": b"WhatsApp Image Keys", "audio": b"WhatsApp Audio Keys", "video": b"WhatsApp Video Keys",
         "document": b"WhatsApp Document Keys"}
KIND_NAMES = sorted(KINDS)


# ---- independent implementation --------------------------------------------------------------
def hkdf(ikm, info, n):
    prk = hmac.new(b"\x00" * 32, ikm, hashlib.sha256).digest()
    out, t, i = b"", b"", 1
    while len(out) < n:
        t = hmac.new(prk, t + info + bytes([i]), hashlib.sha256).digest()
        out += t
        i += 1
    return out[:n]


def ref_parts(key, info):
    d = hkdf(key, info, 112)
    return d[:16], d[16:48], d[48:80]


def ref_encrypt(pt, key, info):
    from cryptography.hazmat.primitives.ciphers import Cipher, algorithms, modes
    from cryptography.hazmat.backends import default_backend
    iv, ck, mk = ref_parts(key, info)
    pad = 16 - len(pt) % 16
    e = Cipher(algorithms.AES(ck), modes.CBC(iv), backend=default_backend()).encryptor()
    ct = e.update(pt + bytes([pad]) * pad) + e.finalize()
    return ct + hmac.new(mk, iv + ct, hashlib.sha256).digest()[:10]


def anchor(acc):
    v = json.load(open(os.path.join(os.path.dirname(os.path.dirname(os.path.dirname(os.path.abspath(__file__)))), "data", "mediacipher_vector.json")))
    k, p, c = (base64.b64decode(v[x]) for x in ("key_b64", "plaintext_b64", "ciphertext_b64"))
    if ref_encrypt(p, k, KINDS[v["kind"]]) != c:
        acc.inconc("reference media cipher does not reproduce the frozen real-world vector")
        return False
    acc.count("anchor_ok")
    return True


# ---- monitors -------------------------------------------------------------------------------
def plaintext(r, n):
    c = r.random()
    if n == 0:
        return b""
    if c < 0.25:
        # last byte a valid pad value: an unpadded aligned block would be stripped wrongly
        body = gen.blob(r, n)
        k = r.randint(1, min(16, n))
        return body[:n - k] + bytes([k]) * k
    if c < 0.35:
        return bytes(n)
    return gen.blob(r, n)


def roundtrip(acc, mc, pt, key, kind, tag, via_wrapper=False):
    info = KINDS[kind]
    n = len(pt)
    w = {"op": "roundtrip", "len": n, "kind": kind, "key": key.hex(), "pt": pt.hex() if n <= 96 else None, "wrapper": via_wrapper, "tag": tag}
    acc.count("roundtrip_cases")
    if via_wrapper:
        acc.count("wrapper_cases")
    cls = "empty" if n == 0 else ("aligned" if n % 16 == 0 else "unaligned")
    acc.count("len_class:" + cls)
    if cls != "unaligned":
        acc.count("aligned_or_empty")
    try:
        ct = getattr(mc, "encrypt_" + kind)(pt, key) if via_wrapper else mc.encrypt(pt, key, info)
    except Exception as e:  # noqa
        acc.violation("encrypt-raises:%s:%s" % (cls, type(e).__name__), "encrypt raised %r for a %s plaintext of %d bytes" % (e, cls, n), w)
        return None
    ok = True
    want = ref_encrypt(pt, key, info)
    if bytes(ct) != want:
        ok = False
        acc.violation("layout:%s" % cls, "ciphertext differs from the WhatsApp layout computed independently (%s plaintext, %d bytes: got %d bytes, want %d)"
                      % (cls, n, len(ct), len(want)), w)
    try:
        back = getattr(mc, "decrypt_" + kind)(ct, key) if via_wrapper else mc.decrypt(ct, key, info)
        if bytes(back) != pt:
            ok = False
            acc.violation("roundtrip-differs:%s" % cls, "decrypt(encrypt(p)) != p for a %s plaintext of %d bytes (got %d bytes back)" % (cls, n, len(back)), w)
    except Exception as e:  # noqa
        ok = False
        acc.violation("roundtrip-raises:%s:%s" % (cls, type(e).__name__), "decrypt(encrypt(p)) raised %r for a %s plaintext of %d bytes" % (e, cls, n), w)
    # a peer's (reference) ciphertext must decrypt as well
    try:
        back = mc.decrypt(want, key, info)
        if bytes(back) != pt:
            ok = False
            acc.violation("peer-decrypt-differs:%s" % cls, "decrypt of a reference ciphertext returned other bytes (%s, %d bytes)" % (cls, n), w)
    except Exception as e:  # noqa
        ok = False
        acc.violation("peer-decrypt-raises:%s:%s" % (cls, type(e).__name__), "decrypt of a reference ciphertext raised %r (%s, %d bytes)" % (e, cls, n), w)
    if ok:
        acc.count("roundtrip_ok")
    return want


def must_reject(acc, mc, ct, key, info, pt, what, w):
    acc.count("tamper_cases")
    acc.count("tamper:" + what)
    try:
        out = mc.decrypt(ct, key, info)
    except Exception:
        acc.count("tamper_rejected")
        return
    if bytes(out) == pt:
        acc.violation("tamper-accepted-same:%s" % what, "tampered input (%s) was accepted (same plaintext)" % what, w)
    else:
        acc.violation("tamper-accepted:%s" % what, "tampered input (%s) was accepted and yielded different plaintext" % what, w)


def tamper_all(acc, mc, r, pt, key, kind, flips):
    """Every byte position x flip patterns, every truncation, wrong key, wrong kinds — on the reference ciphertext."""
    info = KINDS[kind]
    ct = ref_encrypt(pt, key, info)
    base = {"op": "tamper", "len": len(pt), "kind": kind, "key": key.hex(), "pt": pt.hex()}
    for pos in range(len(ct)):
        for fl in flips:
            bad = bytearray(ct)
            bad[pos] ^= fl
            acc.case_enum()
            must_reject(acc, mc, bytes(bad), key, info, pt, "flip", dict(base, pos=pos, flip=fl))
    for n in range(len(ct)):
        acc.case_enum()
        must_reject(acc, mc, ct[:n], key, info, pt, "truncate", dict(base, trunc=n))
    acc.case_enum()
    must_reject(acc, mc, ct + b"\x00", key, info, pt, "extend", dict(base, extend=1))
    wrong = bytes([key[0] ^ 1]) + key[1:]
    acc.case_enum()
    must_reject(acc, mc, ct, wrong, info, pt, "wrong-key", dict(base, wrong_key=wrong.hex()))
    for other in KIND_NAMES:
        if other != kind:
            acc.case_enum()
            must_reject(acc, mc, ct, key, KINDS[other], pt, "wrong-kind", dict(base, wrong_kind=other))


# ---------------------------------------------------------------------------------------------
# the in-tree consumer of the cipher: the demos' download/decrypt/store worker
def _stub_thirdparty():
    """tqdm and requests are not installed in the sandbox; the worker only needs an iterator wrapper and is never asked to fetch."""
    import sys
    import types
    if "tqdm" not in sys.modules:
        m = types.ModuleType("tqdm")

        class tqdm(object):
            def __init__(self, iterable=None, **kw):
                self.it = iterable

            def __iter__(self):
                return iter(self.it)

            def update(self, n=1):
                pass

            def set_description(self, d):
                pass
        m.tqdm = tqdm
        sys.modules["tqdm"] = m
    if "requests" not in sys.modules:
        m = types.ModuleType("requests")

        def get(*a, **k):
            raise RuntimeError("no network in the sandbox")
        m.get = get
        sys.modules["requests"] = m


def consumer_case(acc, r, kind, n, tamper=False):
    """An incoming media message as the media layer delivers it, handed to the demos' SinkWorker with the download replaced by
    the ciphertext: the stored file must be the original bytes (empty files included); a tampered ciphertext stores nothing."""
    import os
    import shutil
    from vf import env, treeeq
    env.shim_thirdparty()
    _stub_thirdparty()
    from vf.props import c10
    from yowsup.demos.common.sink_worker import SinkWorker
    from yowsup.layers.protocol_media.mediacipher import MediaCipher
    from yowsup.layers.protocol_media.protocolentities import (MediaMessageProtocolEntity, ImageDownloadableMediaMessageProtocolEntity,
                                                               AudioDownloadableMediaMessageProtocolEntity, VideoDownloadableMediaMessageProtocolEntity,
                                                               DocumentDownloadableMediaMessageProtocolEntity)
    from yowsup.layers.protocol_messages.protocolentities.attributes.attributes_message_meta import MessageMetaAttributes
    cls = {"image": ImageDownloadableMediaMessageProtocolEntity, "audio": AudioDownloadableMediaMessageProtocolEntity,
           "video": VideoDownloadableMediaMessageProtocolEntity, "document": DocumentDownloadableMediaMessageProtocolEntity}[kind]
    key = gen.blob(r, 32)
    pt = plaintext(r, n)
    ct = ref_encrypt(pt, key, KINDS[kind])
    if tamper and len(ct):
        b = bytearray(ct)
        b[r.randrange(len(b))] ^= 1 << r.randrange(8)
        ct = bytes(b)
    _, msg = c10.gen_message(r, kind, with_skdm=False)
    dl = getattr(msg, kind).downloadablemedia_attributes
    dl.media_key, dl.url = key, "https://mmg.example.net/d/f/%s.enc" % gen.s_from(r, gen.ALNUM, 10)
    dl.mimetype = {"image": "image/jpeg", "audio": "audio/ogg; codecs=opus", "video": "video/mp4", "document": "application/pdf"}[kind]
    if kind == "document":
        msg.document.file_name = "doc-%s.pdf" % gen.s_from(r, gen.ALNUM, 6)
    meta = MessageMetaAttributes(id=gen.msgid(r), sender=gen.jid(r), timestamp=1600000000, notify="n")
    ent = cls.fromProtocolTreeNode(MediaMessageProtocolEntity(kind, msg, meta).toProtocolTreeNode())
    d = os.path.join(env.SCRATCH, "c15sink", "%d" % os.getpid())
    shutil.rmtree(d, ignore_errors=True)
    os.makedirs(d)
    w = {"op": "consumer", "kind": kind, "len": n, "tamper": tamper}
    acc.count("consumer_cases")
    acc.case(["sink", kind, n, tamper, key.hex()], nontrivial=(n % 16 == 0))
    wk = SinkWorker(d)
    wk._download = lambda url: ct
    wk.enqueue(ent)
    wk.enqueue(None)
    wk.start()
    wk.join(20)
    files = sorted(os.listdir(d))
    try:
        if tamper:
            if files:
                acc.violation("consumer:tampered-stored", "a tampered %s download was stored as %s" % (kind, files), w)
            else:
                acc.count("consumer_tamper_rejected")
            return
        if len(files) != 1:
            acc.violation("consumer:not-stored:%s" % ("empty" if n == 0 else "nonempty"), "a %d-byte %s file was downloaded and decrypted but %d files were stored" % (n, kind, len(files)), w)
            return
        got = open(os.path.join(d, files[0]), "rb").read()
        if got != pt:
            acc.violation("consumer:content-differs", "stored %s file differs from the original (%d vs %d bytes)" % (kind, len(got), len(pt)), w)
            return
        acc.count("consumer_ok")
        if n == 0:
            acc.count("consumer_empty_ok")
    finally:
        shutil.rmtree(d, ignore_errors=True)


def concurrent_case(acc, seed, tag):
    """One MediaCipher object used by several threads at once (a downloader per chat, say), each with its own keys and kinds, with
    thread switches injected inside mediacipher.py: every call returns what it returns alone."""
    import threading, random as _random
    from vf import inject
    from yowsup.layers.protocol_media.mediacipher import MediaCipher
    r = gen.rng(seed, ID, tag)
    mc = MediaCipher()
    acc.count("concurrent_cases")
    problems = []
    done = [0]
    lock = threading.Lock()

    def worker(k, rr):
        for i in range(25):
            kind = rr.choice(KIND_NAMES)
            info = getattr(MediaCipher, "INFO_" + {"image": "IMAGE", "audio": "AUDIO", "video": "VIDEO", "document": "DOCUM"}[kind])
            key = gen.blob(rr, 32)
            pt = plaintext(rr, rr.choice([0, 1, 15, 16, 17, rr.randint(0, 300), rr.randint(0, 5000)]))
            try:
                ct = getattr(mc, "encrypt_" + kind)(pt, key)
                if bytes(ct) != ref_encrypt(pt, key, info):
                    problems.append(("encrypt-differs", kind, len(pt)))
                    return
                back = getattr(mc, "decrypt_" + kind)(ref_encrypt(pt, key, info), key)
                if bytes(back) != pt:
                    problems.append(("decrypt-differs", kind, len(pt)))
                    return
                bad_ct = bytearray(ref_encrypt(pt, key, info))
                bad_ct[rr.randrange(len(bad_ct))] ^= 1 << rr.randrange(8)
                try:
                    out = getattr(mc, "decrypt_" + kind)(bytes(bad_ct), key)
                    if bytes(out) != pt:
                        problems.append(("tamper-accepted", kind, len(pt)))
                        return
                except Exception:
                    pass
            except Exception as e:  # noqa
                problems.append(("raises:" + type(e).__name__, kind, len(pt)))
                return
            with lock:
                done[0] += 1
    ths = [threading.Thread(target=worker, args=(k, _random.Random(r.randrange(1 << 30))), name="verif-cipher-%d" % k) for k in range(4)]
    yi = inject.YieldInjector(_random.Random(r.randrange(1 << 30)), ("protocol_media/mediacipher.py",), p=0.4)
    with yi:
        for t in ths:
            t.daemon = True
            t.start()
        for t in ths:
            t.join(60)
    acc.count("concurrent_yields", yi.yields)
    acc.count("concurrent_calls_ok", done[0])
    acc.case(["conc", tag], nontrivial=True)
    if problems:
        what, kind, n = problems[0]
        acc.violation("concurrent:%s" % what, "one MediaCipher object used by 4 threads at once: %s for a %s payload of %d bytes (alone, the same call is correct)" % (what, kind, n),
                      {"op": "concurrent", "tag": tag})
    else:
        acc.count("concurrent_ok")


def keys_for(seed, n):
    r = gen.rng(seed, ID, "keys")
    return [gen.blob(r, 32) for _ in range(n)]


def shards(tier, seed, nworkers):
    nkeys = 8 if tier == "quick" else 24
    specs = []
    per = max(1, nkeys // (4 if tier == "quick" else nworkers))
    for k0 in range(0, nkeys, per):
        specs.append({"kind": "lengths", "keys": list(range(k0, min(nkeys, k0 + per))), "nkeys": nkeys, "maxlen": 64 if tier == "quick" else 160})
    # tamper: lengths 0..64 split over shards
    lens = list(range(0, 65))
    nsh = 4 if tier == "quick" else nworkers
    for i in range(nsh):
        specs.append({"kind": "tamper", "lens": lens[i::nsh], "flips": [1, 0x80, 0xFF] if tier == "quick" else "all<=32"})
    specs.append({"kind": "random", "n": 150 if tier == "quick" else 3000, "maxlen": 1 << 20})
    specs.append({"kind": "consumer", "n": 40 if tier == "quick" else 2000})
    for k in range(1 if tier == "quick" else 8):
        specs.append({"kind": "concurrent", "rep": k, "n": 6 if tier == "quick" else 60})
    return specs


def run(spec, acc):
    from yowsup.layers.protocol_media.mediacipher import MediaCipher
    seed = spec["seed"]
    mc = MediaCipher()
    if not anchor(acc):
        return
    if spec["kind"] == "concurrent":
        for i in range(spec["n"]):
            concurrent_case(acc, seed, "conc/%d/%d" % (spec["rep"], i))
        acc.sample({"concurrent": "4 threads share one MediaCipher object, thread switches injected at 40% of the line events in mediacipher.py"})
        return
    if spec["kind"] == "consumer":
        for kind in ("image", "audio", "video", "document"):
            for n in (0, 1, 15, 16, 17, 32):
                consumer_case(acc, gen.rng(seed, ID, "sink/%s/%d" % (kind, n)), kind, n)
        for i in range(spec["n"]):
            r = gen.rng(seed, ID, "sinkr/%d" % i)
            consumer_case(acc, r, r.choice(["image", "audio", "video", "document"]), r.choice([0, 16, r.randint(0, 100), r.randint(0, 5000)]), tamper=r.random() < 0.3)
        acc.sample({"consumer": "demos' SinkWorker: download stubbed with the ciphertext, stored file compared with the original"})
        return
    if spec["kind"] == "lengths":
        keys = keys_for(seed, spec["nkeys"])
        for ki in spec["keys"]:
            for kind in KIND_NAMES:
                for n in range(0, spec["maxlen"] + 1):
                    r = gen.rng(seed, ID, "len/%d/%s/%d" % (ki, kind, n))
                    pt = plaintext(r, n)
                    acc.case(["rt", kind, ki, n], nontrivial=(n % 16 == 0))
                    roundtrip(acc, mc, pt, keys[ki], kind, "len", via_wrapper=(n % 3 == 0))
        acc.sample({"lengths": "0..%d" % spec["maxlen"], "kinds": KIND_NAMES, "keys": [keys[k].hex() for k in spec["keys"][:2]]})
    elif spec["kind"] == "tamper":
        keys = keys_for(seed, 4)
        for n in spec["lens"]:
            r = gen.rng(seed, ID, "tamper/%d" % n)
            kind = KIND_NAMES[n % 4]
            pt = plaintext(r, n)
            flips = spec["flips"]
            if flips == "all<=32":
                flips = list(range(1, 256)) if n <= 32 else [1, 2, 0x10, 0x80, 0xFF]
            tamper_all(acc, mc, r, pt, keys[n % 4], kind, flips)
        acc.sample({"tamper_lengths": spec["lens"][:8], "flips": spec["flips"], "positions": "every byte of ciphertext+tag, every truncation"})
    elif spec["kind"] == "random":
        for i in range(spec["n"]):
            r = gen.rng(seed, ID, "rand/%d" % i)
            c = r.random()
            if c < 0.5:
                n = 16 * r.randint(0, 4096)
            elif c < 0.9:
                n = r.randint(0, 70000)
            else:
                n = r.randint(0, spec["maxlen"])
            if r.random() < 0.2:
                n = r.choice([spec["maxlen"], spec["maxlen"] - 1, 65536, 65535])
            key = gen.blob(r, 32)
            kind = r.choice(KIND_NAMES)
            pt = plaintext(r, n)
            acc.case(["rr", kind, key.hex(), n], nontrivial=(n % 16 == 0))
            want = roundtrip(acc, mc, pt, key, kind, "rand/%d" % i, via_wrapper=r.random() < 0.5)
            if want is not None and n > 0:
                info = KINDS[kind]
                for _ in range(3):
                    pos = r.randrange(len(want))
                    bad = bytearray(want)
                    bad[pos] ^= 1 << r.randrange(8)
                    acc.case(["rrt", kind, key.hex(), n, pos], nontrivial=True)
                    must_reject(acc, mc, bytes(bad), key, info, pt, "flip", {"op": "tamper1", "len": n, "kind": kind, "key": key.hex(), "pos": pos, "tag": "rand/%d" % i})
            if i < 3:
                acc.sample({"len": n, "kind": kind, "key": key.hex()})


def replay(spec, acc):
    from yowsup.layers.protocol_media.mediacipher import MediaCipher
    mc = MediaCipher()
    w = spec["witness"]
    key = bytes.fromhex(w["key"])
    if w.get("pt") is not None:
        pt = bytes.fromhex(w["pt"])
    else:
        pt = bytes(w["len"])
    if w["op"] == "roundtrip":
        roundtrip(acc, mc, pt, key, w["kind"], "replay", via_wrapper=w.get("wrapper", False))
    else:
        tamper_all(acc, mc, None, pt, key, w["kind"], [w.get("flip", 1)])
