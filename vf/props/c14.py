"""C14 — one-time prekeys: none lost or re-offered between generation, upload and use."""
import binascii

from vf import gen

ID = "C14"
LEVEL = "exploration"
RULE = ("one evaluation = one history of 5-30 events over {login, server asks for keys, upload result delivered / error "
        "reply / connection lost before the result, disconnect, restart, a peer's first message consuming a one-time key, "
        "replay of that first message} for one account (real full client stack, real key store) in the server-double "
        "world with generation batches of 3-15 keys. After every event (run to quiescence) a reference model of offered / "
        "confirmed / consumed keys is compared with the library's pending-upload set, its stored keys and the upload "
        "stanzas seen on the wire; signatures are verified independently. Non-trivial = >= 1 unconfirmed upload, restart or "
        "consumption; distinct by (event list, batch) hash")
ASSUMPTIONS = ["an upload error reply makes the library raise by design; the raise is taken as the report of the error",
               "the server stores uploaded keys when it processes the request, whether or not its reply gets through",
               "small generation batches (the statement's quantifier); the production batch (812) is used in a few thorough histories",
               "histories are sampled"]
REQUIRED = ["histories", "checkpoints", "uploads_seen", "keys_offered", "keys_confirmed", "unconfirmed_uploads", "reoffers_seen",
            "keys_consumed", "replays", "restarts", "signatures_verified", "error_replies", "overlap_cases", "other_requests_during_upload", "signed_prekey_checks", "self_chats", "boundary_histories", "stray_iq_during_upload", "login_with_pending_keys_checked", "reduced_success_logins"]
TIMEOUT = {"quick": 600, "thorough": 7200}

EVENTS = ["login", "ask-keys", "ask-keys-overlap", "other-requests-during-upload", "ask-keys-lost-reply", "ask-keys-error", "disconnect", "restart", "peer-first-message", "replay-first-message",
          "login-lost-reply", "server-closes", "stray-iq-during-upload", "self-chat"]


def hexid(b):
    return int(binascii.hexlify(b), 16)


class Model(object):
    def __init__(self):
        self.offered = {}        # id -> pub (bytes, 32) of every key ever offered
        self.signed_offered = {} # signed prekey id -> pub
        self.upload_of = {}      # upload iq id -> [ids]
        self.confirmed = set()   # ids whose upload result reached the client
        self.consumed = set()    # ids handed out by the server and used in a delivered first message
        self.handed_out = {}     # id -> pub served by the directory


def store_keys(client):
    """id -> public key bytes (32) of the one-time keys currently in the account's store; and the pending-upload ids."""
    m = client.manager()
    st = m._store
    allk = {}
    for rec in st.loadPreKeys():
        allk[rec.getId()] = rec.getKeyPair().getPublicKey().serialize()[1:]
    pending = set(rec.getId() for rec in m.load_unsent_prekeys())
    return allk, pending


def checkpoint(acc, W, A, model, w, where):
    """Compare the model with the library's view; returns False on violation."""
    from axolotl.ecc.curve import Curve
    from axolotl.ecc.djbec import DjbECPublicKey
    acc.count("checkpoints")
    c = W.clients[A]
    srv_acc = W.server.accounts.get(c.jid)
    uploads = srv_acc.uploads if srv_acc else []
    ident = c.manager().identity.getPublicKey().serialize()[1:]
    regid = c.manager().registration_id
    ok = True

    def bad(key, what):
        acc.violation(key, "%s (after event %d: %s)" % (what, where[0], where[1]), dict(w, at=list(where)))
        return False

    # uploads seen on the wire since the last checkpoint
    for up in uploads:
        if up["id"] in model.upload_of:
            continue
        acc.count("uploads_seen")
        ids = []
        for kid, val in up["keys"]:
            i = hexid(kid)
            ids.append(i)
            acc.count("keys_offered")
            if len(kid) != 3 or len(val) != 32:
                ok = bad("upload-key-format", "offered key id/value have lengths %d/%d" % (len(kid), len(val)))
            if i in model.offered and model.offered[i] != val and i in model.consumed:
                # the id is free again: ids continue after the highest STORED id, and the key this id named was used up by a
                # first message (removed from the store, gone from the server). The statement speaks of the key an id maps to
                # while it is on offer: a new key under the id starts a new life
                acc.count("ids_reused_after_consumption")
                model.consumed.discard(i)
                model.confirmed.discard(i)
                model.handed_out.pop(i, None)
                del model.offered[i]
            if i in model.offered:
                acc.count("reoffers_seen")
                if model.offered[i] != val:
                    ok = bad("id-offered-with-two-keys", "key id %d was offered with two different public keys" % i)
                if i in model.confirmed:
                    ok = bad("confirmed-key-reoffered", "key id %d was offered again although its upload had been confirmed" % i)
            model.offered[i] = val
        model.upload_of[up["id"]] = ids
        if up["identity"] != ident:
            ok = bad("upload-identity", "upload carries another identity key than the account's")
        if hexid(up["registration"]) != regid:
            ok = bad("upload-registration-id", "upload carries registration id %d, the account has %d" % (hexid(up["registration"]), regid))
        sk_id, sk_val, sk_sig = up["skey"]
        # a signed prekey id names one key for ever: the server (and peers that fetched it) hold what was offered first
        prev_sk = model.signed_offered.get(hexid(sk_id))
        if prev_sk is not None and prev_sk != sk_val:
            ok = bad("signed-id-offered-with-two-keys", "signed prekey id %d was offered to the server with two different keys (the first one is gone locally)" % hexid(sk_id))
        model.signed_offered[hexid(sk_id)] = sk_val
        try:
            good = Curve.verifySignature(DjbECPublicKey(ident), b"\x05" + sk_val, sk_sig)
        except Exception as e:  # noqa
            good = False
        acc.count("signatures_verified")
        if not good:
            ok = bad("upload-signature", "signed prekey signature does not verify under the account's identity")
        # the offered keys must be what the store holds under these ids right now
        allk, _ = store_keys(c)
        for i in ids:
            if i not in model.consumed and allk.get(i) != model.offered[i]:
                ok = bad("offered-key-not-in-store", "offered key id %d maps to %s in the local store" % (i, "nothing" if i not in allk else "another key"))
    # confirmations: an upload is confirmed when its result reached the client
    delivered_results = set(d[2] for d in W.delivered if d[0] == A and d[1] == "iq" and d[3] == "result")
    for uid, ids in model.upload_of.items():
        if uid in delivered_results:
            for i in ids:
                if i not in model.confirmed:
                    model.confirmed.add(i)
                    acc.count("keys_confirmed")
    # the signed prekey the server holds (latest upload) is the same key the local store holds under that id
    if uploads:
        sk_id, sk_val, _ = uploads[-1]["skey"]
        acc.count("signed_prekey_checks")
        try:
            st_ = c.manager()._store
            rec = st_.loadSignedPreKey(hexid(sk_id)) if st_.containsSignedPreKey(hexid(sk_id)) else None
            have = rec.getKeyPair().getPublicKey().serialize()[1:] if rec is not None else None
        except Exception as e:  # noqa
            have = "<%s>" % type(e).__name__
        if have != sk_val:
            ok = bad("signed-prekey-not-in-store", "signed prekey id %d offered to the server is %s in the local store" % (hexid(sk_id), "missing" if have is None else "another key"))
    allk, pending = store_keys(c)
    # pending-upload set == keys in the store that no confirmed upload contained
    want_pending = set(i for i in allk if i not in model.confirmed)
    if pending != want_pending:
        lost = sorted(want_pending - pending)[:5]
        extra = sorted(pending - want_pending)[:5]
        if extra:
            ok = bad("pending-although-confirmed", "keys %s count as pending upload although an upload containing them was confirmed" % extra)
        if lost:
            ok = bad("not-pending-although-unconfirmed", "keys %s do not count as pending although no upload containing them was confirmed" % lost)
    # availability until consumption
    for i, pub in model.offered.items():
        if i in model.consumed:
            if i in allk:
                ok = bad("consumed-key-still-stored", "key id %d was used by a first message but is still in the store" % i)
        elif allk.get(i) != pub:
            ok = bad("offered-key-lost", "offered key id %d is %s in the local store before any message consumed it" % (i, "missing" if i not in allk else "another key"))
    return ok


def one_history(acc, seed, tag, batch=None, forced_events=None):
    from vf import world
    from yowsup.layers.protocol_messages.protocolentities import TextMessageProtocolEntity
    r = gen.rng(seed, ID, tag)
    batch = batch or r.choice([3, 5, 8, 12, 15])
    W = world.World(seed=r.randrange(1 << 30), strategy=r.choice(["uniform", "app-first", "newest"]), batch=batch)
    A, P = "4911" + gen.s_from(r, gen.DIGITS, 7), "4922" + gen.s_from(r, gen.DIGITS, 7)
    # stack options an application may set: none of them changes which keys count as uploaded
    from yowsup.layers.interface import YowInterfaceLayer
    from yowsup.layers.axolotl.props import PROP_IDENTITY_AUTOTRUST
    orr = gen.rng(seed, ID, tag + "/options")
    props = {}
    if orr.random() < 0.4:
        props[YowInterfaceLayer.PROP_RECONNECT_ON_STREAM_ERR] = orr.random() < 0.5
    if orr.random() < 0.3:
        props[PROP_IDENTITY_AUTOTRUST] = orr.random() < 0.7
    for k_, v_ in props.items():
        acc.count("option:%s=%s" % (k_.rsplit(".", 1)[-1], v_))
    W.add_client(A, props=props)
    W.add_client(P)
    n = r.randint(5, 30)
    events = ["login"] + [r.choice(EVENTS) for _ in range(n - 1)]
    if r.random() < 0.25:
        # the very first upload of the account is never confirmed, and the process may die right then
        events[0] = "login-lost-reply"
        if r.random() < 0.6:
            events.insert(1, "restart")
    if forced_events:
        events = list(forced_events)
    w = {"tag": tag, "batch": batch, "events": events, "forced": bool(forced_events)}
    model = Model()
    state = {"pkmsg": None, "peer_ready": False, "markers": 0, "delivered_before": 0}
    ok = True
    nontriv = False

    def run_actions(actions):
        W.script = list(W.script[:W.script_pos]) + actions
        return W.run(max_steps=W.steps + 20000)

    reduced = [False]

    def expected_errors():
        c = W.clients[A]
        rest = [e for e in c.errors if "Sent keys were not accepted" not in e["msg"]]
        if reduced[0]:
            # the library cannot parse a <success> without 'creation' / 't' (TypeError from int(None), after it has announced the
            # login): how it reports that is not this property's business, what happens to the pending keys is
            rest = [e for e in rest if not (e["type"] == "TypeError" and "int()" in e["msg"])]
        return rest

    try:
        for ei, ev in enumerate(events):
            c = W.clients[A]
            if ev in ("login", "login-lost-reply"):
                if ev == "login-lost-reply":
                    W.server.hold_upload_reply.add(A)
                if not c.connected:
                    _, pend0 = store_keys(c)
                    acct0 = W.server.accounts.get(c.jid)
                    n_up0 = len(acct0.uploads) if acct0 else 0
                    if r.random() < 0.2:
                        # the server's success reply comes without one of its optional attributes
                        W.server.reduced_success_drop = (r.choice(["creation", "t", "props", "location"]),)
                        W.server.reduced_success_once.add(A)
                        reduced[0] = True
                        acc.count("reduced_success_logins")
                    run_actions([{"op": "connect", "who": A}])
                    # "keys whose upload was not confirmed are offered again at the next login": the login was accepted by the
                    # server (success sent on this connection), so an upload containing every key that was pending has to follow
                    acct1 = W.server.accounts.get(W.clients[A].jid)
                    ups = (acct1.uploads[n_up0:] if acct1 else [])
                    offered_now = set(hexid(k[0]) for u in ups for k in u["keys"])
                    if pend0 and W.counters.get("srv_success_sent:" + A, 1) and not pend0 <= offered_now:
                        acc.count("login_with_pending_keys_checked")
                        acc.violation("pending-keys-not-offered-at-login", "the account logged in with %d keys pending upload (ids %s...) but %s" % (len(pend0), sorted(pend0)[:4],
                                      "no upload followed" if not ups else "the upload(s) that followed lacked %s" % sorted(pend0 - offered_now)[:4]), dict(w, at=[ei, ev]))
                        ok = False
                    elif pend0:
                        acc.count("login_with_pending_keys_checked")
                if ev == "login-lost-reply":
                    W.server.hold_upload_reply.discard(A)
                    if any(u["confirmed"] is False for u in (W.server.accounts.get(c.jid).uploads if W.server.accounts.get(c.jid) else [])):
                        nontriv = True
                        acc.count("unconfirmed_uploads")
                    W.server_close(A)
                    run_actions([])
            elif ev in ("ask-keys", "ask-keys-lost-reply", "ask-keys-error"):
                if not c.ready():
                    continue
                if ev == "ask-keys-lost-reply":
                    W.server.hold_upload_reply.add(A)
                elif ev == "ask-keys-error":
                    W.server.upload_reply_error.add(A)
                    acc.count("error_replies")
                W.server.ask_for_keys(A, r.choice([0, 1, 5, 9, 10, 11, 100, 811, 812, r.randint(0, 2000)]))
                run_actions([])
                if ev == "ask-keys-lost-reply":
                    W.server.hold_upload_reply.discard(A)
                    acc.count("unconfirmed_uploads")
                    nontriv = True
                    W.server_close(A)
                    run_actions([])
                elif ev == "ask-keys-error":
                    nontriv = True
            elif ev == "ask-keys-overlap":
                # the server asks again while the previous upload is still unanswered; the results arrive afterwards
                if not c.ready():
                    continue
                W.server.delay_upload_reply.add(A)
                k = r.choice([2, 2, 3])
                for _ in range(k):
                    W.server.ask_for_keys(A, r.choice([0, 1, 5, 9, 10, 11, 100, 811, 812, r.randint(0, 2000)]))
                    run_actions([])
                W.server.delay_upload_reply.discard(A)
                held = len(W.server.delayed_results.get(A, []))
                acc.count("overlapping_uploads", held)
                if held >= 2:
                    nontriv = True
                    acc.count("overlap_cases")
                mode = r.choice(["fifo", "fifo", "lifo", "lose-last"])
                W.server.release_upload_replies(A, "lifo" if mode == "lifo" else "fifo", keep_last=1 if mode == "lose-last" else 0)
                run_actions([])
                if mode == "lose-last":
                    W.server_close(A)
                    run_actions([])
            elif ev == "ask-keys-twice-lost":
                # two key requests in a row whose uploads are never confirmed: two batches are pending at the next login
                if not c.ready():
                    continue
                W.server.delay_upload_reply.add(A)
                for _ in range(2):
                    W.server.ask_for_keys(A, 0)
                    run_actions([])
                W.server.delay_upload_reply.discard(A)
                W.server.delayed_results.pop(A, None)
                acc.count("unconfirmed_uploads", 2)
                nontriv = True
                W.server_close(A)
                run_actions([])
            elif ev == "other-requests-during-upload":
                # while an upload is unanswered the application issues other requests (pings) that the server answers at once:
                # their results are not the upload's confirmation, whatever ids they carry
                if not c.ready():
                    continue
                from yowsup.layers.protocol_iq.protocolentities import PingIqProtocolEntity
                W.server.delay_upload_reply.add(A)
                W.server.ask_for_keys(A, r.randint(0, 5))
                run_actions([])
                k = r.choice([1, 2, 3, 5])
                srv_acc_ = W.server.accounts.get(c.jid)
                up_id = srv_acc_.uploads[-1]["id"] if srv_acc_ and srv_acc_.uploads else None
                ping_ids = []

                def mk_ping():
                    e_ = PingIqProtocolEntity()
                    ping_ids.append(e_.getId())
                    return e_
                j = 0
                # at least k pings; and, where ids are counters, keep going (bounded) until the pings' ids have passed the
                # outstanding upload's id, so that an id scheme with per-kind counters would produce the same id
                while j < k or (j < 40 and up_id and up_id.isdigit() and ping_ids and ping_ids[-1].isdigit() and int(ping_ids[-1]) < int(up_id)):
                    run_actions([{"op": "send", "who": A, "kind": "ping", "uid": "ping%d-%d" % (ei, j), "build": mk_ping}])
                    j += 1
                k = j
                if up_id in ping_ids:
                    acc.count("request_ids_collided_with_upload")
                acc.count("other_requests_during_upload", k)
                W.server.delay_upload_reply.discard(A)
                mode = r.choice(["release", "lose", "lose"])
                if mode == "release":
                    W.server.release_upload_replies(A)
                    run_actions([])
                else:
                    W.server.delayed_results.pop(A, None)
                    W.server_close(A)
                    run_actions([])
                    nontriv = True
            elif ev == "self-chat":
                # a note to oneself: the account fetches the keys of its own number and builds a session with itself
                if not c.ready():
                    continue
                acc.count("self_chats")
                mk_ = "SELF%d" % ei
                run_actions([{"op": "send", "who": A, "kind": "text", "uid": mk_, "build": lambda mk_=mk_: TextMessageProtocolEntity(mk_, to=c.jid)}])
            elif ev == "stray-iq-during-upload":
                # while an upload is unanswered an <iq> arrives that carries the upload's id but is no reply (a request of the
                # server's, or a stanza whose type is missing / unknown): it confirms nothing; the real answer is then lost
                if not c.ready():
                    continue
                W.server.delay_upload_reply.add(A)
                W.server.ask_for_keys(A, r.randint(0, 5))
                run_actions([])
                srv_acc_ = W.server.accounts.get(c.jid)
                up_id = srv_acc_.uploads[-1]["id"] if srv_acc_ and srv_acc_.uploads and W.server.delayed_results.get(A) else None
                W.server.delay_upload_reply.discard(A)
                if up_id is not None:
                    ty = r.choice(["get", "set", None, "probe"])
                    acc.count("stray_iq_during_upload")
                    acc.count("stray_iq_type:%s" % ty)
                    W.server.to_client(A, ("iq", dict({"id": up_id, "from": "s.whatsapp.net", "xmlns": "urn:xmpp:ping"}, **({"type": ty} if ty else {})), [], None))
                    run_actions([])
                    nontriv = True
                W.server.delayed_results.pop(A, None)
                W.server_close(A)
                run_actions([])
            elif ev == "disconnect":
                if c.connected:
                    run_actions([{"op": "disconnect", "who": A}])
            elif ev == "server-closes":
                if c.connected:
                    W.server_close(A)
                    run_actions([])
            elif ev == "restart":
                run_actions([{"op": "restart", "who": A, "busy": r.random() < 0.25}])
                acc.count("restarts")
                nontriv = True
            elif ev == "peer-first-message":
                srv_acc = W.server.accounts.get(W.clients[A].jid)
                if not srv_acc or not srv_acc.prekeys or not W.clients[A].ready():
                    continue
                if not W.clients[P].connected:
                    run_actions([{"op": "connect", "who": P}])
                # a fresh peer identity each time: new key store => first message => consumes a one-time key
                state["markers"] += 1
                mk = "FIRST%dX" % state["markers"]
                before = len(srv_acc.consumed)
                p_old = W.clients[P]
                W.restart_client(P)
                # wipe the peer's sessions with A so that it fetches a bundle again
                pm = W.clients[P].manager()
                pm._store.deleteAllSessions(A)
                run_actions([{"op": "connect", "who": P}, {"op": "wait-quiet"},
                             {"op": "send", "who": P, "kind": "text", "uid": mk, "build": lambda mk=mk: TextMessageProtocolEntity(mk, to="%s@s.whatsapp.net" % A)}])
                if len(srv_acc.consumed) > before:
                    kid, val, _ = srv_acc.consumed[-1]
                    i = hexid(kid)
                    model.handed_out[i] = val
                    got = [e for ph, k, e, g in W.app_log if ph == A and k == "message" and getattr(e, "getBody", lambda: None)() == mk]
                    if len(got) == 1:
                        model.consumed.add(i)
                        acc.count("keys_consumed")
                        nontriv = True
                        # remember the pkmsg stanza as delivered, for replay
                        for ph, t in reversed(W.wire_messages):
                            if ph == P:
                                state["pkmsg"] = (mk, t, i)
                                break
                    elif len(got) > 1:
                        ok = False
                        acc.violation("first-message-delivered-twice", "a first message was delivered %d times" % len(got), dict(w, at=[ei, ev]))
                    else:
                        if model.offered.get(i) is not None:
                            ok = False
                            acc.violation("first-message-with-offered-key-not-delivered", "a first message using offered key %d could not be delivered" % i, dict(w, at=[ei, ev]))
            elif ev == "replay-first-message":
                if state["pkmsg"] is None or not W.clients[A].ready():
                    continue
                mk, t, i = state["pkmsg"]
                acc.count("replays")
                stanza = ("message", {"id": t[1]["id"], "type": "text", "t": W.server.now(), "from": "%s@s.whatsapp.net" % P, "notify": "replay"}, list(t[2]), None)
                W.server.to_client(A, stanza)
                run_actions([])
                got = [e for ph, k, e, g in W.app_log if ph == A and k == "message" and getattr(e, "getBody", lambda: None)() == mk]
                if len(got) != 1:
                    ok = False
                    acc.violation("consumed-key-used-again", "replaying a first message led to %d deliveries: the one-time key was usable again" % len(got), dict(w, at=[ei, ev]))
            # exceptions other than the by-design upload error
            rest = expected_errors()
            if rest:
                e = rest[0]
                ok = False
                acc.violation("exception:%s:%s" % (e["type"], e["where"]), "%s escaped during %s: %s" % (e["type"], e["what"], e["msg"]), dict(w, at=[ei, ev]))
                del W.clients[A].errors[:]
            if not checkpoint(acc, W, A, model, w, (ei, ev)):
                ok = False
                break
    except Exception:
        import traceback
        acc.inconc("%s: harness crashed: %s" % (tag, traceback.format_exc()[-800:]))
        W.close()
        return
    acc.count("histories")
    from vf.evidence import h
    acc.case(h([events, batch]), nontrivial=nontriv)
    if ok:
        acc.count("history_ok")
    W.close()
    return w


def shards(tier, seed, nworkers):
    q = tier == "quick"
    nsh = 6 if q else nworkers
    specs = [{"kind": "histories", "shard": i, "n": (600 if q else 30000) // nsh, "big": (not q) and i < 3} for i in range(nsh)]
    # uploads of exactly 255 / 256 / 257 keys (where the list header of the wire encoding changes): the very first upload with
    # such a batch size, and two unconfirmed batches of half that size offered together at the next login
    for b, ev in ((256, ["login", "ask-keys", "restart", "login"]), (128, ["login", "ask-keys-twice-lost", "login", "ask-keys"])) + \
                 (() if q else ((255, ["login", "ask-keys"]), (257, ["login", "ask-keys"]), (64, ["login", "ask-keys-twice-lost", "login", "ask-keys-twice-lost", "login"]))):
        specs.append({"kind": "boundary", "shard": 900 + b, "batch": b, "events": ev})
    return specs


def run(spec, acc):
    from vf import env
    env.shim_thirdparty()
    if spec["kind"] == "boundary":
        acc.count("boundary_histories")
        w = one_history(acc, spec["seed"], "hb/%d" % spec["batch"], batch=spec["batch"], forced_events=spec["events"])
        if w:
            acc.sample(w)
        return
    for i in range(spec["n"]):
        tag = "h/%d/%d" % (spec["shard"], i)
        w = one_history(acc, spec["seed"], tag, batch=812 if (spec.get("big") and i == 0) else None)
        if i < 2 and w:
            acc.sample(w)


def replay(spec, acc):
    from vf import env
    env.shim_thirdparty()
    wt = spec["witness"]
    one_history(acc, spec["seed"], wt["tag"], batch=wt.get("batch"), forced_events=wt["events"] if wt.get("forced") else None)
