"""C20 — registration requests: token, parameter encoding and encryption."""
import base64
import hashlib
import hmac
import json
import os
import urllib.parse

from vf import gen

ID = "C20"
LEVEL = "exploration"
RULE = ("one evaluation = one phone string (token vs independent HMAC-SHA1), one parameter value (percent-decoding returns "
        "it), one parameter list encrypted for a harness key pair (X25519+AES-GCM decrypt with `cryptography`, parameters "
        "in order), or one real request object sent in preview mode; non-trivial = value contains a byte outside "
        "[A-Za-z0-9.] / an encrypted request; distinct by input")
ASSUMPTIONS = ["the three token constants are frozen copies of the pinned tree (data/reg_constants.json), not a second origin",
               "text values are valid unicode (no lone surrogates); nothing is sent anywhere (preview mode, audit hook)",
               "hmac/urllib.parse/cryptography are trusted"]
REQUIRED = ["requests_after_refused_params", "first_use_processes", "same_phone_other_cc", "two_env_tokens", "request_resends", "concurrent_token_rounds", "token_yields", "token_cases", "urlencode_cases", "encrypt_cases", "request_objects", "escaped_values"]

DATA = os.path.join(os.path.dirname(os.path.dirname(os.path.dirname(os.path.abspath(__file__)))), "data")
SAFE = set("ABCDEFGHIJKLMNOPQRSTUVWXYZabcdefghijklmnopqrstuvwxyz0123456789.")


def ref_token(phone, md5_classes_b64=None):
    c = json.load(open(os.path.join(DATA, "reg_constants.json")))
    key = base64.b64decode(c["key_b64"])[:64]
    msg = base64.b64decode(c["signature_b64"]) + base64.b64decode(md5_classes_b64 or c["md5_classes_b64"]) + phone.encode("utf-8")
    return base64.b64encode(hmac.new(key, msg, hashlib.sha1).digest())


def want_bytes(v):
    if isinstance(v, bytes):
        return v
    if isinstance(v, str):
        return v.encode("utf-8")
    return str(v).encode("utf-8")


def gen_value(r):
    c = r.random()
    if c < 0.15:
        return r.choice([0, 1, -1, 6, 443, r.randint(-10 ** 9, 10 ** 12)])
    if c < 0.45:
        return gen.blob(r, lo=0, hi=40)
    if c < 0.55:
        return bytes(r.choice(b"-_~.%&=+ /?#") for _ in range(r.randint(1, 12)))
    if c < 0.7:
        return "".join(r.choice("-_~.%&=+ /?#abcXYZ019\t\n") for _ in range(r.randint(0, 20)))
    if c < 0.8:
        return "".join(chr(r.randrange(0, 256)) for _ in range(r.randint(0, 20)))
    n = r.randint(0, 20)
    out = []
    for _ in range(n):
        cp = r.choice([r.randrange(0x20, 0x7f), r.randrange(0x80, 0x800), r.randrange(0x800, 0xD800),
                       r.randrange(0xE000, 0x10000), r.randrange(0x10000, 0x110000)])
        out.append(chr(cp))
    return "".join(out)


def vclass(v):
    if isinstance(v, bytes):
        return "bytes"
    if isinstance(v, int):
        return "int"
    if all(ord(ch) < 128 for ch in v):
        return "ascii"
    return "unicode"


def check_urlencode(acc, W, v, tag):
    acc.count("urlencode_cases")
    acc.count("value_class:" + vclass(v))
    wb = want_bytes(v)
    nontriv = any(chr(b) not in SAFE for b in wb)
    if nontriv:
        acc.count("escaped_values")
    acc.case(["u", vclass(v), wb.hex()], nontrivial=nontriv)
    w = {"op": "urlencode", "type": vclass(v), "value_hex": wb.hex(), "int": v if isinstance(v, int) else None, "tag": tag}
    try:
        enc = W.urlencode(v)
    except Exception as e:  # noqa
        acc.violation("urlencode-raises:%s:%s" % (vclass(v), type(e).__name__), "urlencode raised %r" % (e,), w)
        return None
    if not isinstance(enc, str):
        acc.violation("urlencode-type", "urlencode returned %s" % type(enc).__name__, w)
        return None
    if any(ch in enc for ch in "&= +#?/") or any(ord(ch) > 126 or ord(ch) < 33 for ch in enc):
        acc.violation("urlencode-unescaped:%s" % vclass(v), "encoded value contains a reserved/unsafe character: %r" % enc[:80], w)
    back = urllib.parse.unquote_to_bytes(enc)
    if back != wb:
        acc.violation("urlencode-decode-differs:%s" % vclass(v), "percent-decoding %r gives %r, not the original %r" % (enc[:80], back[:40], wb[:40]), w)
    return enc


def harness_keypair(r):
    from cryptography.hazmat.primitives.asymmetric.x25519 import X25519PrivateKey
    from cryptography.hazmat.primitives import serialization
    from axolotl.ecc.curve import Curve
    priv = X25519PrivateKey.from_private_bytes(gen.blob(r, 32))
    pub = priv.public_key().public_bytes(serialization.Encoding.Raw, serialization.PublicFormat.Raw)
    return priv, Curve.decodePoint(bytearray(b"\x05" + pub), 0)


def decrypt_enc(priv, payload_b64):
    from cryptography.hazmat.primitives.asymmetric.x25519 import X25519PublicKey
    from cryptography.hazmat.primitives.ciphers.aead import AESGCM
    raw = base64.b64decode(payload_b64)
    shared = priv.exchange(X25519PublicKey.from_public_bytes(raw[:32]))
    return raw[:32], AESGCM(shared).decrypt(b"\x00" * 12, raw[32:], b"")


def judge_plain(acc, plain, params, w, where):
    """plain must be name=value&... in the original order, values decoding to the originals."""
    try:
        text = plain.decode("ascii")
    except UnicodeDecodeError:
        acc.violation("enc-nonascii:" + where, "decrypted parameter string is not ASCII", w)
        return
    parts = text.split("&") if text else []
    if len(parts) != len(params):
        acc.violation("enc-param-count:" + where, "decrypted string has %d parameters, request has %d" % (len(parts), len(params)), w)
        return
    for part, (k, v) in zip(parts, params):
        name, _, val = part.partition("=")
        if name != k:
            acc.violation("enc-param-order:" + where, "parameter %r found where %r was expected" % (name, k), w)
            return
        if urllib.parse.unquote_to_bytes(val) != want_bytes(v):
            acc.violation("enc-param-value:" + where, "parameter %r decodes to another value" % k, w)
            return
    acc.count("params_checked", len(params))


_bad_calls = [0]


def check_encrypt(acc, W, r, params, tag, ephemerals):
    acc.count("encrypt_cases")
    acc.case(["e", [[k, want_bytes(v).hex()] for k, v in params]], nontrivial=True)
    priv, pub = harness_keypair(r)
    w = {"op": "encrypt", "params": [[k, vclass(v), want_bytes(v).hex()] for k, v in params], "tag": tag}
    req = W.__new__(W)
    _bad_calls[0] += 1
    if _bad_calls[0] % 3 == 0:
        # earlier in the same process a request was refused half way: a parameter list whose first values encode and whose last
        # one cannot (lone surrogates in three shapes; None and arbitrary objects turned out to be accepted as their str()). How it is refused is only counted; the valid request after
        # it is judged as any other.
        k = (_bad_calls[0] // 3) % 3
        badv = ["\ud800", "a\udfffb", "\udc00" * 3][k]      # (None and arbitrary objects are accepted: str() of them is sent)
        for how in ("urlencode", "encrypt"):
            try:
                if how == "urlencode":
                    W.urlencodeParams([("cc", "49"), ("in", b"123"), ("bad", badv)])
                else:
                    req.encryptParams([("cc", "49"), ("bad", badv)], pub)
                acc.count("bad_params_accepted:%d" % k)
            except Exception as e:  # noqa
                acc.count("bad_params_refused:%s" % type(e).__name__)
        acc.count("requests_after_refused_params")
        w["after_refused_params_kind"] = k
    try:
        res = req.encryptParams(list(params), pub)
    except Exception as e:  # noqa
        acc.violation("encrypt-raises:%s" % type(e).__name__, "encryptParams raised %r" % (e,), w)
        return
    if not (isinstance(res, list) and len(res) == 1 and res[0][0] == "ENC"):
        acc.violation("encrypt-shape", "encryptParams did not return [('ENC', blob)]", w)
        return
    try:
        eph, plain = decrypt_enc(priv, res[0][1])
    except Exception as e:  # noqa
        acc.violation("encrypt-undecryptable:%s" % type(e).__name__, "ENC blob does not decrypt with the matching private key (%r)" % (e,), w)
        return
    if eph in ephemerals:
        acc.violation("ephemeral-reused", "two encrypted requests used the same ephemeral key", w)
    ephemerals.add(eph)
    judge_plain(acc, plain, params, w, "direct")
    # wrong key must not decrypt (sanity of the oracle's sensitivity)
    acc.count("decrypted_ok")


def check_request_objects(acc, seed, n):
    """Real request classes on a scratch profile in preview mode; sendRequest intercepted."""
    from yowsup.common.http.warequest import WARequest
    from yowsup.registration.coderequest import WACodeRequest
    from yowsup.registration.existsrequest import WAExistsRequest
    from yowsup.registration.regrequest import WARegRequest
    from yowsup.config.v1.config import Config
    from yowsup.profile.profile import YowProfile
    from yowsup.env import YowsupEnv
    captured = []
    orig_send = WARequest.__dict__["sendRequest"]
    orig_key = WARequest.ENC_PUBKEY

    def fake_send(cls, host, port, path, headers, params, reqType="GET", preview=False):
        captured.append((host, path, params, preview))
        return None

    WARequest.sendRequest = classmethod(fake_send)
    ephemerals = set()
    prev_phone = [None, None]
    try:
        for i in range(n):
            r = gen.rng(seed, ID, "req/%d" % i)
            priv, pub = harness_keypair(r)
            WARequest.ENC_PUBKEY = pub
            cc = r.choice(["1", "49", "353", "7"])
            national = gen.s_from(r, gen.DIGITS, r.randint(4, 12))
            phone = cc + national
            if i % 4 == 3 and prev_phone[0]:
                # the same full number as the previous request under another country-code split (1 | 242555... vs 1242 | 555...)
                phone = prev_phone[0]
                cc = phone[:r.choice([1, 2, 3, 4])]
                if cc == prev_phone[1]:
                    cc = phone[:len(cc) % 4 + 1]
                national = phone[len(cc):]
                acc.count("same_phone_other_cc")
            prev_phone[0], prev_phone[1] = phone, cc
            cfg = Config(phone=phone, cc=cc, mcc=r.choice(["000", "262", "1", "310"]), mnc=r.choice(["000", "01", "410"]),
                         sim_mcc=r.choice(["000", "262"]), sim_mnc=r.choice(["000", "7"]),
                         id=None if r.random() < 0.3 else gen.blob(r, 20),
                         fdid=None if r.random() < 0.5 else "fd-%s" % gen.s_from(r, gen.HEXU, 8),
                         expid=None if r.random() < 0.5 else gen.blob(r, 16))
            kind = r.choice(["code", "exists", "reg"])
            if kind in ("exists", "reg") and cfg.id is None:
                cfg.id = gen.blob(r, 20)
            w = {"op": "request", "kind": kind, "i": i, "phone": phone, "cc": cc}
            del captured[:]
            try:
                if kind == "code":
                    # the three request classes read fields of their argument: they are given a Config, as yowsup-cli does
                    req = WACodeRequest(r.choice(["sms", "voice"]), cfg)
                elif kind == "exists":
                    req = WAExistsRequest(cfg)
                else:
                    req = WARegRequest(cfg, gen.s_from(r, gen.DIGITS, 6))
                req.send(preview=True)
            except Exception as e:  # noqa
                acc.violation("request-raises:%s:%s" % (kind, type(e).__name__), "%s request raised %r in preview mode" % (kind, e), w)
                continue
            acc.count("request_objects")
            acc.count("request_kind:" + kind)
            acc.case(["q", kind, phone, i], nontrivial=True)
            if not captured:
                acc.violation("request-not-sent:" + kind, "request.send(preview=True) never reached sendRequest", w)
                continue
            for host, path, params, preview in captured:
                if not preview:
                    acc.violation("request-not-preview", "preview flag lost on the way to sendRequest", w)
                if len(params) != 1 or params[0][0] != "ENC":
                    acc.violation("request-not-encrypted:" + kind, "request parameters left unencrypted", w)
                    continue
                try:
                    eph, plain = decrypt_enc(priv, params[0][1])
                except Exception as e:  # noqa
                    acc.violation("request-undecryptable:" + kind, "ENC blob of a real request does not decrypt (%r)" % (e,), w)
                    continue
                if eph in ephemerals:
                    acc.violation("ephemeral-reused", "two requests used the same ephemeral key", w)
                ephemerals.add(eph)
            # the last captured call belongs to `req` itself (a code request may first send an exists request)
            judge_plain(acc, plain, req.params, w, kind)
            names = [k for k, _ in req.params]
            tok = dict(req.params).get("token")
            if kind in ("code", "exists"):
                if tok != ref_token(national):
                    acc.violation("request-token:" + kind, "token parameter is not the keyed hash of the national number", w)
                else:
                    acc.count("request_tokens_ok")
            for must in ("cc", "in", "authkey", "e_regid", "e_ident", "e_skey_id", "e_skey_val", "e_skey_sig", "fdid", "expid"):
                if must not in names:
                    acc.violation("request-missing-param:" + must, "request lacks parameter %s" % must, w)
            d = dict(req.params)
            if d.get("in") != national or str(d.get("cc")) != cc:
                acc.violation("request-number-split", "cc/in parameters do not reproduce the phone number", w)
            acc.maxi("params_per_request", len(names))
            # the same request object again (a retry), and once more after the application added a parameter: each sending is
            # encrypted afresh and carries the parameters as they are at that moment
            try:
                for step in ("again", "after-addParam"):
                    if step == "after-addParam":
                        req.addParam("x_" + gen.s_from(r, gen.ALNUM, 4), gen_value(r))
                    del captured[:]
                    req.send(preview=True)
                    host, path, params, preview = captured[-1]
                    eph2, plain2 = decrypt_enc(priv, params[0][1])
                    acc.count("request_resends")
                    if eph2 in ephemerals:
                        acc.violation("ephemeral-reused:resend", "sending the same %s request object %s reused an ephemeral key" % (kind, step), dict(w, step=step))
                    ephemerals.add(eph2)
                    judge_plain(acc, plain2, req.params, dict(w, step=step), kind + ":" + step)
            except Exception as e:  # noqa
                acc.violation("request-resend-raises:%s:%s" % (kind, type(e).__name__), "sending a %s request object a second time raised %r" % (kind, e), w)
            if i < 2:
                acc.sample({"request": kind, "phone": phone, "param_names": names})
    finally:
        WARequest.sendRequest = orig_send
        WARequest.ENC_PUBKEY = orig_key
    acc.seen("ephemeral_keys", str(len(ephemerals)))
    acc.count("distinct_ephemeral_keys", len(ephemerals))


def gen_phone(r):
    c = r.random()
    if c < 0.6:
        return gen.s_from(r, gen.DIGITS, r.randint(1, 20))
    if c < 0.8:
        return gen.unicode_text(r, 0, 12)
    return "".join(r.choice("+ -()0123456789") for _ in range(r.randint(0, 16)))


def two_envs(acc, seed, sh, n):
    """A second environment class (another app version: other classes digest) next to the bundled one, as an application that
    pins a version defines it: each environment's token is the keyed hash with that environment's own constants, whatever was
    asked of the other one before."""
    from yowsup.env.env_android import AndroidYowsupEnv
    other_md5 = base64.b64encode(hashlib.md5(b"verif other classes.dex").digest()).decode()

    class VerifPinnedEnv(AndroidYowsupEnv):
        _VERSION = "2.99.9.9"
        _MD5_CLASSES = other_md5
    envs = [(AndroidYowsupEnv(), None, "bundled"), (VerifPinnedEnv(), other_md5, "pinned")]
    for i in range(n):
        r = gen.rng(seed, ID, "envs/%d/%d" % (sh, i))
        ph = gen_phone(r)
        order = envs if r.random() < 0.5 else envs[::-1]
        for envo, md5, nm in order:
            acc.count("two_env_tokens")
            try:
                got = envo.getToken(ph)
            except Exception as e:  # noqa
                acc.violation("token-raises:%s" % type(e).__name__, "getToken(%r) raised %r on the %s environment" % (ph, e, nm), {"op": "two-envs", "phone": ph, "env": nm})
                continue
            if got != ref_token(ph, md5):
                acc.violation("token-differs:second-environment", "getToken(%r) of the %s environment is not the keyed hash with that environment's constants (the other environment was asked %s)"
                              % (ph, nm, "before" if order[0][2] != nm else "afterwards"), {"op": "two-envs", "phone": ph, "env": nm})
        acc.case(["envs", ph], nontrivial=True)


def concurrent_tokens(acc, seed, sh, rounds, first_use=False):
    """Tokens for different numbers computed at the same time on the process-wide environment object (two registrations, or a
    registration next to a running stack): each caller must get the token of its own number."""
    import random
    import threading
    from vf import inject
    from yowsup.env import YowsupEnv
    envo = YowsupEnv.getCurrent()
    for rd in range(rounds):
        r = gen.rng(seed, ID, "ctok/%d/%d" % (sh, rd))
        k = r.choice([2, 3, 4])
        phones = [[gen_phone(r) for _ in range(30)] for _ in range(k)]
        wrong, raised = [], []

        def body(mine):
            for ph in mine:
                try:
                    got = envo.getToken(ph)
                except Exception as e:  # noqa
                    raised.append((ph, type(e).__name__, str(e)[:100]))
                    return
                if got != ref_token(ph):
                    wrong.append(ph)
        yi = inject.YieldInjector(random.Random(r.randrange(1 << 30)), ("yowsup/env/env_android.py", "yowsup/env/env.py"), p=(0.6 if first_use else r.choice([0.1, 0.3, 0.6])),
                                  p_long=(0.5 if first_use else 0.1))
        ths = [threading.Thread(target=body, args=(phones[i],), name="verif-token-%d" % i) for i in range(k)]
        with yi:
            for t in ths:
                t.start()
            for t in ths:
                t.join(60)
        acc.count("concurrent_token_rounds")
        acc.count("concurrent_tokens", 30 * k)
        acc.count("token_yields", yi.yields)
        acc.case(["ctok", sh, rd], nontrivial=yi.yields > 0)
        if raised:
            acc.violation("token-concurrent-raises:%s" % raised[0][1], "getToken(%r) raised %s while other threads computed tokens" % (raised[0][0], raised[0][2]), {"op": "ctok", "shard": sh, "round": rd})
        elif wrong:
            acc.violation("token-concurrent-differs", "%d of %d tokens computed concurrently by %d threads belong to another number (e.g. %r)" % (len(wrong), 30 * k, k, wrong[0]),
                          {"op": "ctok", "shard": sh, "round": rd, "threads": k})


def shards(tier, seed, nworkers):
    n = 4 if tier == "quick" else nworkers
    tok = 40000 if tier == "quick" else 400000
    url = 80000 if tier == "quick" else 800000
    encn = 2000 if tier == "quick" else 12000
    reqn = 240 if tier == "quick" else 1500
    specs = [{"kind": "mix", "shard": i, "tok": tok // n, "url": url // n, "enc": encn // n, "req": reqn // n, "ctok": 6 if tier == "quick" else 120} for i in range(n)]
    # tokens computed at the same time as the very first thing a process does with the environment (whatever is built lazily on
    # first use is then being built while the others already ask): one fresh process per repetition
    for k in range(3 if tier == "quick" else 48):
        specs.append({"kind": "first-use", "shard": 100 + k})
    return specs


def run(spec, acc):
    from yowsup.env.env_android import AndroidYowsupEnv
    from yowsup.common.http.warequest import WARequest as W
    seed, sh = spec["seed"], spec["shard"]
    if spec["kind"] == "first-use":
        acc.count("first_use_processes")
        concurrent_tokens(acc, seed, sh, 1, first_use=True)
        return
    envo = AndroidYowsupEnv()
    # anchor: every digit string length 1..20 once per shard
    for L in range(1, 21):
        ph = str(sh % 10) * L
        if envo.getToken(ph) != ref_token(ph):
            acc.violation("token-differs", "getToken(%r) differs from the independent keyed SHA-1" % ph, {"op": "token", "phone": ph})
        acc.count("token_cases")
        acc.case(["t", ph], nontrivial=True)
    for i in range(spec["tok"]):
        r = gen.rng(seed, ID, "tok/%d/%d" % (sh, i))
        ph = gen_phone(r)
        acc.count("token_cases")
        acc.case(["t", ph], nontrivial=not ph.isdigit())
        try:
            got = envo.getToken(ph)
        except Exception as e:  # noqa
            acc.violation("token-raises:%s" % type(e).__name__, "getToken(%r) raised %r" % (ph, e), {"op": "token", "phone": ph})
            continue
        if got != ref_token(ph):
            acc.violation("token-differs", "getToken(%r) differs from the independent keyed SHA-1" % ph, {"op": "token", "phone": ph})
        if i < 2:
            acc.sample({"phone": ph, "token": got.decode()})
    # every single byte and a spread of code points, once
    if sh == 0:
        for b in range(256):
            check_urlencode(acc, W, bytes([b]), "byte")
            check_urlencode(acc, W, chr(b), "latin1-char")
        for cp in list(range(0x100, 0xD800, 97)) + list(range(0xE000, 0x110000, 1013)):
            check_urlencode(acc, W, chr(cp), "codepoint")
    for i in range(spec["url"]):
        r = gen.rng(seed, ID, "url/%d/%d" % (sh, i))
        v = gen_value(r)
        enc = check_urlencode(acc, W, v, "rand")
        if i < 2:
            acc.sample({"value": v if not isinstance(v, bytes) else v.hex(), "encoded": enc})
    eph = set()
    for i in range(spec["enc"]):
        r = gen.rng(seed, ID, "enc/%d/%d" % (sh, i))
        params = [(gen.s_from(r, gen.ALNUM + "_", r.randint(1, 10)), gen_value(r)) for _ in range(r.randint(0, 14))]
        check_encrypt(acc, W, r, params, "enc/%d/%d" % (sh, i), eph)
    acc.count("distinct_ephemeral_keys", len(eph))
    concurrent_tokens(acc, seed, sh, spec.get("ctok", 6))
    two_envs(acc, seed, sh, 200 if spec.get("ctok", 6) <= 6 else 4000)
    check_request_objects(acc, "%s/%d" % (seed, sh), spec["req"])


def replay(spec, acc):
    from yowsup.env.env_android import AndroidYowsupEnv
    from yowsup.common.http.warequest import WARequest as W
    w = spec["witness"]
    if "after_refused_params_kind" in w:
        _bad_calls[0] = w["after_refused_params_kind"] * 3 + 2      # the replayed request follows the same refused call as in the run
    if w["op"] == "token":
        if AndroidYowsupEnv().getToken(w["phone"]) != ref_token(w["phone"]):
            acc.violation("token-differs", "getToken differs", w)
    elif w["op"] == "urlencode":
        raw = bytes.fromhex(w["value_hex"])
        v = raw if w["type"] == "bytes" else (w["int"] if w["type"] == "int" else raw.decode("utf-8"))
        check_urlencode(acc, W, v, "replay")
    elif w["op"] == "encrypt":
        import random
        params = [(k, bytes.fromhex(hx) if t == "bytes" else (int(bytes.fromhex(hx)) if t == "int" else bytes.fromhex(hx).decode("utf-8"))) for k, t, hx in w["params"]]
        check_encrypt(acc, W, random.Random(0), params, "replay", set())
    else:
        check_request_objects(acc, spec["seed"], w["i"] + 1)
