"""C18 — stack assembly and event propagation for every composition."""
import itertools

from vf import gen

ID = "C18"
LEVEL = "exploration"
RULE = ("one evaluation = one (stack shape, construction route, operation): shapes are lists of layers and parallel groups "
        "(depth <= 6, groups of 1-4) built by builder push/pop, plain tuples in both order conventions, classes or "
        "instances, explicit and implicit groups; operations: send from top, receive from bottom, emit/broadcast from "
        "every emitter position with every consumer position, normal and detached, interface lookup; plus every flag "
        "combination of getProtocolLayers/getDefaultLayers/getDefaultStack/pushDefaultLayers. Observed calls at recording "
        "layers are compared with a reference propagation interpreter over the shape. Non-trivial = shape has a parallel "
        "group or the event is consumed/detached; distinct by (shape, route, operation)")
ASSUMPTIONS = ["siblings of an emitting/consuming sublayer inside the same group are unspecified by the statement: only 'at most once' is required of them",
               "for a deferred event only layers beyond the first receiving item are required to wait for the loop",
               "the deferred queue is shared by all stacks of a process; it is drained between cases"]
REQUIRED = ["transport_event_cases", "transport_event_ok", "transport_event_state:half-frame", "published_tuple_stacks", "first_login_stacks", "first_login_ok", "libstack_stacks", "libstack_ok", "libstack_events_up", "libstack_events_down", "emitter_stacks", "emitter_cycles", "emitter_ok", "own_stack_interface_lookups", "passthrough_compositions", "passthrough_ok", "earlier_stacks_rechecked", "earlier_stacks_intact", "shape_ops", "event_ops", "detached_ops", "helper_combos", "default_stack_combos", "interface_lookups", "groups_seen"]
EXHAUSTIVE = None

LOG = []
INSTANCES = {}
_cls_cache = {}


class StopLoop(Exception):
    pass


def rec_class(name):
    from yowsup.layers import YowLayer, YowLayerInterface
    if name in _cls_cache:
        return _cls_cache[name]

    class Rec(YowLayer):
        NAME = name

        def __init__(self):
            super(Rec, self).__init__()
            self.interface = YowLayerInterface(self)
            self.consume = set()
            INSTANCES[self.NAME] = self

        def send(self, data):
            LOG.append((self.NAME, "send", data))
            self.toLower(data + (self.NAME,))

        def receive(self, data):
            LOG.append((self.NAME, "recv", data))
            self.toUpper(data + (self.NAME,))

        def onEvent(self, ev):
            LOG.append((self.NAME, "event", ev.getName()))
            return ev.getName() in self.consume

        def __str__(self):
            return "Rec(%s)" % self.NAME

    Rec.__name__ = "Rec_" + name
    _cls_cache[name] = Rec
    return Rec


# ---------------------------------------------------------------------------------------------
# shapes: list bottom -> top of items; item = "a" (layer) or ["g1","g2"] (group)
def names_of(shape):
    out = []
    for it in shape:
        out.extend(it if isinstance(it, list) else [it])
    return out


def gen_shapes_exhaustive(max_items):
    """Every shape with <= max_items items, group sizes 1..3 (names assigned positionally)."""
    for n in range(1, max_items + 1):
        for kinds in itertools.product([0, 1, 2, 3], repeat=n):   # 0 = layer, k = group of k
            if n == 1 and kinds[0] != 0:
                pass
            shape = []
            for i, k in enumerate(kinds):
                if k == 0:
                    shape.append("L%d" % i)
                else:
                    shape.append(["G%d_%d" % (i, j) for j in range(k)])
            yield shape


def rand_shape(r):
    n = r.randint(1, 6)
    shape = []
    for i in range(n):
        if r.random() < 0.4:
            shape.append(["G%d_%d" % (i, j) for j in range(r.randint(1, 4))])
        else:
            shape.append("L%d" % i)
    return shape


ROUTES = ["builder", "tuple_bottom_first", "tuple_top_first", "tuple_instances", "implicit_groups", "builder_poppush"]


def build(shape, route, r=None):
    """Returns the stack built by the given construction route."""
    from yowsup.stacks import YowStack, YowStackBuilder
    from yowsup.layers import YowParallelLayer
    INSTANCES.clear()

    def item_obj(it, implicit=False, instance=False):
        if isinstance(it, list):
            classes = tuple(rec_class(n) for n in it)
            return classes if implicit else YowParallelLayer(classes)
        cls = rec_class(it)
        return cls() if instance else cls

    if route == "builder":
        b = YowStackBuilder()
        for it in shape:
            b.push(item_obj(it))
        return b.build()
    if route == "builder_poppush":
        b = YowStackBuilder()
        for it in shape:
            if r is not None and r.random() < 0.5:
                b.push(rec_class("junk"))
                b.pop()
            b.push(item_obj(it))
            if r is not None and r.random() < 0.3:
                b.pop()
                b.push(item_obj(it))
        return b.build()
    if route == "tuple_bottom_first":
        return YowStack(tuple(item_obj(it) for it in shape), reversed=False)
    if route == "tuple_top_first":
        return YowStack(tuple(item_obj(it) for it in shape)[::-1])
    if route == "tuple_instances":
        return YowStack(tuple(item_obj(it, instance=True) for it in shape), reversed=False)
    if route == "implicit_groups":
        return YowStack(tuple(item_obj(it, implicit=True) for it in shape)[::-1], reversed=True)
    raise ValueError(route)


# ---------------------------------------------------------------------------------------------
# reference interpreter
def ref_data(shape, direction):
    """Expected multiset of (layer, op, path) for data entering at the top (send) or bottom (recv)."""
    order = list(range(len(shape)))
    if direction == "send":
        order = order[::-1]
    op = "send" if direction == "send" else "recv"
    out = []

    def go(k, path):
        if k >= len(order):
            return
        it = shape[order[k]]
        for m in (it if isinstance(it, list) else [it]):
            out.append((m, op, path))
            go(k + 1, path + (m,))
    go(0, ("D",))
    return out


def pump(stackmod):
    """Run the library's own loop body until the deferred queue is empty."""
    from yowsup.stacks import YowStack
    q = YowStack._YowStack__detachedQueue

    class T(object):
        @staticmethod
        def sleep(x):
            if q.empty():
                raise StopLoop()

        @staticmethod
        def time():
            return 0.0
    old = stackmod.time
    stackmod.time = T
    try:
        st = next(iter(INSTANCES.values())).getStack() if INSTANCES else None
        try:
            (st or YowStack(())).loop()
        except StopLoop:
            pass
    finally:
        stackmod.time = old


def sightings(name):
    return [i for i, e in enumerate(LOG) if e[0] == name and e[1] == "event"]


def judge_event(acc, shape, emitter, consumer, direction, detached, w, stackmod):
    """emitter/consumer: layer names (consumer may be None)."""
    from yowsup.layers import YowLayerEvent
    pos = {}
    for i, it in enumerate(shape):
        for m in (it if isinstance(it, list) else [it]):
            pos[m] = i
    for n, inst in INSTANCES.items():
        inst.consume = {"ev"} if n == consumer else set()
    del LOG[:]
    ev = YowLayerEvent("ev", detached=True) if detached else YowLayerEvent("ev")
    em = INSTANCES[emitter]
    try:
        (em.emitEvent if direction == "emit" else em.broadcastEvent)(ev)
    except Exception as e:  # noqa
        acc.violation("event-raises:%s" % type(e).__name__, "%s raised %r" % (direction, e), w)
        return
    ei = pos[emitter]
    path_items = list(range(ei + 1, len(shape))) if direction == "emit" else list(range(ei - 1, -1, -1))
    before = {n: len(sightings(n)) for n in pos}
    if detached:
        # beyond the first receiving item nothing may have been delivered before the loop runs
        for it_i in path_items[1:]:
            for m in (shape[it_i] if isinstance(shape[it_i], list) else [shape[it_i]]):
                if before[m]:
                    acc.violation("detached-delivered-before-loop", "deferred event reached %s before the loop ran" % m, w)
                    return
        pump(stackmod)
        acc.count("detached_pumped")
    # expectation along the path
    stopped = False
    last_seq = -1
    for it_i in path_items:
        members = shape[it_i] if isinstance(shape[it_i], list) else [shape[it_i]]
        if stopped:
            for m in members:
                if sightings(m):
                    acc.violation("event-after-consumer", "%s saw the event although %s consumed it earlier" % (m, consumer), w)
                    return
            continue
        cons_here = consumer in members
        for m in members:
            s = sightings(m)
            after_cons = cons_here and members.index(m) > members.index(consumer)
            if after_cons:
                if len(s) > 1:
                    acc.violation("event-duplicate", "%s saw the event %d times" % (m, len(s)), w)
                    return
                continue
            if len(s) != 1:
                acc.violation("event-count:%d" % min(len(s), 2), "%s saw the event %d times (expected once; emitter %s, consumer %s, %s%s)"
                              % (m, len(s), emitter, consumer, direction, ", detached" if detached else ""), w)
                return
            if s[0] < last_seq:
                acc.violation("event-order", "%s saw the event before a layer closer to the emitter" % m, w)
                return
        last_seq = max([sightings(m)[0] for m in members if sightings(m)] + [last_seq])
        if cons_here:
            stopped = True
    # layers on the other side of the emitter must not see it; siblings/emitter at most once
    for n in pos:
        s = sightings(n)
        if pos[n] == ei:
            if len(s) > 1:
                acc.violation("event-duplicate-sibling", "%s (same item as the emitter) saw the event %d times" % (n, len(s)), w)
                return
        elif (direction == "emit" and pos[n] < ei) or (direction == "broadcast" and pos[n] > ei):
            if s:
                acc.violation("event-wrong-direction", "%s is on the wrong side of the emitter and saw the event" % n, w)
                return
    acc.count("event_ok")


def judge_shape(acc, shape, route, r, stackmod, event_budget=None):
    from yowsup.layers import YowParallelLayer
    w0 = {"shape": shape, "route": route}
    has_group = any(isinstance(it, list) for it in shape)
    if has_group:
        acc.count("groups_seen", sum(1 for it in shape if isinstance(it, list)))
        for it in shape:
            if isinstance(it, list):
                acc.seen("group_sizes", str(len(it)))
    try:
        st = build(shape, route, r)
    except Exception as e:  # noqa
        acc.violation("build-raises:%s:%s" % (route, type(e).__name__), "building the stack raised %r" % (e,), w0)
        return
    acc.count("route:" + route)
    acc.seen("depths", str(len(shape)))
    # order of layers as given
    for i, it in enumerate(shape):
        try:
            l = st.getLayer(i)
        except Exception as e:  # noqa
            acc.violation("order:getLayer-raises", "getLayer(%d) raised %r" % (i, e), w0)
            return
        got = [s.NAME for s in l.sublayers] if isinstance(l, YowParallelLayer) else getattr(l, "NAME", None)
        if got != it:
            acc.violation("order:%s" % route, "position %d holds %r, expected %r" % (i, got, it), w0)
            return
    try:
        st.getLayer(len(shape))
        acc.violation("order:extra-layer", "stack has more layers than given", w0)
        return
    except IndexError:
        pass
    # data propagation
    for direction in ("send", "recv"):
        del LOG[:]
        acc.count("shape_ops")
        acc.case(["data", shape, route, direction], nontrivial=has_group)
        try:
            (st.send if direction == "send" else st.receive)(("D",))
        except Exception as e:  # noqa
            acc.violation("data-raises:%s" % type(e).__name__, "%s raised %r" % (direction, e), dict(w0, op=direction))
            continue
        want = sorted(ref_data(shape, direction))
        got = sorted(e for e in LOG if e[1] in ("send", "recv"))
        if got != want:
            missing = [x for x in want if x not in got][:3]
            extra = [x for x in got if x not in want][:3]
            kind = "dup" if len(got) > len(want) else "lost" if len(got) < len(want) else "misrouted"
            acc.violation("data-%s:%s" % (direction, kind), "data propagation differs from the reference: missing %r extra %r (%d vs %d calls)"
                          % (missing, extra, len(got), len(want)), dict(w0, op=direction))
        else:
            acc.count("data_ok")
    # interface lookup by class, from the stack and from a layer
    some = next(iter(INSTANCES.values()))
    for n in names_of(shape):
        acc.count("interface_lookups")
        try:
            a = st.getLayerInterface(rec_class(n))
            b = some.getLayerInterface(rec_class(n))
        except Exception as e:  # noqa
            acc.violation("interface-raises:%s" % type(e).__name__, "getLayerInterface raised %r" % (e,), dict(w0, op="interface", layer=n))
            continue
        if a is not INSTANCES[n].interface or b is not INSTANCES[n].interface:
            acc.violation("interface-not-found", "interface of %s not found by class (got %r)" % (n, a), dict(w0, op="interface", layer=n))
    # events
    allnames = names_of(shape)
    combos = [(e, c, d, det) for e in allnames for c in [None] + allnames for d in ("emit", "broadcast") for det in (False, True)]
    if event_budget is not None and len(combos) > event_budget:
        combos = r.sample(combos, event_budget)
    for e, c, d, det in combos:
        if c == e:
            continue
        acc.count("event_ops")
        if det:
            acc.count("detached_ops")
        acc.case(["ev", shape, route, e, c, d, det], nontrivial=has_group or c is not None or det)
        judge_event(acc, shape, e, c, d, det, dict(w0, op="event", emitter=e, consumer=c, direction=d, detached=det), stackmod)
    # stack-level emit/broadcast entry points
    for d in ("emit", "broadcast"):
        for det in (False, True):
            from yowsup.layers import YowLayerEvent
            for inst in INSTANCES.values():
                inst.consume = set()
            del LOG[:]
            acc.count("event_ops")
            ev = YowLayerEvent("ev", detached=True) if det else YowLayerEvent("ev")
            try:
                (st.emitEvent if d == "emit" else st.broadcastEvent)(ev)
                pump(stackmod)
            except Exception as e:  # noqa
                acc.violation("stack-event-raises:%s" % type(e).__name__, "stack.%sEvent raised %r" % (d, e), dict(w0, op="stack-" + d))
                continue
            bad = [n for n in allnames if len(sightings(n)) != 1]
            if bad:
                acc.violation("stack-event-count", "stack.%sEvent: layers %r saw the event %r times" % (d, bad[:4], [len(sightings(n)) for n in bad[:4]]),
                              dict(w0, op="stack-" + d, detached=det))
            else:
                acc.count("event_ok")


# ---------------------------------------------------------------------------------------------
BASIC = ["YowAuthenticationProtocolLayer", "YowMessagesProtocolLayer", "YowReceiptProtocolLayer", "YowAckProtocolLayer",
         "YowPresenceProtocolLayer", "YowIbProtocolLayer", "YowIqProtocolLayer", "YowNotificationsProtocolLayer",
         "YowContactsIqProtocolLayer", "YowChatstateProtocolLayer", "YowCallsProtocolLayer"]
OPTIONAL = {"groups": "YowGroupsProtocolLayer", "media": "YowMediaProtocolLayer", "privacy": "YowPrivacyProtocolLayer",
            "profiles": "YowProfilesProtocolLayer"}
CORE_BOTTOM_UP = ["YowNetworkLayer", "YowNoiseSegmentsLayer", "YowNoiseLayer", "YowCoderLayer", "YowLoggerLayer"]
ENC = ["AxolotlControlLayer", "AxolotlSendLayer", "AxolotlReceivelayer"]


def flat_names(stack):
    from vf.probes import all_layers
    from yowsup.layers import YowParallelLayer
    return [l.__class__.__name__ for l in all_layers(stack) if not isinstance(l, YowParallelLayer)]


def judge_layerset(acc, names, flags, w, need_enc=True, top=None):
    want_mod = set(BASIC) | {OPTIONAL[k] for k, v in flags.items() if v}
    got = list(names)
    if top:
        if not got or got[-1] != top:
            acc.violation("helper-top-layer", "the extra layer is not on top", w)
            return
        got = got[:-1]
    if got[:5] != CORE_BOTTOM_UP:
        acc.violation("helper-core-order", "transport layers are %r" % got[:5], w)
        return
    rest = got[5:]
    enc = [n for n in rest if n in ENC]
    mods = [n for n in rest if n not in ENC]
    if need_enc and sorted(enc) != sorted(ENC):
        acc.violation("helper-encryption-layers", "encryption layers are %r" % enc, w)
        return
    if enc and sorted(enc) != sorted(ENC):
        acc.violation("helper-encryption-layers-partial", "encryption layers are %r" % enc, w)
        return
    if sorted(mods) != sorted(want_mod):
        acc.violation("helper-modules", "protocol modules differ: missing %r, extra %r" % (sorted(want_mod - set(mods)), sorted(set(mods) - want_mod)), w)
        return
    if len(mods) != len(set(mods)):
        acc.violation("helper-modules-dup", "a protocol module appears twice", w)
        return
    acc.count("helper_ok")


def wiring_faults(st):
    """Neighbour links and stack membership of every layer of one stack (sublayers of parallel groups included)."""
    from yowsup.layers import YowParallelLayer
    layers = []
    i = 0
    while True:
        try:
            layers.append(st.getLayer(i))
        except IndexError:
            break
        i += 1
    out = []
    for i, l in enumerate(layers):
        up = getattr(l, "_YowLayer__upper", None)
        lo = getattr(l, "_YowLayer__lower", None)
        if i + 1 < len(layers) and up is not layers[i + 1]:
            out.append("layer %d (%s): upper neighbour is %s, expected this stack's layer %d" % (i, l.__class__.__name__, up.__class__.__name__, i + 1))
        if i > 0 and lo is not layers[i - 1]:
            out.append("layer %d (%s): lower neighbour is %s, expected this stack's layer %d" % (i, l.__class__.__name__, lo.__class__.__name__, i - 1))
        members = [l] + (list(l.sublayers) if isinstance(l, YowParallelLayer) else [])
        for m in members:
            try:
                if m.getStack() is not st:
                    out.append("layer %d (%s) belongs to another stack" % (i, m.__class__.__name__))
            except Exception as e:  # noqa
                out.append("layer %d (%s): getStack raised %r" % (i, m.__class__.__name__, e))
    return out


def recheck_earlier(acc, kept):
    """Stacks built earlier in this process must still be intact after later ones were assembled."""
    for k, (desc, st) in enumerate(kept):
        acc.count("earlier_stacks_rechecked")
        f = wiring_faults(st)
        if f:
            acc.violation("earlier-stack-rewired", "a stack built earlier (%s, #%d of %d) is no longer wired to its own layers after later stacks were built: %s"
                          % (desc, k, len(kept), f[:3]), {"helper": "recheck", "stack": desc, "faults": f[:6]})
            return
    acc.count("earlier_stacks_intact", len(kept))


def helpers(acc):
    from yowsup.stacks import YowStack, YowStackBuilder
    from yowsup.layers import YowParallelLayer
    kept = []
    keys = ["groups", "media", "privacy", "profiles"]
    for bits in itertools.product([False, True], repeat=4):
        flags = dict(zip(keys, bits))
        w = {"helper": "getDefaultLayers", "flags": flags}
        acc.count("helper_combos")
        acc.case_enum()
        try:
            pl = YowStackBuilder.getProtocolLayers(**flags)
            names = [c.__name__ for c in pl]
            want = set(BASIC) | {OPTIONAL[k] for k, v in flags.items() if v}
            if sorted(names) != sorted(want):
                acc.violation("helper-protocol-layers", "getProtocolLayers%r gives %r" % (flags, names), dict(w, helper="getProtocolLayers"))
            layers = YowStackBuilder.getDefaultLayers(**flags)
            st = YowStack(layers, reversed=False)
            judge_layerset(acc, flat_names(st), flags, w)
            f = wiring_faults(st)
            if f:
                acc.violation("helper-wiring", "a fresh stack from getDefaultLayers%r is miswired: %s" % (flags, f[:3]), w)
            kept.append(("getDefaultLayers%r" % (bits,), st))
        except Exception as e:  # noqa
            acc.violation("helper-raises:getDefaultLayers:%s" % type(e).__name__, "getDefaultLayers%r raised %r" % (flags, e), w)
        for axolotl in (False, True):
            for extra in (None, "class"):
                acc.count("default_stack_combos")
                acc.case_enum()
                w = {"helper": "getDefaultStack", "flags": flags, "axolotl": axolotl, "layer": extra}
                try:
                    Top = rec_class("top")
                    st = YowStackBuilder.getDefaultStack(layer=Top if extra else None, axolotl=axolotl, **flags)
                    judge_layerset(acc, flat_names(st), flags, w, need_enc=axolotl, top="Rec_top" if extra else None)
                    kept.append(("getDefaultStack%r axolotl=%s" % (bits, axolotl), st))
                    if len(kept) % 16 == 0:
                        recheck_earlier(acc, kept)
                except Exception as e:  # noqa
                    acc.violation("helper-raises:getDefaultStack:%s" % type(e).__name__, "getDefaultStack(%s) raised %r" % (w, e), w)
    # the layer tuples the package publishes (yowsup.stacks.YOWSUP_*), used the way the README does: YowStack(tuple), twice each
    # (two accounts in one process), optionally with an application layer on top
    import yowsup.stacks as stacks_pkg
    for tname in sorted(n for n in dir(stacks_pkg) if n.startswith("YOWSUP_") and isinstance(getattr(stacks_pkg, n), tuple)):
        tup_ = getattr(stacks_pkg, tname)
        for rep in range(2):
            acc.count("published_tuple_stacks")
            acc.case_enum()
            w = {"helper": "published-tuple", "tuple": tname, "rep": rep}
            try:
                desc_ = ((rec_class("papp%d" % rep),) + tup_) if tname == "YOWSUP_FULL_STACK" else (tup_ if not isinstance(tup_[0], tuple) else tup_)
                st = YowStack(desc_)          # (top first: the constructor's default)
                f = wiring_faults(st)
                if f:
                    acc.violation("published-tuple-wiring:%s" % tname, "a fresh stack from yowsup.stacks.%s is miswired: %s" % (tname, f[:3]), w)
                kept.append(("YowStack(%s) #%d" % (tname, rep), st))
            except Exception as e:  # noqa
                acc.violation("helper-raises:published-tuple:%s:%s" % (tname, type(e).__name__), "YowStack(yowsup.stacks.%s) raised %r" % (tname, e), w)
    recheck_earlier(acc, kept)
    # positional use and defaults
    for args in [(), (True,), (False,), (True, False), (False, True, False), (True, True, True, True), (False, False, False, False)]:
        acc.count("helper_combos")
        acc.case_enum()
        flags = dict(zip(keys, list(args) + [True] * (4 - len(args))))
        w = {"helper": "getDefaultLayers-positional", "args": list(args)}
        try:
            st = YowStack(YowStackBuilder.getDefaultLayers(*args), reversed=False)
            judge_layerset(acc, flat_names(st), flags, w)
        except Exception as e:  # noqa
            acc.violation("helper-raises:getDefaultLayers-positional:%s" % type(e).__name__, "getDefaultLayers%r raised %r" % (args, e), w)
    # builder with default layers and an application layer on top
    try:
        acc.count("helper_combos")
        acc.case_enum()
        st = YowStackBuilder().pushDefaultLayers().push(rec_class("app")).build()
        judge_layerset(acc, flat_names(st), dict.fromkeys(keys, True), {"helper": "pushDefaultLayers"}, top="Rec_app")
        kept.append(("builder.pushDefaultLayers", st))
        # a builder with pushed and popped layers
        b = YowStackBuilder().pushDefaultLayers().push(rec_class("tmp"))
        b.pop()
        st2 = b.push(rec_class("app2")).build()
        judge_layerset(acc, flat_names(st2), dict.fromkeys(keys, True), {"helper": "push-pop-push"}, top="Rec_app2")
        kept.append(("builder.push/pop/push", st2))
        recheck_earlier(acc, kept)
        # several stacks with the library's interface layer (the class applications derive from) on top: each one finds the
        # interfaces of ITS OWN layers, whichever stack was asked before
        from yowsup.layers.interface import YowInterfaceLayer
        from yowsup.layers.network import YowNetworkLayer as _Net
        from yowsup.layers.auth import YowAuthenticationProtocolLayer as _Auth

        class VerifApp(YowInterfaceLayer):
            pass
        apps = []
        for k in range(4):
            stk = YowStackBuilder().pushDefaultLayers().push(VerifApp).build() if k % 2 == 0 else YowStack(YowStackBuilder.getDefaultLayers() + (VerifApp,), reversed=False)
            top = None
            i_ = 0
            while True:
                try:
                    top = stk.getLayer(i_)
                except IndexError:
                    break
                i_ += 1
            apps.append((stk, top))
        order = list(range(4)) + [2, 0, 3, 1]
        for k in order:
            stk, top = apps[k]
            for cls in (_Net, _Auth):
                acc.count("interface_lookups")
                acc.count("own_stack_interface_lookups")
                try:
                    itf = top.getLayerInterface(cls)
                    lay = getattr(itf, "_layer", None)
                    owner = lay.getStack() if lay is not None else None
                except Exception as e:  # noqa
                    acc.violation("interface-lookup-raises:%s" % type(e).__name__, "getLayerInterface(%s) from an interface layer raised %r" % (cls.__name__, e), {"helper": "own-stack-interface"})
                    continue
                if itf is None or owner is not stk:
                    acc.violation("interface-of-other-stack", "stack #%d's application layer got the %s interface of %s" % (k, cls.__name__, "nothing" if itf is None else "another stack"),
                                  {"helper": "own-stack-interface", "stack": k, "class": cls.__name__})

        # interfaces of layers inside the default parallel groups are found by class
        from yowsup.layers.protocol_iq import YowIqProtocolLayer
        from yowsup.layers.network import YowNetworkLayer
        from yowsup.layers.axolotl import AxolotlSendLayer
        for cls in (YowNetworkLayer,):
            acc.count("interface_lookups")
            if st.getLayerInterface(cls) is None:
                acc.violation("interface-default-missing", "interface of %s not found in the default stack" % cls.__name__, {"helper": "interface"})
    except Exception as e:  # noqa
        acc.violation("helper-raises:pushDefaultLayers:%s" % type(e).__name__, "pushDefaultLayers().push().build() raised %r" % (e,), {"helper": "pushDefaultLayers"})


_pcls_cache = {}


def prec_class(name):
    """Recording layer for list-valued data (the library's logger formats what it forwards with %s: no tuples)."""
    from yowsup.layers import YowLayer
    if name in _pcls_cache:
        return _pcls_cache[name]

    class PRec(YowLayer):
        NAME = name

        def __init__(self):
            super(PRec, self).__init__()
            INSTANCES[self.NAME] = self

        def send(self, data):
            LOG.append((self.NAME, "send", tuple(data)))
            self.toLower(list(data) + [self.NAME])

        def receive(self, data):
            LOG.append((self.NAME, "recv", tuple(data)))
            self.toUpper(list(data) + [self.NAME])

        def __str__(self):
            return "PRec(%s)" % self.NAME
    PRec.__name__ = "PRec_" + name
    _pcls_cache[name] = PRec
    return PRec


def library_passthrough_compositions(acc, r, n):
    """The library's own pass-through layer (YowLoggerLayer) as a plain layer and as a member of parallel groups of every size and
    position, explicit and implicit, built as class or via builder: data offered to every member, each member's output
    continuing to the group's neighbour (the logger forwards unchanged, the recording members append their name)."""
    from yowsup.stacks import YowStack, YowStackBuilder
    from yowsup.layers import YowParallelLayer
    from yowsup.layers.logger import YowLoggerLayer
    for k in range(n):
        size = r.randint(1, 4)
        xpos = r.randrange(size)
        members = ["X" if j == xpos else "M%d" % j for j in range(size)]
        plain = r.random() < 0.2
        shape = ["B"] + (["X"] if plain else [members]) + (["U"] if r.random() < 0.5 else []) + ["T"]
        route = r.choice(["explicit", "implicit", "builder"])
        w = {"helper": "library-passthrough", "shape": shape, "route": route}
        INSTANCES.clear()
        del LOG[:]

        def obj(it):
            if isinstance(it, list):
                classes = tuple(YowLoggerLayer if m == "X" else prec_class(m) for m in it)
                return classes if route == "implicit" else YowParallelLayer(classes)
            return YowLoggerLayer if it == "X" else prec_class(it)
        try:
            if route == "builder":
                b = YowStackBuilder()
                for it in shape:
                    b.push(obj(it))
                st = b.build()
            elif route == "implicit":
                st = YowStack(tuple(obj(it) for it in shape)[::-1], reversed=True)
            else:
                st = YowStack(tuple(obj(it) for it in shape), reversed=False)
        except Exception as e:  # noqa
            acc.violation("passthrough-build-raises:%s" % type(e).__name__, "building %r raised %r" % (shape, e), w)
            continue
        acc.count("passthrough_compositions")
        acc.case(["pt", shape, route], nontrivial=not plain)
        for direction in ("send", "recv"):
            del LOG[:]
            order = list(range(len(shape)))
            if direction == "send":
                order = order[::-1]
            want = []

            def go(i, path):
                if i >= len(order):
                    return
                it = shape[order[i]]
                for m in (it if isinstance(it, list) else [it]):
                    if m == "X":
                        go(i + 1, path)
                    else:
                        want.append((m, "send" if direction == "send" else "recv", path))
                        go(i + 1, path + (m,))
            # data enters at the outermost recording layer
            first = shape[order[0]]
            try:
                if direction == "send":
                    INSTANCES["T"].send(["D"])
                else:
                    INSTANCES["B"].receive(["D"])
            except Exception as e:  # noqa
                acc.violation("passthrough-raises:%s:%s" % (direction, type(e).__name__), "%s through %r raised %r" % (direction, shape, e), w)
                break
            go(0, ("D",))
            got = sorted((a, b_, c) for a, b_, c in LOG if b_ in ("send", "recv"))
            if got != sorted(want):
                miss = [x for x in want if x not in got][:3]
                extra = [x for x in got if x not in want][:3]
                acc.violation("passthrough-data:%s:%s" % (direction, "plain" if plain else "group"), "with the library's logger layer %s, data sent %s does not reach every layer once: missing %s, unexpected %s"
                              % ("as a plain layer" if plain else "inside a parallel group", direction, miss, extra), dict(w, direction=direction))
                break
        else:
            acc.count("passthrough_ok")


def library_emitter_cycles(acc, r, n, stackmod):
    """The library's own emitter of state events, YowNetworkLayer, at the bottom of stacks of recording layers (plain and parallel
    groups): its dispatcher callbacks are called for several connections in a row. For every connection the 'connected' event is
    seen once by every layer above at once, and the deferred 'disconnected' event once by the direct upper neighbour at once and
    by every layer further up only when the stack's loop runs, once."""
    from yowsup.stacks import YowStack, YowStackBuilder
    from yowsup.layers import YowParallelLayer
    from yowsup.layers.network import YowNetworkLayer
    C, D = YowNetworkLayer.EVENT_STATE_CONNECTED, YowNetworkLayer.EVENT_STATE_DISCONNECTED
    for k in range(n):
        shape = rand_shape(r)
        if len(shape) < 2:
            shape = shape + ["L9"]
        route = r.choice(["explicit", "implicit", "builder"])
        w = {"helper": "library-emitter", "shape": shape, "route": route}
        INSTANCES.clear()
        del LOG[:]

        def obj(it):
            if isinstance(it, list):
                classes = tuple(rec_class(m) for m in it)
                return classes if route == "implicit" else YowParallelLayer(classes)
            return rec_class(it)
        try:
            items = [YowNetworkLayer] + [obj(it) for it in shape]
            if route == "builder":
                b = YowStackBuilder()
                for it in items:
                    b.push(it)
                st = b.build()
            elif route == "implicit":
                st = YowStack(tuple(items)[::-1], reversed=True)
            else:
                st = YowStack(tuple(items), reversed=False)
        except Exception as e:  # noqa
            acc.violation("emitter-build-raises:%s" % type(e).__name__, "building %r over the network layer raised %r" % (shape, e), w)
            continue
        net = st.getLayer(0)
        if not isinstance(net, YowNetworkLayer):
            acc.violation("emitter-not-at-bottom", "layer 0 of the stack is %s" % type(net).__name__, w)
            continue
        acc.count("emitter_stacks")
        acc.case(["em", shape, route], nontrivial=True)
        pump(stackmod)
        first = shape[0] if isinstance(shape[0], list) else [shape[0]]
        upper = [m for it in shape[1:] for m in (it if isinstance(it, list) else [it])]
        ok = True
        for cyc in range(r.choice([2, 3, 4])):
            w["cycle"] = cyc
            del LOG[:]
            try:
                net.onConnected()
            except Exception as e:  # noqa
                acc.violation("emitter-raises:connected:%s" % type(e).__name__, "onConnected raised %r" % (e,), w)
                ok = False
                break
            seen = {m: len([1 for e_ in LOG if e_[0] == m and e_[1] == "event" and e_[2] == C]) for m in first + upper}
            if any(v != 1 for v in seen.values()):
                acc.violation("emitter-connected-count", "connection %d: the connected event was seen %s (expected once by every layer above the network layer)" % (cyc + 1, seen), w)
                ok = False
                break
            del LOG[:]
            net._disconnect_reason = r.choice([None, "x"])
            try:
                net.onDisconnected()
            except Exception as e:  # noqa
                acc.violation("emitter-raises:disconnected:%s" % type(e).__name__, "onDisconnected raised %r" % (e,), w)
                ok = False
                break
            cnt = lambda m: len([1 for e_ in LOG if e_[0] == m and e_[1] == "event" and e_[2] == D])
            early = {m: cnt(m) for m in upper if cnt(m)}
            near = {m: cnt(m) for m in first}
            if early:
                acc.violation("emitter-deferred-delivered-before-loop", "connection %d: the deferred disconnected event reached %s before the stack's loop ran" % (cyc + 1, sorted(early)), w)
                ok = False
                break
            if any(v != 1 for v in near.values()):
                acc.violation("emitter-disconnected-neighbour-count", "connection %d: the direct upper neighbour saw the disconnected event %s" % (cyc + 1, near), w)
                ok = False
                break
            pump(stackmod)
            late = {m: cnt(m) for m in first + upper}
            if any(v != 1 for v in late.values()):
                acc.violation("emitter-disconnected-count", "connection %d: after the loop ran the disconnected event was seen %s (expected once everywhere)" % (cyc + 1, late), w)
                ok = False
                break
            acc.count("emitter_cycles")
        if ok:
            acc.count("emitter_ok")


def library_stack_events(acc, r, n):
    """Events through stacks of the library's own layers (any selection of protocol modules, with and without the encryption
    layers, stack options drawn from their documented values): an event emitted below them reaches a probe above them exactly
    once, one broadcast from above reaches a probe below them exactly once; options do not change who sees an event."""
    from vf import stackkit
    from yowsup.layers import YowLayerEvent
    from yowsup.layers.network import YowNetworkLayer
    from yowsup.layers.auth import YowAuthenticationProtocolLayer
    from yowsup.layers.protocol_iq import YowIqProtocolLayer
    from yowsup.layers.axolotl.props import PROP_IDENTITY_AUTOTRUST
    from yowsup.layers.interface import YowInterfaceLayer
    sels = list(stackkit.selections())
    for k in range(n):
        sel = r.choice(sels)
        enc = r.random() < 0.5
        props = {YowIqProtocolLayer.PROP_PING_INTERVAL: r.choice([0, 0, 1, 5, 50, Ellipsis]),
                 YowAuthenticationProtocolLayer.PROP_PASSIVE: r.choice([True, False, Ellipsis]),
                 PROP_IDENTITY_AUTOTRUST: r.choice([True, False, Ellipsis]),
                 YowInterfaceLayer.PROP_RECONNECT_ON_STREAM_ERR: r.choice([True, False, Ellipsis])}
        w = {"helper": "library-stack-events", "selection": stackkit.sel_name(sel), "enc": enc, "props": {k_: (None if v is Ellipsis else v) for k_, v in props.items()}}
        try:
            kit = stackkit.Kit(sel, enc, props=props)
        except Exception as e:  # noqa
            acc.violation("libstack-build-raises:%s" % type(e).__name__, "building the library stack raised %r" % (e,), w)
            continue
        acc.count("libstack_stacks")
        acc.case(["ls", stackkit.sel_name(sel), enc, sorted((k_, str(v)) for k_, v in props.items())], nontrivial=True)
        ok = True
        # (a connection attempt that fails announces 'disconnected' without any 'connected' before it: twice in a row happens)
        ups = [("verif.neutral", {}), (YowNetworkLayer.EVENT_STATE_CONNECTED, {}), (YowNetworkLayer.EVENT_STATE_DISCONNECTED, {"reason": "x"}), ("verif.neutral2", {"a": 1}),
               (YowNetworkLayer.EVENT_STATE_DISCONNECTED, {"reason": "y"}), (YowNetworkLayer.EVENT_STATE_DISCONNECTED, {"reason": "z"})]
        r.shuffle(ups)
        for name, args in ups:
            kit.clear()
            try:
                kit.bottom.emitEvent(YowLayerEvent(name, **args))
            except Exception as e:  # noqa
                acc.violation("libstack-event-raises:up:%s" % type(e).__name__, "emitting %s below the library layers raised %r" % (name, e), w)
                ok = False
                break
            seen = kit.top.event_names().count(name)
            acc.count("libstack_events_up")
            if seen != 1:
                acc.violation("libstack-event-up:%s:%d" % (name.split(".")[-1], min(seen, 2)), "an event %s emitted below the library's layers was seen %d times above them (options %s)" % (name, seen, w["props"]), w)
                ok = False
                break
        downs = [("verif.neutral", {}), (YowNetworkLayer.EVENT_STATE_DISCONNECT, {"reason": "x"}), (YowNetworkLayer.EVENT_STATE_CONNECT, {})]
        r.shuffle(downs)
        for name, args in (downs if ok else []):
            kit.clear()
            try:
                kit.top.broadcastEvent(YowLayerEvent(name, **args))
            except Exception as e:  # noqa
                acc.violation("libstack-event-raises:down:%s" % type(e).__name__, "broadcasting %s above the library layers raised %r" % (name, e), w)
                ok = False
                break
            seen = kit.bottom.event_names().count(name)
            acc.count("libstack_events_down")
            if seen != 1:
                acc.violation("libstack-event-down:%s:%d" % (name.split(".")[-1], min(seen, 2)), "an event %s broadcast above the library's layers was seen %d times below them (options %s)" % (name, seen, w["props"]), w)
                ok = False
                break
        if ok:
            acc.count("libstack_ok")
        try:
            iq = kit.sublayer("YowIqProtocolLayer")
            if iq is not None:
                iq.stop_thread()
        except Exception:
            pass


def first_login_events(acc, r, n, prop=None):
    """The library's complete default stack (any module selection) between a probe above the network layer and one above the
    application, through a whole first login against the server double: passive login, key upload, the library's own disconnect
    and reconnect. Every state event the network layer emits is seen exactly once above the whole stack, in order."""
    from vf import world, stackkit
    sels = list(stackkit.selections())
    for k in range(n):
        W = world.World(seed=r.randrange(1 << 30), strategy=r.choice(["uniform", "app-first", "newest"]), batch=r.choice([5, 20, 40]), wiring="full")
        W.with_probes = True
        A = "4911" + gen.s_from(r, gen.DIGITS, 7)
        sel = r.choice(sels)
        w = {"helper": "first-login-events", "selection": stackkit.sel_name(sel)}
        try:
            W.add_client(A, modules=sel)
            W.script = [{"op": "connect", "who": A}, {"op": "wait-quiet"}]
            if not W.run(max_steps=12000) or not W.clients[A].ready():
                acc.inconc("first-login-events: the first login did not complete")
                continue
            c = W.clients[A]
            low = [x.rsplit(".", 1)[-1] for x in c.probe_low.event_names() if x.rsplit(".", 1)[-1] in ("connected", "disconnected")]
            top = [x.rsplit(".", 1)[-1] for x in c.probe_top.event_names() if x.rsplit(".", 1)[-1] in ("connected", "disconnected")]
            acc.count("first_login_stacks")
            acc.count("first_login_state_events", len(low))
            acc.case(["fl", stackkit.sel_name(sel), k], nontrivial=True)
            if len(low) < 3:
                acc.inconc("first-login-events: fewer than three state events directly above the network layer: %s" % low)
                continue
            if top != low:
                acc.violation("first-login-events:%s" % ("duplicate" if len(top) > len(low) else "lost" if len(top) < len(low) else "order"),
                              "the network layer's state events %s were seen above the whole stack as %s" % (low, top), w)
            else:
                acc.count("first_login_ok")
        except Exception as e:  # noqa
            import traceback
            acc.inconc("first-login-events: harness crashed: %s" % traceback.format_exc()[-500:])
        finally:
            W.close()


def transport_layers_event_pass(acc, r, n, stackmod):
    """The library's transport layers (framing, Noise, coder, logger) between a probe below and recording layers above, in the
    states a connection leaves them in (a frame half received, a frame just completed, nothing received): the deferred
    'disconnected' announcement and plain events pass them and are seen once by every layer above."""
    import struct
    from vf.probes import Probe
    from yowsup.stacks import YowStack
    from yowsup.layers import YowLayerEvent
    from yowsup.layers.network import YowNetworkLayer
    from yowsup.layers.noise.layer_noise_segments import YowNoiseSegmentsLayer
    from yowsup.layers.coder import YowCoderLayer
    from yowsup.layers.logger import YowLoggerLayer
    D = YowNetworkLayer.EVENT_STATE_DISCONNECTED
    for k in range(n):
        mids = r.choice([[YowNoiseSegmentsLayer], [YowNoiseSegmentsLayer, YowLoggerLayer], [YowNoiseSegmentsLayer]])
        bottom = Probe("bottom", forward_down=False)
        INSTANCES.clear()
        del LOG[:]
        ups_ = {"U1": Probe("U1"), "U2": Probe("U2", forward_up=False)}
        st = YowStack(tuple([bottom] + mids + [ups_["U1"], ups_["U2"]]), reversed=False, props={YowNoiseSegmentsLayer.PROP_ENABLED: True})
        state = r.choice(["half-frame", "half-header", "complete-frame", "nothing"])
        w = {"helper": "transport-event-pass", "layers": [m.__name__ for m in mids], "state": state}
        acc.count("transport_event_cases")
        acc.count("transport_event_state:" + state)
        acc.case(["tep", w["layers"], state, k], nontrivial=True)
        try:
            payload = bytes(r.getrandbits(8) for _ in range(r.randint(4, 40)))
            frame = struct.pack(">I", len(payload))[1:] + payload
            if state == "half-frame":
                bottom.receive(frame[:r.randint(4, len(frame) - 1)])
            elif state == "half-header":
                bottom.receive(frame[:r.randint(1, 2)])
            elif state == "complete-frame":
                bottom.receive(frame)
            for p_ in ups_.values():
                p_.clear()
            for rep in range(2):
                bottom.emitEvent(YowLayerEvent(D, reason="x", detached=True))
                pump(stackmod)
                bottom.emitEvent(YowLayerEvent("verif.plain"))
            seen = {m: (p_.event_names().count(D), p_.event_names().count("verif.plain")) for m, p_ in ups_.items()}
        except Exception as e:  # noqa
            acc.violation("transport-event-raises:%s" % type(e).__name__, "events through the transport layers raised %r" % (e,), w)
            continue
        if any(v != (2, 2) for v in seen.values()):
            acc.violation("transport-event-pass:%s" % state, "with %s in the framing layer, two 'disconnected' announcements and two plain events emitted below %s were seen %s above them (expected 2 and 2 each)"
                          % (state.replace("-", " "), w["layers"], seen), w)
        else:
            acc.count("transport_event_ok")


def shards(tier, seed, nworkers):
    q = tier == "quick"
    specs = [{"kind": "helpers"}]
    ex = 3 if q else 4
    nsh = 4 if q else nworkers
    for i in range(nsh):
        specs.append({"kind": "exhaustive", "max_items": ex, "part": [i, nsh], "routes": ROUTES if not q else ROUTES[:4]})
    for i in range(nsh):
        specs.append({"kind": "random", "shard": i, "n": (60 if q else 3000) // nsh, "event_budget": 60 if q else 200})
    return specs


def run(spec, acc):
    from vf import env
    env.shim_thirdparty()
    import yowsup.stacks.yowstack as stackmod
    seed = spec["seed"]
    if spec["kind"] == "helpers":
        helpers(acc)
        library_passthrough_compositions(acc, gen.rng(seed, ID, "passthrough"), 400)
        library_emitter_cycles(acc, gen.rng(seed, ID, "emitter"), 150, stackmod)
        library_stack_events(acc, gen.rng(seed, ID, "libstack"), 120)
        first_login_events(acc, gen.rng(seed, ID, "firstlogin"), 8)
        transport_layers_event_pass(acc, gen.rng(seed, ID, "transportev"), 120, stackmod)
        acc.sample({"helpers": "getProtocolLayers/getDefaultLayers x 16 flag combos, getDefaultStack x 32 x {no layer, layer}, positional args, pushDefaultLayers"})
        return
    if spec["kind"] == "exhaustive":
        k = 0
        for shape in gen_shapes_exhaustive(spec["max_items"]):
            for route in spec["routes"]:
                k += 1
                if k % spec["part"][1] != spec["part"][0]:
                    continue
                r = gen.rng(seed, ID, "ex/%d" % k)
                judge_shape(acc, shape, route, r, stackmod)
                if k < 40 and len(acc.samples) < 2:
                    acc.sample({"shape_bottom_to_top": shape, "route": route})
        acc.count("exhaustive_shape_routes", k // spec["part"][1])
        return
    for i in range(spec["n"]):
        r = gen.rng(seed, ID, "rand/%d/%d" % (spec["shard"], i))
        shape = rand_shape(r)
        route = r.choice(ROUTES)
        judge_shape(acc, shape, route, r, stackmod, event_budget=spec["event_budget"])
        if i < 2:
            acc.sample({"shape_bottom_to_top": shape, "route": route})


def replay(spec, acc):
    from vf import env
    env.shim_thirdparty()
    import yowsup.stacks.yowstack as stackmod
    import random
    w = spec["witness"]
    if "helper" in w:
        helpers(acc)
        return
    judge_shape(acc, w["shape"], w["route"], random.Random(0), stackmod)
