"""C10 — message payloads: attribute objects <-> protobuf bytes round trip, both directions."""
import inspect
import itertools
import struct
import traceback

from vf import gen

ID = "C10"
LEVEL = "exploration"
RULE = ("one evaluation = one attribute object (all message kinds; every subset of optional fields for classes with <= 10 "
        "optionals, random subsets otherwise; generated values incl. unicode, empty strings, zeros, blobs; quoted messages "
        "nested to depth 3) serialised by message_to_protobytes and parsed back by protobytes_to_message, compared by a "
        "reflective field-by-field comparator on the fields the sender set; or one peer payload built directly as protobuf, "
        "parsed and re-serialised, compared on the fields the library models; also through the message entity classes. "
        "Non-trivial = at least one optional field set or nested context; distinct by (kind, subset, values hash)")
ASSUMPTIONS = ["fields the sender left unset (None / empty mention list) may come back as protobuf defaults",
               "floats are compared after rounding to the protobuf field width",
               "field types are taken from the repository's generated protobuf descriptors (data, not logic)"]
REQUIRED = ["failing_compositions", "lists_edited_in_place", "composed_with_omitted_arguments", "entity_recompose_cases", "entity_recompose_ok", "objects", "peer_payloads", "entity_roundtrips", "subsets_enumerated", "fields_compared", "nested_quoted",
            "kind:image", "kind:video", "kind:audio", "kind:document", "kind:sticker", "kind:location", "kind:contact",
            "kind:extended_text", "kind:protocol", "kind:sender_key_distribution_message", "kind:conversation"]
TIMEOUT = {"quick": 900, "thorough": 7200}

# kind -> (attribute class name, MessageAttributes kwarg, proto message field, proto type path)
KINDS = {
    "image": ("ImageAttributes", "image_message", "ImageMessage"),
    "video": ("VideoAttributes", "video_message", "VideoMessage"),
    "audio": ("AudioAttributes", "audio_message", "AudioMessage"),
    "document": ("DocumentAttributes", "document_message", "DocumentMessage"),
    "sticker": ("StickerAttributes", "sticker_message", "StickerMessage"),
    "location": ("LocationAttributes", "location_message", "LocationMessage"),
    "contact": ("ContactAttributes", "contact_message", "ContactMessage"),
    "extended_text": ("ExtendedTextAttributes", "extended_text_message", "ExtendedTextMessage"),
    "protocol": ("ProtocolAttributes", "protocol_message", "ProtocolMessage"),
    "sender_key_distribution_message": ("SenderKeyDistributionMessageAttributes", "sender_key_distribution_message", "SenderKeyDistributionMessage"),
}
OPTIONAL_OVERRIDE = {
    "ExtendedTextAttributes": {"matched_text", "canonical_url", "description", "title", "jpeg_thumbnail", "context_info"},
    "MessageKeyAttributes": {"participant"},
}
_mods = {}


def M():
    if not _mods:
        from yowsup.layers.protocol_messages.protocolentities.attributes import converter as c
        from yowsup.layers.protocol_messages.proto import e2e_pb2, protocol_pb2
        _mods.update(c=c, e2e=e2e_pb2, proto=protocol_pb2, conv=c.AttributesConverter.get())
    return _mods


def proto_cls(name):
    m = M()
    if name == "ContextInfo":
        return m["e2e"].ContextInfo
    if name == "MessageKey":
        return m["proto"].MessageKey
    return getattr(m["e2e"].Message, name)


def params_of(clsname):
    cls = getattr(M()["c"], clsname)
    sig = inspect.signature(cls.__init__)
    mand, opt = [], []
    for p in list(sig.parameters.values())[1:]:
        if p.default is inspect.Parameter.empty and p.name not in OPTIONAL_OVERRIDE.get(clsname, ()):
            mand.append(p.name)
        else:
            opt.append(p.name)
    return cls, mand, opt, [p.name for p in list(sig.parameters.values())[1:]]


def value_for(r, fd, name):
    """A generated value for a protobuf field descriptor."""
    t = fd.type
    if fd.label == 3:
        return [gen.jid(r) for _ in range(r.randint(1, 4))]
    if t == 9:   # string
        c = r.random()
        if c < 0.12:
            return ""
        if name in ("remote_jid", "participant"):
            c2 = r.random()
            if c2 < 0.1:
                # (newer group ids have no dash; the status list is a chat of its own; companion devices carry a suffix)
                return r.choice(["1203630%s@g.us" % gen.s_from(r, gen.DIGITS, 11), "status@broadcast", "%s:%d@s.whatsapp.net" % (gen.phone(r), r.randint(1, 9)),
                                 "%s@broadcast" % gen.s_from(r, gen.DIGITS, 10)])
            return gen.jid(r, group=r.random() < 0.3)
        if name in ("stanza_id", "id"):
            return gen.msgid(r)
        if name in ("url", "canonical_url", "matched_text"):
            return "https://%s.example/%s" % (gen.s_from(r, "abcdefgh", 5), gen.unicode_text(r, 0, 10))
        if name == "mimetype":
            return r.choice(["image/jpeg", "video/mp4", "audio/ogg; codecs=opus", "application/pdf", "image/webp", ""])
        return gen.unicode_text(r, 0, 30)
    if t == 12:  # bytes
        return gen.blob(r, r.choice([0, 1, 32, 32, 100, 700]))
    if t in (13, 4, 5, 3):  # uint32 / uint64 / int32 / int64
        top = 2 ** 32 - 1 if t == 13 else (2 ** 63 - 1 if t in (4, 3) else 2 ** 31 - 1)
        return r.choice([0, 1, 2, 640, r.randint(0, 100000), top])
    if t == 8:
        return r.random() < 0.5
    if t == 14:  # enum
        return r.choice([v.number for v in fd.enum_type.values])
    if t == 1:   # double
        return r.choice([0.0, -33.8688, 151.2093, r.uniform(-180, 180)])
    if t == 2:   # float
        return r.choice([0.0, 1.5, r.uniform(0, 100)])
    raise ValueError("unsupported proto type %s for %s" % (t, name))


def gen_obj(r, clsname, protoname, subset=None, depth=0, stats=None):
    """Build an attribute object of class clsname; subset = optional fields to set (None = random)."""
    cls, mand, opt, order = params_of(clsname)
    pcls = proto_cls(protoname)
    chosen = set(mand) | (set(subset) if subset is not None else {o for o in opt if r.random() < 0.5})
    kw = {}
    for name in order:
        if name not in chosen:
            kw[name] = None
            continue
        if name == "downloadablemedia_attributes":
            kw[name] = gen_obj(r, "DownloadableMediaMessageAttributes", protoname, depth=depth, stats=stats)
        elif name == "file_length" and "downloadablemedia_attributes" in kw and kw["downloadablemedia_attributes"] is not None:
            # DocumentAttributes.file_length and its downloadable part's file_length are the same wire field
            kw[name] = kw["downloadablemedia_attributes"].file_length
        elif name == "context_info":
            if depth >= 3:
                kw[name] = None
            else:
                kw[name] = gen_obj(r, "ContextInfoAttributes", "ContextInfo", depth=depth + 1, stats=stats)
        elif name == "quoted_message":
            if depth >= 3:
                kw[name] = None
            else:
                if stats is not None:
                    stats["nested"] = max(stats.get("nested", 0), depth)
                kw[name] = gen_message(r, depth=depth, stats=stats)[1]
        elif name == "key":
            kw[name] = gen_obj(r, "MessageKeyAttributes", "MessageKey", depth=depth, stats=stats)
        else:
            kw[name] = value_for(r, pcls.DESCRIPTOR.fields_by_name[name], name)
    # an application leaves out what it does not set, or passes None for it: both ways occur
    omit = r.random() < 0.5
    has_default = set(p.name for p in list(inspect.signature(cls.__init__).parameters.values())[1:] if p.default is not inspect.Parameter.empty)
    obj = cls(**({k: v for k, v in kw.items() if not (v is None and k in has_default)} if omit else kw))
    if stats is not None:
        stats["omitted_kwargs"] = stats.get("omitted_kwargs", 0) + (1 if omit else 0)
        for name in order:
            if name not in chosen:
                v = getattr(obj, name, None)
                if v:
                    # (the library turns some unset fields into their empty default: '' / b'' / 0 / False / []; a non-empty value
                    # nobody set is something else)
                    stats.setdefault("unset_with_value", []).append("%s.%s = %s" % (clsname, name, short(v)))
    _BUILT.append(obj)
    del _BUILT[:-50]
    return obj


_BUILT = []


def failing_compositions(r, acc):
    """What also happens in a long-lived process: now and then an application composes something that cannot be serialised (a
    text where a number belongs, deep inside a quoted message) and gets an exception. Later, valid messages are none of its
    business: they are judged as always."""
    c = M()["c"]
    conv = M()["conv"]
    for _ in range(2):
        try:
            bad = gen_obj(r, "ImageAttributes", "ImageMessage", subset=[])
            bad._width = "not a number"
            inner = c.MessageAttributes(image=bad)
            for depth in range(r.choice([1, 2, 3])):
                ctx = c.ContextInfoAttributes(stanza_id=gen.msgid(r), participant=gen.jid(r), quoted_message=inner)
                inner = c.MessageAttributes(extended_text=c.ExtendedTextAttributes(gen.unicode_text(r, 1, 10), None, None, None, None, None, context_info=ctx))
            conv.message_to_protobytes(inner)
            acc.count("failing_compositions_that_passed")
        except Exception:  # noqa
            acc.count("failing_compositions")


def edit_in_place(r, acc):
    """What an application may do with an object it composed earlier: add to its list-valued fields in place. Objects composed
    later must not notice."""
    for o in _BUILT[-6:]:
        for n in public_props(o):
            v = getattr(o, n, None)
            if isinstance(v, list):
                v.append("49%s@s.whatsapp.net" % gen.s_from(r, gen.DIGITS, 8))
                acc.count("lists_edited_in_place")


def gen_message(r, kind=None, subset=None, depth=0, stats=None, with_skdm=None):
    c = M()["c"]
    kind = kind or r.choice(list(KINDS) + ["conversation"])
    kw = {}
    if kind == "conversation":
        kw["conversation"] = gen.unicode_text(r, 1, 60) if r.random() < 0.93 else ""
    else:
        clsname, _, protoname = KINDS[kind]
        kw[kind] = gen_obj(r, clsname, protoname, subset=subset, depth=depth, stats=stats)
    if (with_skdm if with_skdm is not None else r.random() < 0.15) and kind != "sender_key_distribution_message":
        kw["sender_key_distribution_message"] = gen_obj(r, "SenderKeyDistributionMessageAttributes", "SenderKeyDistributionMessage")
    return kind, c.MessageAttributes(**kw)


# ---------------------------------------------------------------------------------------------
# reflective comparator
def public_props(obj):
    return [n for n, v in inspect.getmembers(type(obj), lambda v: isinstance(v, property)) if not n.startswith("_")]


def is_attr_obj(v):
    return type(v).__module__.startswith("yowsup.layers.protocol_messages.protocolentities.attributes")


def f32(x):
    return struct.unpack("f", struct.pack("f", x))[0]


def cmp_attrs(a, b, path, counters, float32=()):
    """First difference between sender object a and parsed object b, on the fields a has set; None if none."""
    if b is None:
        return "%s: lost entirely" % path
    if type(a) is not type(b):
        return "%s: type %s vs %s" % (path, type(a).__name__, type(b).__name__)
    for name in public_props(a):
        va = getattr(a, name)
        if va is None or (isinstance(va, (list, tuple)) and len(va) == 0):
            vb = getattr(b, name)
            if vb not in (None, [], ()) :
                counters["none_to_default"] = counters.get("none_to_default", 0) + 1
            continue
        vb = getattr(b, name)
        p = "%s.%s" % (path, name)
        counters["fields"] = counters.get("fields", 0) + 1
        if is_attr_obj(va):
            d = cmp_attrs(va, vb, p, counters)
            if d:
                return d
            continue
        if isinstance(va, (list, tuple)):
            if vb is None or list(va) != list(vb):
                return "%s: %r != %r" % (p, list(va)[:3], None if vb is None else list(vb)[:3])
            continue
        if isinstance(va, float):
            if vb is None or (va != vb and f32(va) != vb):
                return "%s: %r != %r" % (p, va, vb)
            continue
        if va != vb or (type(va) is not type(vb) and not (isinstance(va, (int, bool)) and isinstance(vb, (int, bool)))):
            return "%s: %s != %s" % (p, short(va), short(vb))
    return None


def short(v):
    r = repr(v)
    return r if len(r) < 60 else r[:57] + "..."


def mech(diff_or_exc):
    """Mechanism key fragment from a diff path: class-level field path without values."""
    path = diff_or_exc.split(":")[0].replace("msg.", "").replace("Message.", "")
    path = path.split("quoted_message.")[-1]
    for mid in ("downloadablemedia_attributes.", "context_info.", "_message"):
        path = path.replace(mid, "")
    return path


def check_object(acc, r, kind, msg, tag, subset_desc, stats):
    conv = M()["conv"]
    acc.count("objects")
    acc.count("kind:" + kind)
    nontriv = bool(subset_desc) or stats.get("nested", -1) >= 0
    acc.case(["o", tag], nontrivial=nontriv)
    w = {"op": "object", "tag": tag, "kind": kind, "subset": subset_desc}
    try:
        data = conv.message_to_protobytes(msg)
    except Exception as e:  # noqa
        fr = [fs for fs in traceback.extract_tb(e.__traceback__) if "/yowsup/" in fs.filename][-1:]
        acc.violation("serialise-raises:%s:%s" % (type(e).__name__, fr[0].name if fr else "?"), "message_to_protobytes raised %r for a %s message (optional fields set: %s)" % (e, kind, subset_desc), w)
        return None
    try:
        back = conv.protobytes_to_message(data)
    except Exception as e:  # noqa
        acc.violation("parse-raises:%s:%s" % (kind, type(e).__name__), "protobytes_to_message raised %r on the library's own payload" % (e,), w)
        return None
    if stats.get("unset_with_value"):
        acc.violation("unset-field-has-value:%s" % stats["unset_with_value"][0].split(" = ")[0], "a field the sender did not set carries a value in the composed object: %s" % stats["unset_with_value"][:3], w)
        return None
    acc.count("composed_with_omitted_arguments", 1 if stats.get("omitted_kwargs") else 0)
    counters = {}
    d = cmp_attrs(msg, back, "msg", counters)
    acc.count("fields_compared", counters.get("fields", 0))
    acc.count("none_to_default_observed", counters.get("none_to_default", 0))
    if d:
        acc.violation("field-lost-or-changed:%s" % mech(d), "a field the sender set does not survive: %s" % d, w)
    else:
        acc.count("object_ok")
    if acc.counters.get("objects", 0) % 9 == 0:
        edit_in_place(r, acc)
    if acc.counters.get("objects", 0) % 17 == 0:
        failing_compositions(r, acc)
    return data


def check_entity(acc, r, kind, msg, tag):
    """Through the message entity classes: entity -> stanza -> entity -> attributes."""
    from yowsup.layers.protocol_messages.protocolentities.protomessage import ProtomessageProtocolEntity
    from yowsup.layers.protocol_media.protocolentities.message_media import MediaMessageProtocolEntity
    from yowsup.layers.protocol_messages.protocolentities.attributes.attributes_message_meta import MessageMetaAttributes
    acc.count("entity_roundtrips")
    meta = MessageMetaAttributes(id=gen.msgid(r), recipient=gen.jid(r))
    w = {"op": "entity", "tag": tag, "kind": kind}
    try:
        if kind in ("conversation", "protocol", "sender_key_distribution_message"):
            ent = ProtomessageProtocolEntity("text", msg, meta)
            node = ent.toProtocolTreeNode()
            back = ProtomessageProtocolEntity.fromProtocolTreeNode(node)
        else:
            mt = {"extended_text": "url"}.get(kind, kind)
            ent = MediaMessageProtocolEntity(mt, msg, meta)
            node = ent.toProtocolTreeNode()
            back = MediaMessageProtocolEntity.fromProtocolTreeNode(node)
            if back.media_type != mt:
                acc.violation("entity-mediatype", "media type %r came back as %r" % (mt, back.media_type), w)
    except Exception as e:  # noqa
        acc.violation("entity-raises:%s:%s" % (type(e).__name__, ([fs.name for fs in traceback.extract_tb(e.__traceback__) if "/yowsup/" in fs.filename] or ["?"])[-1]), "entity round trip raised %r" % (e,), w)
        return
    d = cmp_attrs(msg, back.message_attributes, "msg", {})
    if d:
        acc.violation("entity-field-lost-or-changed:%s" % mech(d), "through the entity classes: %s" % d, w)
        return
    # composing in steps: the application changes fields of an entity it has already serialised once (attribute objects are
    # mutable through their properties) and sends it; the payload must carry the content as it is now
    try:
        _, msg2 = gen_message(r, kind, with_skdm=False)
        changed = 0
        for p in public_props(msg):
            v1, v2 = getattr(msg, p), getattr(msg2, p)
            if is_attr_obj(v1) and is_attr_obj(v2) and type(v1) is type(v2):
                for q in public_props(v1):
                    try:
                        setattr(v1, q, getattr(v2, q))
                        changed += 1
                    except AttributeError:
                        pass        # read-only property
            elif p == "conversation" and v1 is not None and v2:      # (an empty text is the known 'no text' finding, judged elsewhere)
                msg.conversation = v2
                changed += 1
        if not changed:
            return
        acc.count("entity_recompose_cases")
        node2 = ent.toProtocolTreeNode()
        back2 = type(ent).fromProtocolTreeNode(node2)
    except Exception as e:  # noqa
        acc.violation("entity-recompose-raises:%s" % type(e).__name__, "changing fields of a serialised entity and serialising again raised %r" % (e,), w)
        return
    d = cmp_attrs(msg, back2.message_attributes, "msg", {})
    if d and mech(d) == "conversation" and ": '' != None" in d:
        # the known 'empty text is no text' mechanism (here inside a quoted message), same key as in the plain entity round trip
        acc.violation("entity-field-lost-or-changed:conversation", "through the entity classes: %s" % d, w)
    elif d:
        acc.violation("entity-recompose-stale:%s" % mech(d), "fields changed after a first serialisation are not in the second payload: %s" % d, w)
    else:
        acc.count("entity_recompose_ok")


# ---------------------------------------------------------------------------------------------
# peer direction
def fill_proto(r, pm, modelled, depth, p_set=0.6):
    """Set generated values on the modelled fields of protobuf message pm."""
    for fd in pm.DESCRIPTOR.fields:
        if fd.name not in modelled(pm.DESCRIPTOR.name):
            continue
        if r.random() > p_set:
            continue
        if fd.type == 11:
            if depth >= 3:
                continue
            sub = getattr(pm, fd.name)
            if fd.message_type.name == "Message":
                fill_message_proto(r, sub, modelled, depth + 1)
            else:
                fill_proto(r, sub, modelled, depth + 1)
                sub.SetInParent()
        elif fd.label == 3:
            getattr(pm, fd.name)[:] = value_for(r, fd, fd.name)
        else:
            setattr(pm, fd.name, value_for(r, fd, fd.name))


def fill_message_proto(r, m, modelled, depth):
    kind = r.choice(list(KINDS) + ["conversation"])
    if kind == "conversation":
        m.conversation = gen.unicode_text(r, 1, 40)
    else:
        sub = getattr(m, KINDS[kind][1])
        fill_proto(r, sub, modelled, depth)
        sub.SetInParent()
    return kind


def modelled_fields():
    """proto message name -> field names the library models (public properties of the attribute class)."""
    c = M()["c"]
    table = {}
    for kind, (clsname, field, protoname) in KINDS.items():
        cls = getattr(c, clsname)
        names = set(n for n, v in inspect.getmembers(cls, lambda v: isinstance(v, property)))
        if "downloadablemedia_attributes" in names:
            names |= set(n for n, v in inspect.getmembers(c.DownloadableMediaMessageAttributes, lambda v: isinstance(v, property)))
        table[protoname] = names
    table["ContextInfo"] = set(n for n, v in inspect.getmembers(c.ContextInfoAttributes, lambda v: isinstance(v, property)))
    table["MessageKey"] = {"remote_jid", "from_me", "id", "participant"}
    table["Message"] = {"conversation"} | {KINDS[k][1] for k in KINDS}
    return lambda name: table.get(name, set())


def cmp_proto(a, b, modelled, path, counters):
    for fd in a.DESCRIPTOR.fields:
        if fd.name not in modelled(a.DESCRIPTOR.name):
            continue
        p = "%s.%s" % (path, fd.name)
        if fd.label == 3:
            if list(getattr(a, fd.name)) != list(getattr(b, fd.name)):
                return "%s: repeated field changed" % p
            continue
        if not a.HasField(fd.name):
            if b.HasField(fd.name):
                if getattr(b, fd.name) != fd.default_value and fd.type != 11:
                    return "%s: unset field became %s" % (p, short(getattr(b, fd.name)))
                counters["unset_to_default"] = counters.get("unset_to_default", 0) + 1
            continue
        counters["fields"] = counters.get("fields", 0) + 1
        if not b.HasField(fd.name):
            # an empty conversation string is the same 'no text' in both directions
            return "%s: set field dropped (was %s)" % (p, short(getattr(a, fd.name)) if fd.type != 11 else "<message>")
        if fd.type == 11:
            d = cmp_proto(getattr(a, fd.name), getattr(b, fd.name), modelled, p, counters)
            if d:
                return d
        elif getattr(a, fd.name) != getattr(b, fd.name):
            return "%s: %s != %s" % (p, short(getattr(a, fd.name)), short(getattr(b, fd.name)))
    return None


def check_peer(acc, r, tag):
    m = M()
    conv = m["conv"]
    modelled = modelled_fields()
    pm = m["e2e"].Message()
    kind = fill_message_proto(r, pm, modelled, 0)
    if r.random() < 0.15 and kind != "sender_key_distribution_message":
        fill_proto(r, pm.sender_key_distribution_message, modelled, 0, p_set=1.0)
    acc.count("peer_payloads")
    acc.count("peer_kind:" + kind)
    acc.case(["p", tag], nontrivial=True)
    data = pm.SerializeToString()
    w = {"op": "peer", "tag": tag, "kind": kind, "payload": data.hex() if len(data) < 1500 else None}
    try:
        back = conv.message_to_protobytes(conv.protobytes_to_message(data))
    except Exception as e:  # noqa
        fr = [fs for fs in traceback.extract_tb(e.__traceback__) if "/yowsup/" in fs.filename][-1:]
        acc.violation("peer-raises:%s:%s" % (type(e).__name__, fr[0].name if fr else "?"), "parse + re-serialise of a peer payload raised %r" % (e,), w)
        return
    pm2 = m["e2e"].Message()
    pm2.ParseFromString(back)
    counters = {}
    d = cmp_proto(pm, pm2, modelled, "Message", counters)
    acc.count("fields_compared", counters.get("fields", 0))
    acc.count("unset_to_default_observed", counters.get("unset_to_default", 0))
    if d:
        acc.violation("peer-field-changed:%s" % mech(d), "re-serialising a peer payload changes a modelled field: %s" % d, w)
    else:
        acc.count("peer_ok")


# ---------------------------------------------------------------------------------------------
def subsets_for(kind):
    clsname, _, protoname = KINDS[kind]
    cls, mand, opt, order = params_of(clsname)
    if len(opt) <= 10:
        for k in range(len(opt) + 1):
            for c in itertools.combinations(opt, k):
                yield list(c)


def shards(tier, seed, nworkers):
    q = tier == "quick"
    nsh = 4 if q else nworkers
    specs = []
    for i in range(nsh):
        specs.append({"kind": "subsets", "part": [i, nsh], "reps": 1 if q else 8})
        specs.append({"kind": "random", "shard": i, "n": (6000 if q else 400000) // nsh, "peer": (4000 if q else 300000) // nsh})
    return specs


def run(spec, acc):
    from vf import env
    env.shim_thirdparty()
    seed = spec["seed"]
    if spec["kind"] == "subsets":
        k = 0
        for kind in KINDS:
            n_sub = 0
            for sub in subsets_for(kind):
                n_sub += 1
                k += 1
                if k % spec["part"][1] != spec["part"][0]:
                    continue
                for rep in range(spec["reps"]):
                    tag = "sub/%s/%d/%d" % (kind, n_sub, rep)
                    r = gen.rng(seed, ID, tag)
                    stats = {}
                    _, msg = gen_message(r, kind, subset=sub, stats=stats, with_skdm=False)
                    acc.count("subsets_enumerated")
                    check_object(acc, r, kind, msg, tag, sub, stats)
                    if rep == 0:
                        check_entity(acc, r, kind, msg, tag)
            acc.seen("subset_space", "%s:%d" % (kind, n_sub))
        acc.sample({"subsets": "every subset of optional constructor fields per message kind", "kinds": sorted(KINDS)})
    else:
        sh = spec["shard"]
        for i in range(spec["n"]):
            tag = "rand/%d/%d" % (sh, i)
            r = gen.rng(seed, ID, tag)
            stats = {}
            kind, msg = gen_message(r, stats=stats)
            if stats.get("nested", -1) >= 0:
                acc.count("nested_quoted")
                acc.maxi("quoted_depth", stats["nested"] + 1)
            check_object(acc, r, kind, msg, tag, ["random"], stats)
            if i % 5 == 0:
                check_entity(acc, r, kind, msg, tag)
            if i < 2:
                acc.sample({"kind": kind, "tag": tag, "set_fields": describe(msg)})
        for i in range(spec["peer"]):
            tag = "peer/%d/%d" % (sh, i)
            check_peer(acc, gen.rng(seed, ID, tag), tag)


def describe(obj, depth=0):
    out = {}
    for n in public_props(obj):
        v = getattr(obj, n)
        if v is None or v == []:
            continue
        out[n] = describe(v, depth + 1) if is_attr_obj(v) and depth < 3 else (short(v))
    return out


def replay(spec, acc):
    from vf import env
    env.shim_thirdparty()
    w = spec["witness"]
    seed = spec["seed"]
    tag = w["tag"]
    r = gen.rng(seed, ID, tag)
    if w["op"] == "peer":
        check_peer(acc, r, tag)
        return
    stats = {}
    if tag.startswith("sub/"):
        _, msg = gen_message(r, w["kind"], subset=w["subset"], stats=stats, with_skdm=False)
    else:
        _, msg = gen_message(r, stats=stats)
    if w["op"] == "object":
        check_object(acc, r, w["kind"], msg, tag, w.get("subset"), stats)
    else:
        check_object(acc, r, w["kind"], msg, tag, w.get("subset"), stats)
        check_entity(acc, r, w["kind"], msg, tag)
