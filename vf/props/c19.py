"""C19 — account configuration survives serialisation and is saved atomically."""
import itertools
import os
import shutil
import traceback

from vf import gen, inject

ID = "C19"
LEVEL = "fault_enumeration"
RULE = ("one evaluation = one configuration round trip (field subset x generated values x format x write route x load "
        "path x profile used/never used) compared field-wise (keys as bytes), or one crash child killed with os._exit at one "
        "write boundary (Python line in the save path, file open, every 7-byte chunk reaching the OS, close, rename) after "
        "which the profile must load as the previous or the new configuration; subsets of size <= 2 and >= 13 of the 15 "
        "optional fields exhaustively; non-trivial = a binary field is present / the child died strictly inside the save; "
        "distinct by (subset, values hash, route) / (case, crash point)")
ASSUMPTIONS = ["process death only (os._exit): power loss / fsync ordering is not observable here",
               "the untyped key=value format is compared as strings; values there contain no comment characters, '=' only inside, and no surrounding blanks",
               "text values are valid unicode without control characters (key=value) / arbitrary unicode (JSON)"]
REQUIRED = ["loads_after_rejected_config", "rewrites_in_other_format", "rewrite_other_format_ok", "loads_through_stack_setProfile", "second_saves", "second_save_ok", "read_before_save", "roundtrips", "route:save-profile", "route:save-dest", "route:str-file", "never_used_profiles", "binary_fields",
            "crash_children", "crash_died_inside", "crash_outcome:old", "crash_outcome:new"]
TIMEOUT = {"quick": 900, "thorough": 7200}

OPTIONAL = ["cc", "login", "password", "pushname", "id", "mcc", "mnc", "sim_mcc", "sim_mnc", "client_static_keypair",
            "server_static_public", "expid", "fdid", "edge_routing_info", "chat_dns_domain"]
BINARY = {"id", "expid", "edge_routing_info", "client_static_keypair", "server_static_public"}
FIELDS = ["phone"] + OPTIONAL


def kv_text(r, lo=0, hi=24):
    """Printable text without comment characters, newlines or surrounding blanks."""
    n = r.randint(lo, hi)
    pools = ["abcdefghijklmnopqrstuvwxyzABCDEFGHIJKLMNOPQRSTUVWXYZ", "0123456789", " _-+/.:,!?()[]{}<>@$%^&*'\"\\|~`=", "äöüßéñ", "日本語", "😀"]
    s = "".join(r.choice(r.choice(pools)) for _ in range(n)).strip()
    return s


def json_text(r):
    c = r.random()
    if c < 0.5:
        return kv_text(r)
    if c < 0.7:
        return gen.unicode_text(r, 0, 30) + r.choice(["", "#c", ";x", " ", "\n", "\t", "=", "\\", '"'])
    # any code point a Python string can hold, lone surrogates included (a JSON file may spell them as \\udXXX escapes);
    # but never a high surrogate directly followed by a low one: JSON itself reads that as one astral character
    return _no_pairs("".join(chr(r.choice([r.randrange(0x20, 0x7f), r.randrange(0xa0, 0x800), r.randrange(0x800, 0xd800), r.randrange(0xd800, 0xe000), r.randrange(0xe000, 0x10000),
                                 r.randrange(0x10000, 0x10ffff), r.randrange(0, 0x20)])) for _ in range(r.randint(0, 16))))


def _no_pairs(t):
    out = []
    for ch in t:
        if out and 0xd800 <= ord(out[-1]) < 0xdc00 and 0xdc00 <= ord(ch) < 0xe000:
            out.append("x")
        out.append(ch)
    return "".join(out)


def gen_values(r, subset, fmt):
    from consonance.structs.keypair import KeyPair
    from consonance.structs.publickey import PublicKey
    text = (lambda: kv_text(r)) if fmt == "keyval" else (lambda: json_text(r))
    v = {"phone": gen.phone(r)}
    for f in subset:
        if f in ("cc",):
            v[f] = r.choice(["1", "49", "353"]) if (fmt == "keyval" or r.random() < 0.7) else r.choice([1, 49, 353])
        elif f in ("mcc", "mnc", "sim_mcc", "sim_mnc"):
            v[f] = r.choice(["000", "262", "01", "7"]) if r.random() < 0.7 else text()
        elif f == "login":
            v[f] = gen.phone(r) if r.random() < 0.6 else text()
        elif f in ("password", "pushname", "fdid", "chat_dns_domain"):
            v[f] = text()
        elif f in ("id", "expid", "edge_routing_info"):
            v[f] = gen.blob(r, r.choice([0, 1, 16, 20, 20, 33]) if r.random() < 0.8 else r.randint(0, 200))
        elif f == "client_static_keypair":
            v[f] = KeyPair.from_bytes(gen.blob(r, 64))
        elif f == "server_static_public":
            v[f] = PublicKey(gen.blob(r, 32))
    return v


def canon(field, val, untyped=False):
    if val is None:
        return None
    if field == "client_static_keypair":
        return ("kp", bytes(val.private.data), bytes(val.public.data))
    if field == "server_static_public":
        return ("pk", bytes(val.data))
    if untyped and not isinstance(val, (bytes, bytearray)):
        return str(val)
    return val


def cfg_diff(a, b, untyped=False):
    """None when equal; a, b Config objects (or None)."""
    if a is None or b is None:
        return None if a is b else "one side is no configuration at all"
    for f in FIELDS:
        x, y = canon(f, getattr(a, f), untyped), canon(f, getattr(b, f), untyped)
        if x != y or type(x) is not type(y):
            return "field %s: %r != %r" % (f, x if f not in BINARY else str(x)[:60], y if f not in BINARY else str(y)[:60])
    return None


def fresh_xdg(tag):
    from vf import env
    d = os.path.join(env.SCRATCH, "xdg-%s" % tag)
    shutil.rmtree(d, ignore_errors=True)
    os.makedirs(d)
    os.environ["XDG_CONFIG_HOME"] = d
    return d


ROUTES = ["save-profile", "save-profile-keyval", "save-dest", "str-file", "profile-object"]


def roundtrip(acc, r, subset, fmt, route, loadpath, used_before, tag):
    from yowsup.config.manager import ConfigManager
    from yowsup.config.v1.config import Config
    from yowsup.common.tools import StorageTools
    from yowsup.profile.profile import YowProfile
    vals = gen_values(r, subset, fmt)
    cfg = Config(**vals)
    # the object holds what it was given, field by field (what is loaded later is compared with this object)
    for f_ in FIELDS:
        got_, want_ = getattr(cfg, f_), vals.get(f_)
        if canon(f_, got_) != canon(f_, want_) or type(canon(f_, got_)) is not type(canon(f_, want_)):
            acc.violation("constructed-differs:%s" % f_, "a configuration constructed with %s=%r reads %s=%r" % (f_, want_ if f_ not in BINARY else "<binary>", f_, got_ if f_ not in BINARY else "<binary>"),
                          {"op": "construct", "tag": tag, "subset": subset, "fmt": fmt})
            return
    acc.count("constructed_fields_checked", len(FIELDS))
    T = ConfigManager.TYPE_KEYVAL if fmt == "keyval" else ConfigManager.TYPE_JSON
    ext = {"keyval": "yo", "json": "json"}[fmt]
    cm = ConfigManager()
    profile = "prof_%s" % vals["phone"]
    base = fresh_xdg("rt")
    w = {"op": "roundtrip", "tag": tag, "subset": subset, "fmt": fmt, "route": route, "loadpath": loadpath, "used_before": used_before}
    rj = r.random()
    if rj < 0.3:
        # earlier in the same process the application tried to load a file that is no valid configuration (a key this version does
        # not know, a wrong type, a cut-off or empty file). Whether that load raises or returns nothing is not judged; judged is the
        # valid configuration saved and loaded AFTER it, which must come back as for any other case.
        k = int(rj * 1000) % 6
        bad = ['{"phone": "4915200000001", "cc": "49", "some_future_option": 1}', "phone=4915200000001\nsome_future_option=1\n",
               '{"phone": "4915200000001", "cc": ', "", '["phone"]', '{"phone": {"x": 1}, "unknown": null}'][k]
        bd = os.path.join(base, "rejected")
        os.makedirs(bd, exist_ok=True)
        bp = os.path.join(bd, "other.%s" % ("yo" if k == 1 else "json"))
        with open(bp, "w") as f_:
            f_.write(bad)
        try:
            got_bad = ConfigManager().load(bp)
            acc.count("bad_config_load_returned:%s" % type(got_bad).__name__)
        except Exception as e:  # noqa
            acc.count("bad_config_load_raised:%s" % type(e).__name__)
        acc.count("loads_after_rejected_config")
        w["after_rejected_config_kind"] = k
    acc.count("roundtrips")
    acc.count("route:" + route)
    acc.count("fmt:" + fmt)
    acc.count("loadpath:" + loadpath)
    nb = len([f for f in subset if f in BINARY])
    acc.count("binary_fields", nb)
    acc.seen("subset_sizes", str(len(subset)))
    acc.case(["rt", subset, fmt, route, loadpath, used_before, repr(sorted((k, canon(k, v)) for k, v in vals.items()))], nontrivial=nb > 0)
    if r.random() < 0.5:
        # what an application does with a configuration before it saves it: look at it. Reading changes nothing.
        try:
            ks = cfg.keys()
            str(cfg)
            ("phone" in cfg, cfg["phone"], [cfg[k_] for k_ in ks if k_ != "version"][:3], cfg.keys())
            acc.count("read_before_save")
        except Exception as e:  # noqa
            acc.violation("read-before-save-raises:%s" % type(e).__name__, "reading a configuration object raised %r" % (e,), w)
            return
    if used_before:
        # directory exists already (as after any earlier login: the key store lives there)
        os.makedirs(os.path.join(StorageTools.getStorageForProfile(profile)), exist_ok=True)
    else:
        acc.count("never_used_profiles")
    try:
        if route == "save-profile":
            cm.save(profile, cfg)
            target = profile
        elif route == "save-profile-keyval":
            cm.save(profile, cfg, serialize_type=T)
            target = profile
        elif route == "profile-object":
            YowProfile(profile).write_config(cfg)
            target = profile
        else:
            d = os.path.join(base, "files")
            os.makedirs(d, exist_ok=True)
            if loadpath == "path-ext":
                target = os.path.join(d, "cfg_%s.%s" % (vals["phone"], ext))
            elif loadpath == "path-noext":
                target = os.path.join(d, "cfg_%s" % vals["phone"])
            else:
                pd = StorageTools.getStorageForProfile(profile)
                os.makedirs(pd, exist_ok=True)
                target = os.path.join(pd, "config." + ext)
            if route == "save-dest":
                cm.save(profile, cfg, serialize_type=T, dest=target)
            else:
                s = cm.config_to_str(cfg, T)
                with open(target, "w", encoding="utf-8") as f:
                    f.write(s)
            if loadpath == "profile":
                target = profile
    except Exception as e:  # noqa
        fn = [fs.name for fs in traceback.extract_tb(e.__traceback__) if "/yowsup/" in fs.filename][-1:]
        acc.violation("save-raises:%s:%s:%s%s" % (route, type(e).__name__, (fn or ["?"])[0], "" if used_before or route not in ("save-profile", "profile-object", "save-profile-keyval") else ":never-used"),
                      "saving raised %r (route %s, format %s, profile %s)" % (e, route, fmt, "used before" if used_before else "never used"), w)
        return
    def via_stack():
        # the way an application names its profile: stack.setProfile(name); the layers read stack.getProp("profile").config
        from yowsup.stacks import YowStack
        st_ = YowStack((), reversed=False)
        st_.setProfile(profile)
        acc.count("loads_through_stack_setProfile")
        return st_.getProp("profile").config
    try:
        if route == "profile-object":
            back = YowProfile(profile).config if r.random() < 0.5 else via_stack()
        elif target == profile and r.random() < 0.3:
            back = via_stack()
        else:
            back = cm.load(target)
    except Exception as e:  # noqa
        acc.violation("load-raises:%s:%s:%s" % (route, fmt, type(e).__name__), "loading what was just saved raised %r (route %s, format %s, load path %s)" % (e, route, fmt, loadpath), w)
        return
    if back is None:
        acc.violation("load-none:%s:%s:%s" % (route, fmt, loadpath), "loading what was just saved found no configuration", w)
        return
    d = cfg_diff(cfg, back, untyped=(fmt == "keyval"))
    if d:
        acc.violation("roundtrip-differs:%s:%s" % (fmt, d.split(":")[0].replace("field ", "")), "loaded configuration differs: %s" % d, w)
        return
    acc.count("roundtrip_ok")
    # a file named without extension (its format is found by trying) is rewritten in the OTHER format through the same manager
    # object, and loaded again through it: what loads is what was written last
    if loadpath == "path-noext" and route in ("save-dest", "str-file") and r.random() < 0.6:
        fmt3 = "keyval" if fmt == "json" else "json"
        vals3 = gen_values(r, [f for f in subset if f not in BINARY or fmt3 == "json" or True], fmt3)
        vals3["phone"] = vals["phone"]
        cfg3 = Config(**vals3)
        acc.count("rewrites_in_other_format")
        w3 = dict(w, rewrite_fmt=fmt3)
        try:
            cm.save(profile, cfg3, serialize_type=(ConfigManager.TYPE_KEYVAL if fmt3 == "keyval" else ConfigManager.TYPE_JSON), dest=target)
            back3 = cm.load(target)
        except Exception as e:  # noqa
            acc.violation("rewrite-other-format-raises:%s" % type(e).__name__, "a file without extension rewritten as %s (was %s) through the same manager, then loaded: %r" % (fmt3, fmt, e), w3)
            return
        d3 = "nothing loads" if back3 is None else cfg_diff(cfg3, back3, untyped=(fmt3 == "keyval"))
        if d3:
            acc.violation("rewrite-other-format-differs:%s" % fmt3, "a file without extension rewritten as %s (was %s) loads differently: %s" % (fmt3, fmt, d3), w3)
            return
        acc.count("rewrite_other_format_ok")
    # the same profile is saved a second time with other values (an account that logs in again gets new routing info, a new
    # server key, ...), by any of the profile routes and in either format: what loads afterwards is the second configuration
    if target == profile and r.random() < 0.4:
        # (through the routes that save a profile by name; save(profile, TYPE_KEYVAL) is the known finding of this property)
        fmt2 = "json"
        route2 = r.choice(["save-profile", "profile-object"])
        vals2 = gen_values(r, subset, fmt2)
        vals2["phone"] = vals["phone"]
        cfg2 = Config(**vals2)
        w2 = dict(w, second_save={"fmt": fmt2, "route": route2})
        acc.count("second_saves")
        try:
            if route2 == "save-profile":
                cm.save(profile, cfg2)
            elif route2 == "save-profile-keyval":
                cm.save(profile, cfg2, serialize_type=ConfigManager.TYPE_KEYVAL)
            else:
                YowProfile(profile).write_config(cfg2)
            back2 = r.choice([lambda: YowProfile(profile).config, lambda: cm.load(profile), via_stack])()
        except Exception as e:  # noqa
            acc.violation("second-save-raises:%s:%s" % (route2, type(e).__name__), "saving the profile a second time (%s, %s after %s, %s) or loading it raised %r" % (route2, fmt2, route, fmt, e), w2)
            return
        d2 = "nothing loads" if back2 is None else cfg_diff(cfg2, back2, untyped=(fmt2 == "keyval"))
        if d2:
            stale = back2 is not None and not cfg_diff(cfg, back2, untyped=True)
            acc.violation("second-save-differs:%s:%s" % (fmt2, "stale-first" if stale else d2.split(":")[0].replace("field ", "")), "after a second save (%s, %s) over the first (%s, %s) the profile loads %s: %s"
                          % (route2, fmt2, route, fmt, "the FIRST configuration" if stale else "something else", d2), w2)
            return
        acc.count("second_save_ok")


def pick_route(r):
    c = r.random()
    if c < 0.3:
        return "save-profile", "json", "profile"
    if c < 0.4:
        return "profile-object", "json", "profile"
    if c < 0.47:
        return "save-profile-keyval", "keyval", "profile"
    fmt = r.choice(["json", "keyval"])
    return r.choice(["save-dest", "str-file"]), fmt, r.choice(["path-ext", "path-noext", "profile"])


def subsets_exhaustive():
    n = len(OPTIONAL)
    for k in (0, 1, 2, n - 2, n - 1, n):
        for c in itertools.combinations(OPTIONAL, k):
            yield list(c)


# ---------------------------------------------------------------------------------------------
# crash enumeration
def crash_case(acc, r, tag, with_previous, chunked, route="save-profile", prev_fmt="json"):
    """Count the ticks of one save, then kill a child at every tick and judge the reopened profile."""
    from yowsup.config.manager import ConfigManager
    from yowsup.config.v1.config import Config
    from yowsup.profile.profile import YowProfile
    import yowsup.common.tools as tools
    fresh_xdg("crash")
    sub_old = gen.subset(r, OPTIONAL)
    sub_new = gen.subset(r, OPTIONAL)
    old = Config(**gen_values(r, sub_old, "json" if prev_fmt == "json" else "keyval"))
    newv = gen_values(r, sub_new, "json")
    newv["phone"] = old.phone
    new = Config(**newv)
    profile = "crash_%s" % old.phone
    cm = ConfigManager()
    base = os.path.join(os.environ["XDG_CONFIG_HOME"])
    snap = os.path.join(os.path.dirname(base), "crash-snap")

    def prepare():
        shutil.rmtree(base, ignore_errors=True)
        os.makedirs(base)
        if with_previous and prev_fmt == "keyval":
            # the previous configuration is a key=value file in the profile directory (config.yo), the other supported format
            d_ = tools.StorageTools.getStorageForProfile(profile)
            os.makedirs(d_, exist_ok=True)
            cm.save(profile, old, ConfigManager.TYPE_KEYVAL, dest=os.path.join(d_, "config.yo"))
        elif with_previous:
            cm.save(profile, old)
        else:
            # the profile directory exists (key store lives there) but holds no configuration yet
            os.makedirs(tools.StorageTools.getStorageForProfile(profile), exist_ok=True)

    def do_save(ticker):
        real_rename, real_replace = os.rename, os.replace

        def t_rename(a, b, *x, **k):
            ticker.tick("before-rename")
            real_rename(a, b, *x, **k)
            ticker.tick("after-rename")

        def t_replace(a, b, *x, **k):
            ticker.tick("before-replace")
            real_replace(a, b, *x, **k)
            ticker.tick("after-replace")
        os.rename, os.replace = t_rename, t_replace
        real_fdopen = os.fdopen
        if chunked:
            tools.open = inject.chunked_open(ticker, chunk=7)
            os.fdopen = inject.chunked_fdopen(ticker, chunk=7, real_fdopen=real_fdopen)
        try:
            with inject.LineTicks(ticker, ("yowsup/common/tools.py", "yowsup/config/manager.py", "yowsup/profile/profile.py")):
                if route == "save-profile":
                    cm.save(profile, new)
                else:
                    YowProfile(profile).write_config(new)
        finally:
            os.rename, os.replace = real_rename, real_replace
            os.fdopen = real_fdopen
            if chunked and "open" in vars(tools):
                del tools.open

    prepare()
    counter = inject.Ticker()
    try:
        do_save(counter)
    except Exception as e:  # noqa
        acc.violation("crash-setup-save-raises:%s" % type(e).__name__, "save raised %r before any crash was injected" % (e,), {"op": "crash", "tag": tag})
        return
    total = counter.n
    acc.maxi("crash_points_per_save", total)
    for k in counter.kinds:
        acc.count("crash_point_kind:" + k.split(":")[0])
    w0 = {"op": "crash", "tag": tag, "with_previous": with_previous, "chunked": chunked, "route": route, "total_ticks": total, "prev_fmt": prev_fmt}
    acc.count("crash_prev_fmt:%s" % (prev_fmt if with_previous else "none"))
    untyped = prev_fmt == "keyval"
    for k in range(1, total + 1):
        prepare()
        tk = inject.Ticker(die_at=k)
        st = inject.run_in_child(lambda: do_save(tk))
        acc.count("crash_children")
        kind = counter.kinds[k - 1]
        acc.case(["crash", tag, with_previous, chunked, route, k], nontrivial=(1 < k))
        if st != inject.CRASH_EXIT:
            acc.inconc("crash child %d/%d of %s exited with %r instead of dying at its crash point" % (k, total, tag, st))
            continue
        acc.count("crash_died_inside")
        w = dict(w0, tick=k, at=kind)
        try:
            back = ConfigManager().load(profile)
        except Exception as e:  # noqa
            acc.violation("crash-load-raises:%s" % type(e).__name__, "after a kill at %s the profile no longer loads: %r" % (kind, e), w)
            continue
        d_old = cfg_diff(old if with_previous else None, back, untyped) if (with_previous and back is not None) or not with_previous else "nothing loads"
        d_new = cfg_diff(new, back)
        if d_old is None and (with_previous or back is None):
            acc.count("crash_outcome:old")
        elif d_new is None:
            acc.count("crash_outcome:new")
        else:
            acc.violation("crash-neither-old-nor-new", "after a kill at %s the profile loads as neither the previous nor the new configuration (%s)"
                          % (kind, "nothing" if back is None else d_new), w)
    # and without a crash the new one is there
    prepare()
    do_save(inject.Ticker())
    if cfg_diff(new, ConfigManager().load(profile)):
        acc.violation("crash-nocrash-differs:prev-%s" % (prev_fmt if with_previous else "none"), "after an uninterrupted save by profile name the profile does not load as the new configuration "
                      "(previous configuration: %s)" % (("config.yo" if prev_fmt == "keyval" else "config.json") if with_previous else "none"), w0)


def shards(tier, seed, nworkers):
    q = tier == "quick"
    nsh = 4 if q else nworkers
    specs = []
    for i in range(nsh):
        specs.append({"kind": "exhaustive-subsets", "part": [i, nsh], "reps": 4 if q else 16})
        specs.append({"kind": "random", "shard": i, "n": (8000 if q else 160000) // nsh})
        specs.append({"kind": "crash", "shard": i, "n": (32 if q else 640) // nsh})
    return specs


def run(spec, acc):
    from vf import env
    env.shim_thirdparty()
    seed = spec["seed"]
    if spec["kind"] == "exhaustive-subsets":
        k = 0
        for sub in subsets_exhaustive():
            k += 1
            if k % spec["part"][1] != spec["part"][0]:
                continue
            for rep in range(spec["reps"]):
                r = gen.rng(seed, ID, "ex/%d/%d" % (k, rep))
                route, fmt, lp = pick_route(r)
                roundtrip(acc, r, sub, fmt, route, lp, r.random() < 0.5, "ex/%d/%d" % (k, rep))
        acc.count("exhaustive_subsets", k // spec["part"][1])
        acc.sample({"subsets": "every subset of size 0,1,2,13,14,15 of %d optional fields" % len(OPTIONAL)})
    elif spec["kind"] == "random":
        for i in range(spec["n"]):
            r = gen.rng(seed, ID, "rand/%d/%d" % (spec["shard"], i))
            sub = gen.subset(r, OPTIONAL)
            route, fmt, lp = pick_route(r)
            ub = r.random() < 0.5
            roundtrip(acc, r, sub, fmt, route, lp, ub, "rand/%d/%d" % (spec["shard"], i))
            if i < 2:
                acc.sample({"subset": sub, "format": fmt, "route": route, "load": lp, "profile_used_before": ub})
    elif spec["kind"] == "crash":
        for i in range(spec["n"]):
            r = gen.rng(seed, ID, "crash/%d/%d" % (spec["shard"], i))
            crash_case(acc, r, "crash/%d/%d" % (spec["shard"], i), with_previous=(i % 4 != 3), chunked=(i % 2 == 0),
                       route="save-profile" if i % 3 else "profile-object", prev_fmt="keyval" if i % 5 == 1 else "json")
        acc.sample({"crash": "every line/open/chunk/close/rename boundary of one save, previous config present or not"})


def replay(spec, acc):
    from vf import env
    env.shim_thirdparty()
    w = spec["witness"]
    seed = spec["seed"]
    tag = w["tag"]
    r = gen.rng(seed, ID, tag)
    if w["op"] == "roundtrip":
        if tag.startswith("rand/"):
            gen.subset(r, OPTIONAL)
        pick_route(r)
        r.random()
        roundtrip(acc, r, w["subset"], w["fmt"], w["route"], w["loadpath"], w["used_before"], tag)
    elif w["op"] == "construct":
        if tag.startswith("rand/"):
            gen.subset(r, OPTIONAL)
        pick_route(r)
        r.random()
        roundtrip(acc, r, w["subset"], w["fmt"], "save-profile", "profile", True, tag)
    else:
        crash_case(acc, r, tag, w["with_previous"], w["chunked"], w["route"], w.get("prev_fmt", "json"))
