"""C16 — connection lifecycle: login, failure, stream error, keep-alive and reconnect."""
import random
import threading
import time

from vf import gen, inject

ID = "C16"
LEVEL = "exploration"
RULE = ("one evaluation = one event history (<= 16 events) over {connect request, connected, socket error, peer close, "
        "disconnect request, success, failure, stream error kinds, clock tick, pong} with options {reconnect on/off, ping "
        "interval 1-3 ticks, passive, synchronous or deferred close callback} driven through one real client with the "
        "library's complete default stack (plus two recording probes) against the Noise responder double, the keep-alive "
        "thread running on a virtual clock and deferred events pumped through the library's own queue. After every event "
        "(run to quiescence) the observed counters - connected/disconnected/authenticated announcements above the network "
        "layer and at the top, dispatcher connect/disconnect/write calls with the dispatcher's liveness, pings decrypted by "
        "the responder, failures/stream errors delivered upward - are compared with a reference connection state machine. "
        "Non-trivial = a connection went up and down and one of {error, stream error, ping timeout, reconnect} occurred; "
        "distinct by (options, event list) hash")
ASSUMPTIONS = ["a disconnect request is only issued while a connection is up or being established (the quantifier says so); a connect request while none is, or while one is up (then it has to be refused); not while one is being established",
               "unknown stream-error kinds raise by design and are not generated",
               "a 'disconnected' announcement for an attempt that never came up is not a refutation",
               "the first login (key upload + reconnect) happens before the judged history starts",
               "the real socket/asyncore dispatchers are driven through 6 scripted lifecycles each over loopback TCP (peer close, local disconnect, refused connect, login failure, stream error with automatic reconnect, re-login); a bare timeout there is reported as a violation only together with the observed announcement counts"]
REQUIRED = ["pong_race_histories", "pong_delivered_inside_ping_send", "race_sweep_histories", "tick_race_paused_mid_step", "histories", "events", "checkpoints", "ev:connected", "ev:success", "ev:failure", "ev:stream-error", "ev:tick", "ev:pong",
            "ev:connected-held", "ev:connect-request-while-up", "ev:release-handshake", "ev:socket-error", "ev:peer-close", "ev:disconnect-request", "auto_reconnects", "ping_timeouts", "pings_seen", "states_visited",
            "real_cases", "real_ok", "real_upward_failure_cases", "real_upward_failure_ok", "stream_error_text_first", "failures_without_reason"]
TIMEOUT = {"quick": 600, "thorough": 7200}


class VClock(object):
    """Stands in for `time` inside protocol_iq.layer: sleep(1) blocks until the harness advances one tick."""

    def __init__(self):
        self.cv = threading.Condition()
        self.now = 0
        self.sleeping = {}      # thread ident -> wake-up tick
        self.released = False

    def sleep(self, s):
        me = threading.get_ident()
        with self.cv:
            target = self.now + max(1, int(round(s)))
            self.sleeping[me] = target
            self.cv.notify_all()
            while self.now < target and not self.released:
                self.cv.wait(0.5)
            self.sleeping.pop(me, None)

    def time(self):
        return float(self.now)

    def tick(self):
        with self.cv:
            self.now += 1
            self.cv.notify_all()

    def release(self):
        with self.cv:
            self.released = True
            self.cv.notify_all()


def ping_threads():
    # (never call is_alive()/join() on these: YowPingThread shadows Thread._stop with a flag)
    return [t for t in threading.enumerate() if t.__class__.__name__ == "YowPingThread"]


def wait_ping_threads(clock, timeout=20.0):
    """Every live keep-alive thread is back inside clock.sleep (or gone)."""
    t0 = time.time()
    while True:
        with clock.cv:
            live = [t for t in ping_threads()]
            if all(t.ident in clock.sleeping and clock.sleeping[t.ident] > clock.now for t in live):
                return True
        if time.time() - t0 > timeout:
            return False
        time.sleep(0.0003)


def partial_frame(r):
    """The beginning of a further frame arriving in the same segment as a stanza that ends the connection: 1-2 header bytes, or
    a whole header announcing more than follows."""
    c = r.random()
    if c < 0.3:
        return bytes([0]) if r.random() < 0.5 else bytes([0, r.randint(0, 255)])
    n = r.randint(20, 400)
    return bytes([0, n >> 8, n & 255]) + gen.blob(r, r.randint(0, n - 1))


class PingRacer(object):
    """Stops the keep-alive thread at its k-th line event inside protocol_iq/layer.py until resumed."""

    def __init__(self, k, files=("protocol_iq/layer.py",)):
        self.k = k
        self.files = tuple(files)
        self.n = 0
        self.at_point = threading.Event()
        self.resume = threading.Event()
        self.where = None

    def install(self):
        import sys
        mon = sys.monitoring
        try:
            mon.use_tool_id(inject.TOOL, "vf-pingrace")
        except ValueError:
            mon.free_tool_id(inject.TOOL)
            mon.use_tool_id(inject.TOOL, "vf-pingrace")

        def cb(code, lineno):
            if not code.co_filename.endswith(self.files):
                return mon.DISABLE
            if threading.current_thread().__class__.__name__ != "YowPingThread":
                return None
            self.n += 1
            if self.n == self.k:
                self.where = "%s:%d" % (code.co_name, lineno)
                self.at_point.set()
                self.resume.wait(10)
        mon.register_callback(inject.TOOL, mon.events.LINE, cb)
        mon.set_events(inject.TOOL, mon.events.LINE)
        mon.restart_events()

    def remove(self):
        import sys
        mon = sys.monitoring
        mon.set_events(inject.TOOL, 0)
        mon.register_callback(inject.TOOL, mon.events.LINE, None)
        mon.free_tool_id(inject.TOOL)


EVENTS = ["connect-request", "connect-request-while-up", "connected", "connected-held", "release-handshake", "socket-error", "peer-close", "disconnect-request", "success", "failure", "stream-error:conflict",
          "stream-error:ack", "stream-error:xml-not-well-formed", "tick", "tick", "tick", "pong",
          "tick-race:peer-close", "tick-race:disconnect-request", "tick-race:socket-error",
          "peer-close+connect-request", "socket-error+connect-request", "peer-close+reconnect-up", "tick-pong-race"]


class Ref(object):
    """Reference connection state machine: expected cumulative observables."""

    def __init__(self, reconnect, interval):
        self.reconnect, self.interval = reconnect, interval
        self.conn = "down"            # down | connecting | up
        self.handshake = False        # login attempt completed on this connection (server in transport)
        self.authed = False
        self.outstanding = False
        self.next_due = None
        self.now = 0
        self.exp = {"connect_calls": 0, "connected": 0, "disconnected_min": 0, "disconnected_max": 0, "authed": 0, "disconnect_calls_min": 0,
                    "disconnect_calls_max": 0, "pings": 0, "failures": 0, "stream_errors": 0, "successes": 0, "logins": 0}
        self.visited = set()

    def state(self):
        return (self.conn, self.authed, self.outstanding)

    def down(self, was_up, by_library_call):
        e = self.exp
        if was_up:
            e["disconnected_min"] += 1
            e["disconnected_max"] += 1
        else:
            e["disconnected_max"] += 1      # announced or not: both fine for an attempt that never came up
        if by_library_call:
            e["disconnect_calls_min"] += 1
            e["disconnect_calls_max"] += 1
        self.conn, self.authed, self.outstanding, self.next_due, self.handshake = "down", False, False, None, False

    def enabled(self, ev):
        if ev == "connect-request":
            return self.conn == "down"
        if ev == "connect-request-while-up":
            # an application asking again although its connection is up: refused, nothing changes
            return self.conn == "up"
        if ev in ("connected", "connected-held"):
            return self.conn == "connecting"
        if ev == "release-handshake":
            return self.conn == "up" and not self.handshake
        if ev == "socket-error":
            return self.conn in ("connecting", "up")
        if ev in ("peer-close",):
            return self.conn == "up"
        if ev == "disconnect-request":
            return self.conn in ("connecting", "up")
        if ev == "success":
            return self.conn == "up" and self.handshake and not self.authed
        if ev == "failure" or ev.startswith("stream-error"):
            return self.conn == "up" and self.handshake
        if ev == "tick":
            return True
        if ev == "peer-close+reconnect-up":
            return self.conn == "up"
        if ev.endswith("+connect-request"):
            # the connection drops and the application asks for a new one before the stack's loop has turned (the deferred part of
            # the down announcement is still queued)
            return self.conn == "up"
        if ev == "tick-pong-race":
            # a tick on which a ping is due, and the server's pong arrives while the keep-alive thread has not yet returned from
            # sending that ping (a fast round trip)
            return self.conn == "up" and self.authed and not self.outstanding and self.next_due is not None and self.now + 1 >= self.next_due
        if ev.startswith("tick-race"):
            # the clock advances and, while the keep-alive thread is in the middle of its step, the connection goes down;
            # only where the tick alone would not time out
            return self.conn == "up" and self.authed and not self.outstanding
        if ev == "pong":
            return self.conn == "up" and self.outstanding
        return False

    def apply(self, ev):
        e = self.exp
        auto = False
        if ev == "connect-request":
            e["connect_calls"] += 1
            self.conn = "connecting"
        elif ev == "connect-request-while-up":
            pass
        elif ev in ("connected", "connected-held"):
            e["connected"] += 1
            e["logins"] += 1
            self.conn = "up"
            self.handshake = (ev == "connected")
        elif ev == "release-handshake":
            self.handshake = True
        elif ev == "socket-error":
            self.down(self.conn == "up", False)
        elif ev == "peer-close":
            self.down(True, False)
        elif ev == "disconnect-request":
            self.down(self.conn == "up", True)
        elif ev == "success":
            e["authed"] += 1
            e["successes"] += 1
            self.authed = True
            self.next_due = self.now + self.interval if self.interval > 0 else None
        elif ev == "failure":
            e["failures"] += 1
            self.down(True, True)
        elif ev.startswith("stream-error"):
            kind = ev.split(":")[1]
            e["stream_errors"] += 1
            self.down(True, True)
            if self.reconnect and kind != "conflict":
                e["connect_calls"] += 1
                self.conn = "connecting"
                auto = True
        elif ev == "tick":
            self.now += 1
            if self.conn == "up" and self.authed and self.next_due is not None and self.now >= self.next_due:
                if self.outstanding:
                    self.down(True, True)
                    return "ping-timeout"
                e["pings"] += 1
                self.outstanding = True
                self.next_due = self.now + self.interval
        elif ev.endswith("+connect-request"):
            self.apply(ev.split("+")[0])
            return self.apply("connect-request")
        elif ev == "peer-close+reconnect-up":
            self.apply("peer-close")
            self.apply("connect-request")
            return self.apply("connected")
        elif ev == "tick-pong-race":
            self.apply("tick")
            return self.apply("pong")
        elif ev.startswith("tick-race"):
            self.now += 1
            self.race_ping_possible = self.next_due is not None and self.now >= self.next_due
            down_ev = ev.split(":", 1)[1]
            return self.apply(down_ev)
        elif ev == "pong":
            self.outstanding = False
        self.visited.add(self.state())
        return "auto-reconnect" if auto else None


def observe(W, c, base):
    """Cumulative observables of client c since `base` (dict of offsets)."""
    from yowsup.layers.network import YowNetworkLayer
    from yowsup.layers.auth import YowAuthenticationProtocolLayer
    low = c.probe_low.event_names()
    top = c.probe_top
    o = {
        "connect_calls": sum(1 for d in c.dispatchers for x in d.log if x[0] == "connect"),
        "disconnect_calls": sum(1 for d in c.dispatchers for x in d.log if x[0] == "disconnect"),
        "connected": low.count(YowNetworkLayer.EVENT_STATE_CONNECTED),
        "disconnected": low.count(YowNetworkLayer.EVENT_STATE_DISCONNECTED),
        "connected_top": top.event_names().count(YowNetworkLayer.EVENT_STATE_CONNECTED),
        "disconnected_top": top.event_names().count(YowNetworkLayer.EVENT_STATE_DISCONNECTED),
        "authed": low.count(YowAuthenticationProtocolLayer.EVENT_AUTHED),
        "auth_events": low.count(YowAuthenticationProtocolLayer.EVENT_AUTH),
        "pings": W.counters.get("srv_iq:w:p:get", 0),
        "failures": sum(1 for p, k, e, g in W.app_log if p == c.phone and k == "failure"),
        "successes": sum(1 for p, k, e, g in W.app_log if p == c.phone and k == "success"),
        "stream_errors": sum(1 for x in top.received if getattr(x, "getTag", lambda: None)() == "stream:error"),
        "writes_while_down": len(W.stale_writes),
        "logins": sum(1 for d in c.dispatchers if getattr(d, "srv", None) is not None and d.srv.state in ("finish", "transport")),
        "login_errors": sum(1 for d in c.dispatchers if getattr(d, "srv", None) is not None and d.srv.state == "error"),
    }
    return {k: v - base.get(k, 0) for k, v in o.items()}


def one_history(acc, seed, tag, forced=None):
    from vf import world
    from yowsup.layers.interface import YowInterfaceLayer
    from yowsup.layers.protocol_iq import YowIqProtocolLayer
    from yowsup.layers.auth import YowAuthenticationProtocolLayer
    import yowsup.layers.protocol_iq.layer as iqmod
    r = gen.rng(seed, ID, tag)
    opts = {"reconnect": r.random() < 0.6, "interval": r.choice([1, 2, 3]), "passive": r.random() < 0.3, "sync_close": r.random() < 0.6,
            "reconnect_prop_set": r.random() < 0.7, "double_close_report": r.random() < 0.3}
    n = r.randint(6, 16)
    if forced:
        opts.update(forced["opts"])
        n = len(forced["events"])
    clock = VClock()
    old_time = iqmod.time
    iqmod.time = clock
    W = world.World(seed=r.randrange(1 << 30), strategy="uniform", batch=20, wiring="full", sync_disconnect=opts["sync_close"])
    W.with_probes = True
    W.double_close_report = opts["double_close_report"]
    A = "4911" + gen.s_from(r, gen.DIGITS, 7)
    props = {YowIqProtocolLayer.PROP_PING_INTERVAL: opts["interval"]}
    if opts["reconnect_prop_set"] or not opts["reconnect"]:
        props[YowInterfaceLayer.PROP_RECONNECT_ON_STREAM_ERR] = opts["reconnect"]
    # (the option defaults to "on" when the application does not set it)
    w = {"tag": tag, "opts": opts}
    events = []
    try:
        c = W.add_client(A, props=props)
        # ---- prelude (not judged by the state machine): first login uploads keys and reconnects -------------------
        W.script = [{"op": "connect", "who": A}, {"op": "wait-quiet"}]
        W.run(max_steps=5000)
        if not W.clients[A].ready() or W.idle_timeouts:
            acc.inconc("%s: prelude login failed" % tag)
            return
        c.guarded(lambda: c.app.disconnect(), "disconnect")
        W.run(max_steps=W.steps + 2000)
        wait_ping_threads(clock)
        if opts["passive"]:
            c.stack.setProp(YowAuthenticationProtocolLayer.PROP_PASSIVE, True)
        W.server.auto_success = False
        W.server.hold_pings = True
        base = observe(W, c, {})
        ref = Ref(opts["reconnect"], opts["interval"])
        ok = True
        interesting = False
        stale_down = [False]

        def settle():
            # the keep-alive thread does its work synchronously in its own thread: let it finish and park in the clock
            # before the (single-threaded) world takes the next step, and again afterwards
            for _ in range(3):
                if not wait_ping_threads(clock):
                    acc.inconc("%s: keep-alive thread did not return to the clock" % tag)
                    return False
                W.run(max_steps=W.steps + 4000)
            return wait_ping_threads(clock)

        for i in range(n):
            cand = [e for e in EVENTS if ref.enabled(e)]
            # bias towards histories that get somewhere: log in, let the clock run, sometimes answer pings
            wts = []
            for e_ in cand:
                wgt = 1.0
                if e_ == "connected" or e_ == "connect-request":
                    wgt = 4.0
                elif e_ == "connected-held":
                    wgt = 1.5
                elif e_ == "release-handshake":
                    wgt = 2.0
                elif e_ == "success":
                    wgt = 5.0
                elif e_ == "tick":
                    wgt = 3.0 if ref.authed else 0.5
                elif e_ == "pong":
                    wgt = 4.0
                wts.append(wgt)
            ev = r.choices(cand, weights=wts)[0]
            if forced:
                ev = forced["events"][i]
                if not ref.enabled(ev):
                    acc.inconc("%s: scripted event %s not enabled at step %d" % (tag, ev, i))
                    return
            events.append(ev)
            acc.count("events")
            acc.count("ev:" + ev.split(":")[0])
            d = c.dispatcher
            if ev in ("connect-request", "connect-request-while-up"):
                c.guarded(lambda: c.app.connect(), "connect")
            elif ev in ("connected", "connected-held", "release-handshake"):
                pass        # the scheduler delivers the pending connected callback; the handshake follows (or is withheld)
            elif ev == "socket-error":
                W.socket_error(A)
            elif ev == "peer-close":
                W.server_close(A)
            elif ev == "disconnect-request":
                c.guarded(lambda: c.app.disconnect(), "disconnect")
            elif ev == "success":
                W.server.to_client(A, W.server.success_stanza())
            elif ev == "failure":
                if r.random() < 0.4:
                    W.trailing[A] = partial_frame(r)
                # (with a reason code, with a reason word, or bare)
                fa_ = r.choice([{"reason": "not-authorized"}, {"reason": "401"}, {}, {}])
                if not fa_:
                    acc.count("failures_without_reason")
                W.server.to_client(A, ("failure", fa_, [], None))
            elif ev.startswith("stream-error"):
                if r.random() < 0.4:
                    W.trailing[A] = partial_frame(r)
                kind = ev.split(":")[1]
                kids = [(kind, {}, [], None)] + ([("text", {}, [], b"Replaced by new connection")] if (kind == "conflict" or r.random() < 0.2) else [])
                if len(kids) > 1 and r.random() < 0.4:
                    kids.reverse()          # (the condition and its text come in either order)
                    acc.count("stream_error_text_first")
                W.server.to_client(A, ("stream:error", {}, kids, None))
            elif ev == "peer-close+reconnect-up":
                # ... and the new connection even comes up and starts its login before the loop turns
                W.hold_pump = True
                try:
                    W.server_close(A)
                    W.run(max_steps=W.steps + 4000)
                    c.guarded(lambda: c.app.connect(), "connect")
                    W.hold_connects = False
                    W.run(max_steps=W.steps + 4000)
                    acc.count("reconnect_up_before_loop_turn")
                    if W.detached_pending():
                        stale_down[0] = True
                        acc.count("reconnect_up_with_down_announcement_still_queued")
                finally:
                    W.hold_pump = False
            elif ev.endswith("+connect-request"):
                W.hold_pump = True
                try:
                    if ev.startswith("socket-error"):
                        W.socket_error(A)
                    else:
                        W.server_close(A)
                    W.run(max_steps=W.steps + 4000)
                    acc.count("reconnect_before_loop_turn")
                    if W.detached_pending():
                        acc.count("reconnect_with_deferred_events_queued")
                    c.guarded(lambda: c.app.connect(), "connect")
                finally:
                    W.hold_pump = False
            elif ev == "tick":
                clock.tick()
            elif ev == "tick-pong-race":
                n_before = len(W.server.held_pings)
                racer = PingRacer(1, files=("protocol_iq/layer.py", "yowsup/layers/__init__.py"))
                answered = [False]

                # stop the keep-alive thread at every line from now on until the ping is on the wire, then answer it while the
                # thread is still inside its send
                def every_line(code, lineno, _orig=None):
                    pass
                racer.k = -1          # never the counted stop: a custom callback below
                import sys as _sys
                mon = _sys.monitoring
                try:
                    mon.use_tool_id(inject.TOOL, "vf-pongrace")
                except ValueError:
                    mon.free_tool_id(inject.TOOL)
                    mon.use_tool_id(inject.TOOL, "vf-pongrace")
                at_point, resume = threading.Event(), threading.Event()
                where = [None]

                def cb(code, lineno):
                    if not code.co_filename.endswith(("protocol_iq/layer.py", "yowsup/layers/__init__.py")):
                        return mon.DISABLE
                    if threading.current_thread().__class__.__name__ != "YowPingThread" or answered[0]:
                        return None
                    if len(W.server.inbound.get(A, [])) + len(W.server.held_pings) > n_before or any(t[0] == "iq" and t[1].get("xmlns") == "w:p" for t in W.server.inbound.get(A, [])):
                        answered[0] = True
                        where[0] = "%s:%d" % (code.co_name, lineno)
                        at_point.set()
                        resume.wait(10)
                mon.register_callback(inject.TOOL, mon.events.LINE, cb)
                mon.set_events(inject.TOOL, mon.events.LINE)
                mon.restart_events()
                try:
                    clock.tick()
                    if at_point.wait(2.0):
                        # the ping is on its way: the server processes it and answers at once, the client reads the pong
                        W.run(max_steps=W.steps + 4000)
                        pend = W.server.held_pings.pop(0) if W.server.held_pings else None
                        if pend:
                            W.server.to_client(A, ("iq", {"id": pend, "type": "result", "from": "s.whatsapp.net"}, [], None))
                            W.run(max_steps=W.steps + 4000)
                            acc.count("pong_delivered_inside_ping_send")
                            acc.seen("pong_race_points", where[0])
                finally:
                    resume.set()
                    mon.set_events(inject.TOOL, 0)
                    mon.register_callback(inject.TOOL, mon.events.LINE, None)
                    mon.free_tool_id(inject.TOOL)
                if not answered[0] or not acc.counters.get("pong_delivered_inside_ping_send"):
                    # the thread finished its step without the stop being reached: answer afterwards (plain tick + pong)
                    settle()
                    pend = W.server.held_pings.pop(0) if W.server.held_pings else None
                    if pend:
                        W.server.to_client(A, ("iq", {"id": pend, "type": "result", "from": "s.whatsapp.net"}, [], None))
                acc.count("tick_pong_races")
            elif ev.startswith("tick-race"):
                race_k = forced["race_k"] if forced else r.randint(1, 14)
                racer = PingRacer(race_k)
                racer.install()
                try:
                    clock.tick()
                    reached = racer.at_point.wait(1.0)
                    down_ev = ev.split(":", 1)[1]
                    if down_ev == "socket-error":
                        W.socket_error(A)
                    elif down_ev == "peer-close":
                        W.server_close(A)
                    else:
                        c.guarded(lambda: c.app.disconnect(), "disconnect")
                    # the whole down event is processed while the keep-alive thread stands still at its k-th line
                    W.run(max_steps=W.steps + 4000)
                finally:
                    racer.resume.set()
                    racer.remove()
                if reached:
                    acc.count("tick_race_paused_mid_step")
                    acc.seen("tick_race_points", racer.where)
                acc.count("tick_races")
            elif ev == "pong":
                # the server answers the oldest unanswered ping
                pend = W.server.held_pings.pop(0) if W.server.held_pings else None
                if pend:
                    W.server.to_client(A, ("iq", {"id": pend, "type": "result", "from": "s.whatsapp.net"}, [], None))
            W.hold_connects = ev not in ("connected", "connected-held", "peer-close+reconnect-up")     # a pending 'connected' callback is only delivered by those events
            W.hold_raw = not ref.handshake and ev != "release-handshake" and (ev == "connected-held" or ref.conn == "up")
            good = settle()
            W.hold_connects = False
            if ev in ("socket-error", "peer-close", "disconnect-request") or ev.startswith("tick-race") or ev.endswith("+connect-request") or ref.conn != "up":
                W.hold_raw = False
            if not good:
                return
            note = ref.apply(ev)
            if ref.conn != "up":
                del W.server.held_pings[:]      # pings of a connection that is gone can never be answered
            if note == "auto-reconnect":
                acc.count("auto_reconnects")
                interesting = True
            if note == "ping-timeout":
                acc.count("ping_timeouts")
                interesting = True
            if ev in ("socket-error", "failure", "peer-close") or ev.startswith("stream-error") or ev.startswith("tick-race"):
                interesting = True
            obs = observe(W, c, base)
            acc.count("checkpoints")
            e = ref.exp
            at = [i, ev]

            def bad(key, what):
                if stale_down[0]:
                    # one mechanism, many symptoms: the new connection came up while the previous connection's 'disconnected'
                    # announcement was still queued for the layers above the framing layer; delivered afterwards it tears down the
                    # new login. Everything that goes wrong later in this history is attributed to it.
                    what = "after a reconnect that came up before the stack's loop had delivered the previous connection's 'disconnected' announcement: " + what
                    key = "reconnect-up-before-loop-turn"
                acc.violation(key, "%s (options %s; after event %d: %s; history %s)" % (what, {k: v for k, v in opts.items()}, i, ev, events), dict(w, events=list(events), observed=obs, expected=dict(e), trace_tail=[list(x) for x in W.trace[-25:]],
                                   outbound={k: [t[0] for t in v] for k, v in W.server.outbound.items()}, srv_state=getattr(getattr(c.dispatcher, "srv", None), "state", None),
                                   raw_out={k: len(v) for k, v in W.raw_out.items()}, connected=c.connected,
                                   noise_diag={"queue": getattr(getattr(c.noise, "_incoming_segments_queue", None), "qsize", lambda: None)(), "flushing": getattr(c.noise, "_flushing", None),
                                               "state": getattr(getattr(c.noise, "_wa_noiseprotocol", None), "state", None),
                                               "threads": {n: [list(f[:3]) for f in s_[:6]] for n, s_ in __import__("vf.probes", fromlist=["x"]).thread_states().items()}}))
                return False

            if ev.startswith("tick-race") and getattr(ref, "race_ping_possible", False) and obs["pings"] == e["pings"] + 1:
                e["pings"] += 1         # the keep-alive had written its ping before the connection went down: both orders are fine
            for k in ("connect_calls", "connected", "authed", "pings", "failures", "stream_errors", "successes", "logins"):
                if obs[k] != e[k]:
                    ok = bad("%s:%s:%s" % (k, "more" if obs[k] > e[k] else "fewer", ev.split(":")[0]), "%s: observed %d, the reference machine expects %d" % (k, obs[k], e[k]))
                    break
            if ok and not (e["disconnected_min"] <= obs["disconnected"] <= e["disconnected_max"]):
                ok = bad("disconnected:%s:%s" % ("more" if obs["disconnected"] > e["disconnected_max"] else "fewer", ev.split(":")[0]),
                         "disconnected announcements above the network layer: %d, expected %d..%d" % (obs["disconnected"], e["disconnected_min"], e["disconnected_max"]))
            if ok and not (e["disconnected_min"] <= obs["disconnected_top"] <= e["disconnected_max"]):
                ok = bad("disconnected-top:%s" % ev.split(":")[0], "disconnected announcements at the top: %d, expected %d..%d" % (obs["disconnected_top"], e["disconnected_min"], e["disconnected_max"]))
            if ok and obs["connected_top"] != e["connected"]:
                ok = bad("connected-top:%s" % ev.split(":")[0], "connected announcements at the top: %d, expected %d" % (obs["connected_top"], e["connected"]))
            if ok and obs["disconnect_calls"] < e["disconnect_calls_min"]:
                ok = bad("connection-not-closed:%s" % ev.split(":")[0], "the library closed the connection %d times, expected at least %d" % (obs["disconnect_calls"], e["disconnect_calls_min"]))
            if ok and obs["writes_while_down"]:
                ok = bad("write-while-down:%s" % ev.split(":")[0], "%d write(s) to a connection that is not up" % obs["writes_while_down"])
            if ok and obs["login_errors"]:
                ok = bad("login-stream-invalid", "the responder could not parse a connection's first bytes (second login attempt on one connection or stale state)")
            if ok and obs["auth_events"] != e["logins"]:
                ok = bad("login-attempts:%s" % ev.split(":")[0], "login attempts announced: %d, connections that came up: %d" % (obs["auth_events"], e["logins"]))
            # liveness of the library's view vs the model
            if ok and (c.net.getStatus() is True) != (ref.conn == "up"):
                ok = bad("status:%s" % ev.split(":")[0], "network layer reports connected=%s while the reference machine is %s" % (c.net.getStatus(), ref.conn))
            # the presented passive flag
            if ok and ev in ("connected", "release-handshake", "peer-close+reconnect-up"):
                cp = c.dispatcher.srv.client_payload if getattr(c.dispatcher, "srv", None) is not None else None
                if cp is None or bool(cp.passive) != bool(opts["passive"]):
                    ok = bad("passive-flag", "login presented passive=%s, configured %s" % (getattr(cp, "passive", None), opts["passive"]))
            errs = [x for x in c.errors]
            if ok and errs:
                x = errs[0]
                ok = bad("exception:%s:%s" % (x["type"], x["where"]), "%s escaped during %s: %s" % (x["type"], x["what"], x["msg"]))
            if not ok:
                break
        acc.count("histories")
        acc.count("pings_seen", observe(W, c, base)["pings"])
        acc.count("states_visited", len(ref.visited))
        for s_ in ref.visited:
            acc.seen("ref_states", str(s_))
        from vf.evidence import h
        acc.case(h([opts, events, forced["race_k"] if forced else None]), nontrivial=interesting and ref.exp["connected"] > 0)
        if ok:
            acc.count("history_ok")
        w["events"] = events
        return w
    finally:
        try:
            # stop keep-alive threads
            from vf.probes import all_layers
            for cl in W.clients.values():
                for l in all_layers(cl.stack):
                    if hasattr(l, "stop_thread"):
                        l.stop_thread()
        except Exception:
            pass
        clock.release()
        # let the keep-alive threads of this history run out before anything they could still emit is drained
        t0 = time.time()
        while ping_threads() and time.time() - t0 < 10:
            for t in ping_threads():
                t._stop = True
            time.sleep(0.001)
        iqmod.time = old_time
        W.close()



# ---------------------------------------------------------------------------------------------
# real dispatchers over loopback
REAL_SCENARIOS = ["peer-close", "local-disconnect", "connect-refused", "stream-error-reconnect", "relogin", "quick-relogin", "failure", "disconnect-before-select", "first-login-reboot"]


def real_case(acc, seed, tag, dispatcher_name, scenario):
    """One scripted lifecycle through the library's real socket/asyncore dispatcher against a loopback server thread."""
    from vf import realnet
    from yowsup.layers.network import YowNetworkLayer
    from yowsup.layers.auth import YowAuthenticationProtocolLayer
    from yowsup.layers.interface import YowInterfaceLayer
    r = gen.rng(seed, ID, tag)
    disp = YowNetworkLayer.DISPATCHER_SOCKET if dispatcher_name == "socket" else YowNetworkLayer.DISPATCHER_ASYNCORE
    srv = realnet.LoopServer(auto_success=(scenario != "failure"), answer_uploads=(scenario == "first-login-reboot"))
    srv.start()
    port = srv.port
    if scenario == "connect-refused":
        srv.stop()                      # nobody listens on that port any more
        srv.join(3)                     # (the listening socket is only gone once the accept loop has left it)
    w = {"tag": tag, "dispatcher": dispatcher_name, "scenario": scenario}
    acc.count("real_cases")
    acc.count("real:%s:%s" % (dispatcher_name, scenario))
    acc.case(["real", dispatcher_name, scenario, tag], nontrivial=True)
    props = {YowInterfaceLayer.PROP_RECONNECT_ON_STREAM_ERR: scenario == "stream-error-reconnect"}
    c = realnet.RealClient("real_%s" % tag.replace("/", "_"), port, disp, props)
    C, D, A = YowNetworkLayer.EVENT_STATE_CONNECTED, YowNetworkLayer.EVENT_STATE_DISCONNECTED, YowAuthenticationProtocolLayer.EVENT_AUTHED

    def bad(key, what):
        acc.violation("real:%s:%s" % (key, scenario), "%s dispatcher, scenario %s: %s" % (dispatcher_name, scenario, what), dict(w, connected=c.events(C), disconnected=c.events(D),
                      authed=c.events(A), thread_errors=c.thread_errors[:2], server_states=[x.srv.state for x in srv.conns]))
        return False

    def threads_done(timeout=15.0):
        t0 = time.time()
        while time.time() - t0 < timeout:
            if not any(t.is_alive() for t in c.net_threads):
                return True
            time.sleep(0.005)
        return False

    def threads_done_first():
        return not c.net_threads[0].is_alive()

    yp = r.choice([0.0, 0.0, 0.1, 0.3])
    yi = inject.YieldInjector(random.Random(r.randrange(1 << 30)), ("dispatcher_asyncore.py", "dispatcher_socket.py", "asyncore/__init__.py", "network/layer.py"), p=yp) if yp else None
    if yi:
        yi.__enter__()
    w["yield_p"] = yp
    try:
        c.start_loop()
        c.connect_async()
        if scenario == "connect-refused":
            if not threads_done():
                return bad("connect-hangs", "connect() to a closed port did not return")
            time.sleep(0.05)
            if c.events(C) != 0:
                return bad("connected-announced", "a refused connection was announced as connected")
            if c.events(D) > 1:
                return bad("disconnected-twice", "a refused connection was announced as disconnected %d times" % c.events(D))
            if c.net.getStatus():
                return bad("status", "network layer reports connected after a refused connection")
            acc.count("real_ok")
            return True
        if scenario == "failure":
            if not c.wait(lambda: len(srv.conns) == 1 and srv.conns[0].srv.state == "transport"):
                return bad("no-login", "the login attempt did not reach the server")
            srv.conns[0].send_stanza(("failure", {"reason": "not-authorized"}, [], None))
            if not c.wait(lambda: c.events(D) >= 1 and any(k == "failure" for k, e in c.app_log)):
                return bad("failure-not-handled", "a login failure was not delivered upward / did not close the connection")
            if not threads_done():
                return bad("netthread-hangs", "the network thread did not end after the library closed the connection")
            if c.events(C) != 1 or c.events(D) != 1:
                return bad("announcements", "connected %d / disconnected %d (expected 1 / 1)" % (c.events(C), c.events(D)))
            acc.count("real_ok")
            return True
        if scenario == "first-login-reboot":
            # a new account: passive login, key upload, the confirmed upload makes the library close the connection and connect
            # again (non-passive). The close is requested on the network thread while the 'disconnected' announcement is worked off
            # by the loop thread: the network thread is held at its next line in the control layer until the loop thread is through.
            import sys as _sys
            mon = _sys.monitoring
            at_point, resume, paused = threading.Event(), threading.Event(), [False]
            first_thread = c.net_threads[0]

            def cb(code, lineno):
                if not code.co_filename.endswith("axolotl/layer_control.py"):
                    return mon.DISABLE
                if paused[0] or threading.current_thread() is not first_thread or c.events(D) < 1:
                    return None
                paused[0] = True
                w["held_at"] = "%s:%d" % (code.co_name, lineno)
                at_point.set()
                resume.wait(5)
            if yi:
                yi.__exit__()
                yi = None
            try:
                mon.use_tool_id(inject.TOOL, "vf-reboot")
            except ValueError:
                mon.free_tool_id(inject.TOOL)
                mon.use_tool_id(inject.TOOL, "vf-reboot")
            mon.register_callback(inject.TOOL, mon.events.LINE, cb)
            mon.set_events(inject.TOOL, mon.events.LINE)
            mon.restart_events()
            try:
                c.wait(lambda: at_point.is_set() or (len(srv.conns) >= 2 and c.events(A) >= 2), 15)
                if at_point.is_set():
                    acc.count("real_reboot_network_thread_held")
                    # let the loop thread deliver the announcement to every layer first
                    c.wait(lambda: c.probe_top.event_names().count(D) >= 1 or len(srv.conns) >= 2, 3)
                    time.sleep(0.05)
                resume.set()
                ok_ = c.wait(lambda: len(srv.conns) >= 2 and c.events(A) >= 2, 15)
            finally:
                resume.set()
                mon.set_events(inject.TOOL, 0)
                mon.register_callback(inject.TOOL, mon.events.LINE, None)
                mon.free_tool_id(inject.TOOL)
            if not ok_:
                return bad("no-reboot", "after the confirmed key upload the library did not come back with a second login (connections at the server: %d, authenticated %d times, "
                           "passive still %s)" % (len(srv.conns), c.events(A), c.stack.getProp("org.openwhatsapp.yowsup.prop.auth.passive")))
            cp1, cp2 = srv.conns[0].srv.client_payload, srv.conns[1].srv.client_payload
            if not (cp1 is not None and cp1.passive) or (cp2 is None or cp2.passive):
                return bad("reboot-passive-flags", "first login passive=%s, second login passive=%s (expected True then False)" % (getattr(cp1, "passive", None), getattr(cp2, "passive", None)))
            if c.events(C) != 2 or c.events(D) != 1:
                return bad("announcements", "connected %d / disconnected %d after the key-upload reconnect (expected 2 / 1)" % (c.events(C), c.events(D)))
            acc.count("real_ok")
            return True
        if not c.wait(lambda: c.events(A) >= 1):
            return bad("no-auth", "login did not complete (connected %d, server %s)" % (c.events(C), [x.srv.state for x in srv.conns]))
        if c.events(C) != 1:
            return bad("connected-count", "connected announced %d times" % c.events(C))
        # some traffic both ways over the real socket
        from yowsup.layers.protocol_iq.protocolentities import PingIqProtocolEntity
        n0 = len(srv.conns[0].stanzas)
        for _ in range(3):
            c.app.toLower(PingIqProtocolEntity())
        if not c.wait(lambda: len(srv.conns[0].stanzas) >= n0 + 3 or srv.conns[0].srv.state == "error"):
            return bad("c2s-lost", "stanzas written through the real dispatcher did not arrive")
        if srv.conns[0].srv.state == "error":
            return bad("c2s-corrupt", "server cannot decrypt the client's stream: %s" % srv.conns[0].srv.errors)
        if scenario == "disconnect-before-select":
            # asyncore only: the application's disconnect() lands after the loop thread has collected its descriptors and before
            # its select() (a thread switch in front of a blocking call)
            import asyncore
            real_mod = asyncore.select
            gate, done, armed = threading.Event(), threading.Event(), [True]

            def patched(rl, wl, el, t=None):
                if armed[0] and threading.current_thread() is c.net_threads[0]:
                    armed[0] = False
                    gate.set()
                    done.wait(5)
                return real_mod.select(rl, wl, el, t)

            class Mod(object):
                select = staticmethod(patched)
                error = real_mod.error

                def __getattr__(self, n):
                    return getattr(real_mod, n)
            asyncore.select = Mod()
            try:
                if not gate.wait(5):
                    acc.inconc("%s: the loop thread never reached select()" % tag)
                    return False
                c.app.disconnect()
                done.set()
                if not threads_done():
                    return bad("netthread-hangs", "the network thread did not end after disconnect()")
            finally:
                done.set()
                asyncore.select = real_mod
            acc.count("real_disconnect_before_select")
        elif scenario in ("peer-close", "relogin") or (scenario == "quick-relogin" and r.random() < 0.3):
            srv.close_conn(srv.conns[0])
        elif scenario in ("local-disconnect", "quick-relogin"):
            c.app.disconnect()
        elif scenario == "stream-error-reconnect":
            srv.conns[0].send_stanza(("stream:error", {}, [("ack", {}, [], None)], None))
        if not c.wait(lambda: c.events(D) >= 1):
            return bad("no-disconnected", "the connection went down but no disconnected announcement was made")
        if scenario == "stream-error-reconnect":
            # the interface layer reconnects by itself from the loop thread (which stays inside connect() meanwhile)
            t0 = time.time()
            while time.time() - t0 < 15 and not (len(srv.conns) >= 2 and srv.conns[1].srv.state == "transport" and c.events(A) >= 2):
                time.sleep(0.01)
            if len(srv.conns) < 2:
                return bad("no-auto-reconnect", "no automatic reconnect after a stream error with the option on")
            if srv.conns[1].srv.state != "transport":
                return bad("reconnect-login", "the automatic reconnect did not start a fresh login (server state %s, errors %s)" % (srv.conns[1].srv.state, srv.conns[1].srv.errors))
            if c.events(C) != 2 or c.events(D) != 1:
                return bad("announcements", "connected %d / disconnected %d after auto-reconnect (expected 2 / 1)" % (c.events(C), c.events(D)))
            srv.close_conn(srv.conns[1])
            acc.count("real_ok")
            return True
        if scenario == "quick-relogin":
            # the application reconnects at once from another thread, while the thread that ran the first connection may
            # not yet have returned from connect(); the new connection must be served by its own thread only
            # (once the down announcement has travelled through every layer, as an application's own handler would see it)
            c.wait(lambda: c.probe_top.event_names().count(D) >= 1, 5)
            c.connect_async()
            if not c.wait(lambda: c.events(A) >= 2 or c.events(D) >= 2, 10):
                return bad("relogin", "second login right after a disconnect did not complete (server states %s)" % [x.srv.state for x in srv.conns])
            t0 = time.time()
            k = 0
            while time.time() - t0 < 1.6 and c.events(D) < 2:
                # server-to-client traffic: every frame must be read by exactly one thread
                srv.conns[-1].send_stanza(("ib", {"from": "s.whatsapp.net"}, [("dirty", {"type": "groups", "timestamp": str(1600000000 + k)}, [], None)], None))
                k += 1
                time.sleep(0.01)
            if c.events(D) >= 2:
                return bad("spurious-disconnect", "the second connection was announced as down although neither side closed it (server state %s, thread errors %s)"
                           % (srv.conns[-1].srv.state, c.thread_errors[:1]))
            if not threads_done_first():
                return bad("old-thread-lives", "the thread of the first connect() is still running 1.6 s after its connection closed")
            acc.count("real_quick_relogin_frames", k)
            c.app.disconnect()
            if not c.wait(lambda: c.events(D) >= 2) or not threads_done():
                return bad("relogin-close", "second connection did not close cleanly")
            if c.events(C) != 2 or c.events(D) != 2:
                return bad("announcements", "connected %d / disconnected %d (expected 2 / 2)" % (c.events(C), c.events(D)))
            acc.count("real_ok")
            return True
        if not threads_done():
            return bad("netthread-hangs", "the network thread did not end after the connection went down")
        time.sleep(0.05)
        if c.events(D) != 1:
            return bad("disconnected-count", "disconnected announced %d times for one connection" % c.events(D))
        if c.net.getStatus():
            return bad("status", "network layer still reports connected")
        if scenario == "relogin":
            c.connect_async()
            if not c.wait(lambda: c.events(A) >= 2):
                return bad("relogin", "second login over a new connection did not complete (server states %s)" % [x.srv.state for x in srv.conns])
            if len(srv.conns) != 2 or srv.conns[1].srv.variant != "IK":
                return bad("relogin-variant", "second login did not resume with the stored server key")
            c.app.disconnect()
            if not c.wait(lambda: c.events(D) >= 2) or not threads_done():
                return bad("relogin-close", "second connection did not close cleanly")
            if c.events(C) != 2 or c.events(D) != 2:
                return bad("announcements", "connected %d / disconnected %d (expected 2 / 2)" % (c.events(C), c.events(D)))
        if c.thread_errors:
            return bad("thread-exception:%s" % c.thread_errors[0][1], "exception in a network/loop thread: %s" % (c.thread_errors[0],))
        acc.count("real_ok")
        return True
    finally:
        if yi:
            yi.__exit__()
            acc.count("real_yields", yi.yields)
        c.stop_loop()
        srv.stop()


def patch_server():
    """Keep-alive pings are answered only on a 'pong' event in this check."""
    from vf import world
    if getattr(world.Server, "_c16", False):
        return
    orig = world.Server.on_iq

    def on_iq(self, client, t):
        if t[1].get("xmlns") == "w:p" and getattr(self, "hold_pings", False):
            self.world.count("srv_iq:w:p:get")
            self.held_pings.append(t[1]["id"])
            return
        return orig(self, client, t)
    world.Server.on_iq = on_iq
    world.Server._c16 = True
    oi = world.Server.__init__

    def init(self, world_):
        oi(self, world_)
        self.hold_pings = False
        self.held_pings = []
    world.Server.__init__ = init


def race_sweep(acc, seed, tag, down, interval):
    """The connection goes down at every line boundary of the keep-alive thread's step (k = 1..20), then a fresh login on which
    every ping is answered in time: no time-out may follow."""
    for k in range(1, 21):
        ev = ["connect-request", "connected", "success"] + ["tick"] * (interval - 1) + ["tick-race:" + down, "connect-request", "connected", "success"]
        for _ in range(3):
            ev += ["tick"] * interval + ["pong"]
        forced = {"opts": {"interval": interval, "reconnect": False, "passive": False, "double_close_report": False, "reconnect_prop_set": True},
                  "events": ev, "race_k": k}
        one_history(acc, seed, "%s/%s/i%d/k%d" % (tag, down, interval, k), forced)
        acc.count("race_sweep_histories")


def pong_race_script(acc, seed, tag, interval, reps):
    """The server's pong arrives while the keep-alive thread is still inside the send of that ping; afterwards every ping is
    answered in time: no time-out may follow."""
    for j in range(reps):
        ev = ["connect-request", "connected", "success"] + ["tick"] * (interval - 1) + ["tick-pong-race"]
        for _ in range(3):
            ev += ["tick"] * interval + ["pong"]
        forced = {"opts": {"interval": interval, "reconnect": False, "passive": False, "double_close_report": False, "reconnect_prop_set": True},
                  "events": ev, "race_k": 0}
        one_history(acc, seed, "%s/i%d/%d" % (tag, interval, j), forced)
        acc.count("pong_race_histories")


def shards(tier, seed, nworkers):
    q = tier == "quick"
    nsh = 6 if q else nworkers
    specs = [{"kind": "histories", "shard": i, "n": (300 if q else 30000) // nsh} for i in range(nsh)]
    # real dispatchers over loopback: asyncore keeps one process-wide socket map, so one shard (process) per dispatcher kind and repetition
    reps = 1 if q else 12
    for dname in ("socket", "asyncore"):
        for k in range(reps):
            specs.append({"kind": "real", "dispatcher": dname, "rep": k, "timeout": 600})
    for down in ("peer-close", "disconnect-request", "socket-error"):
        for interval in ((1,) if q else (1, 2, 3)):
            specs.append({"kind": "race-sweep", "down": down, "interval": interval})
    specs.append({"kind": "pong-race", "reps": 4 if q else 60})
    return specs


def run(spec, acc):
    from vf import env
    env.shim_thirdparty()
    patch_server()
    if spec["kind"] == "real":
        for sc in REAL_SCENARIOS:
            if sc == "disconnect-before-select" and spec["dispatcher"] != "asyncore":
                continue
            real_case(acc, spec["seed"], "real/%s/%d/%s" % (spec["dispatcher"], spec["rep"], sc), spec["dispatcher"], sc)
        # a layer raises while an incoming frame travels upward (what an unknown stream-error kind does by design): the
        # connection is announced down once, and a connect request afterwards starts a fresh login (harness shared with C12)
        from vf.props import c12
        c12.real_upward_failure_case(acc, spec["seed"], "ru16/%s/%d" % (spec["dispatcher"], spec["rep"]), spec["dispatcher"])
        acc.sample({"real_dispatcher": spec["dispatcher"], "scenarios": REAL_SCENARIOS + ["layer-raises-on-incoming-frame"]})
        return
    if spec["kind"] == "pong-race":
        for interval in (1, 2, 3):
            pong_race_script(acc, spec["seed"], "pongrace", interval, spec["reps"])
        acc.sample({"pong_race": "pong delivered while the keep-alive thread is inside the send of its ping, then 3 answered pings"})
        return
    if spec["kind"] == "race-sweep":
        race_sweep(acc, spec["seed"], "sweep", spec["down"], spec["interval"])
        acc.sample({"race_sweep": "connection goes down at line event k=1..20 of the keep-alive thread's step, then relogin with every ping answered", "down": spec["down"]})
        return
    for i in range(spec["n"]):
        tag = "h/%d/%d" % (spec["shard"], i)
        w = one_history(acc, spec["seed"], tag)
        if i < 2 and w:
            acc.sample(w)


def replay(spec, acc):
    from vf import env
    env.shim_thirdparty()
    patch_server()
    tag = spec["witness"]["tag"]
    if tag.startswith("real/"):
        real_case(acc, spec["seed"], tag, spec["witness"]["dispatcher"], spec["witness"]["scenario"])
        return
    if tag.startswith("ru16/"):
        from vf.props import c12
        c12.real_upward_failure_case(acc, spec["seed"], tag, spec["witness"]["dispatcher"])
        return
    one_history(acc, spec["seed"], tag)
