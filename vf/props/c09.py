"""C09 — protocol entities and stanzas convert into each other without loss."""
import traceback

from vf import gen, treeeq, catalogue

ID = "C09"
LEVEL = "exploration"
RULE = ("one evaluation = one (entity class, stanza): the stanza is either the documented example of the class (the fixture "
        "of the repository's own entity test module) with every free leaf value re-drawn by kind and list children varied, "
        "or a hand-written documented shape (22 receive-side classes without fixture) with generated values and optional "
        "attributes present/absent; Entity.fromProtocolTreeNode(stanza).toProtocolTreeNode() must equal the stanza under a "
        "strict comparator (numbers by value, protobuf payloads compared field-wise). Send side: the stanza of every entity "
        "built this way and of every application-sendable entity constructor goes through the library encoder, the library "
        "decoder and the independent reference decoder and must come back equal. Non-trivial = optional attribute or list "
        "child present; distinct by (class, stanza hash)")
ASSUMPTIONS = ["'documented shape' = the class's own test fixture / docstring as transcribed in vf/catalogue.py; enumeration-valued attributes keep the documented literal",
               "protobuf payloads inside <proto> are compared field by field on the fields the sender set (C10's comparator), not byte by byte",
               "a catalogue disagreement is reviewed as a possible transcription error before it is called a defect"]
REQUIRED = ["same_sender_again", "fixture_classes", "hand_classes", "receive_roundtrips", "send_roundtrips", "values_redrawn", "lists_varied", "normalisations", "outgoing_classes", "aliasing_probes", "aliasing_ok", "receive_side_classes_found", "receive_side_classes_catalogued", "keys_mixed_cases", "keys_mixed_ok", "optional_variants", "optional_ok"]
TIMEOUT = {"quick": 600, "thorough": 7200}


def where(tb):
    fn = "?"
    for fs in traceback.extract_tb(tb):
        if "/yowsup/" in fs.filename:
            fn = fs.name
    return fn


def split_proto(tree):
    """(tree without proto payload bytes, [proto payloads in order])."""
    protos = []

    def walk(t):
        tag, attrs, children, data = t
        if tag == "proto" and data is not None:
            protos.append(data)
            return (tag, attrs, [walk(c) for c in children], b"<proto>")
        if tag == "stream:error":
            # (the condition and its text come in either order on the wire; their order carries nothing)
            return (tag, attrs, sorted([walk(c) for c in children], key=lambda c: c[0]), data)
        return (tag, attrs, [walk(c) for c in children], data)
    return walk(tree), protos


def proto_diff(a, b):
    from vf.props import c10
    m = c10.M()
    pa, pb = m["e2e"].Message(), m["e2e"].Message()
    try:
        pa.ParseFromString(a)
        pb.ParseFromString(b)
    except Exception as e:  # noqa
        return "payload does not parse: %r" % (e,)
    return c10.cmp_proto(pa, pb, c10.modelled_fields(), "Message", {})


def judge_receive(acc, cls, name, tree, origin, nontrivial, codec):
    """node -> entity -> node; then the send-side check on the result."""
    acc.count("receive_roundtrips")
    acc.count("recv_class:" + cls.__name__)
    w = {"class": cls.__name__, "shape": name, "origin": origin, "stanza": treeeq.describe(tree, limit=8)}
    node = treeeq.to_node(tree)
    try:
        ent = cls.fromProtocolTreeNode(node)
    except Exception as e:  # noqa
        acc.violation("%s:from-raises:%s" % (cls.__name__, type(e).__name__), "%s.fromProtocolTreeNode raised %r on a stanza of the documented shape" % (cls.__name__, e), w)
        return
    try:
        back = ent.toProtocolTreeNode()
    except Exception as e:  # noqa
        acc.violation("%s:to-raises:%s:%s" % (cls.__name__, type(e).__name__, where(e.__traceback__)), "%s cannot be serialised again: %r" % (cls.__name__, e), w)
        return
    if back is None:
        acc.violation("%s:to-none" % cls.__name__, "%s.toProtocolTreeNode returned None" % cls.__name__, w)
        return
    try:
        d_again = treeeq.diff(treeeq.to_tuple(back), treeeq.to_tuple(ent.toProtocolTreeNode()))
    except Exception as e:  # noqa
        d_again = "second serialisation raised %r" % (e,)
    if d_again:
        acc.violation("%s:unstable" % cls.__name__, "serialising the same %s entity a second time gives something else: %s" % (cls.__name__, d_again), w)
        return
    ta, pa = split_proto(tree)
    try:
        tb, pb = split_proto(treeeq.to_tuple(back))
    except Exception as e:  # noqa
        acc.violation("%s:to-malformed:%s" % (cls.__name__, type(e).__name__), "%s produced a malformed tree: %r" % (cls.__name__, e), w)
        return
    norm = []
    d = treeeq.diff(ta, tb, by_value=True, norm=norm)
    acc.count("normalisations", len(norm))
    if d:
        acc.violation("%s:roundtrip:%s" % (cls.__name__, diffkey(d)), "stanza -> %s -> stanza changes it: %s" % (cls.__name__, d), w)
        return
    if len(pa) != len(pb):
        acc.violation("%s:roundtrip:proto-count" % cls.__name__, "payload children %d vs %d" % (len(pa), len(pb)), w)
        return
    for x, y in zip(pa, pb):
        pd = proto_diff(x, y)
        if pd:
            acc.violation("%s:roundtrip:payload:%s" % (cls.__name__, pd.split(":")[0]), "message payload changes through %s: %s" % (cls.__name__, pd), w)
            return
    acc.count("receive_ok")
    # the send-side clause speaks of entities that are sent: stanzas without a 'from' (requests, outgoing messages...)
    if "from" not in (back.attributes or {}):
        judge_send(acc, cls.__name__, name, back, w, codec)
    # another stanza from the SAME sender right afterwards, lacking the attributes this class serialises only when they are set
    # (push name, offline marker, ...): what the earlier stanza carried must not show up in it
    if origin != "same-sender-again" and tree[0] in ("message", "receipt", "notification") and any(k_ in tree[1] for k_ in ("notify", "offline", "t")):
        drop = [k_ for k_ in ("notify", "offline") if k_ in tree[1]]
        if drop:
            t2 = (tree[0], {k_: v_ for k_, v_ in tree[1].items() if k_ not in drop}, tree[2], tree[3])
            if "id" in t2[1]:
                t2[1]["id"] = str(t2[1]["id"]) + "b"
            try:
                e2 = cls.fromProtocolTreeNode(treeeq.to_node(t2))
                b2 = treeeq.to_tuple(e2.toProtocolTreeNode())
            except Exception:  # noqa  (whether the class accepts the stanza without them is the optional-attribute probe's business)
                return
            acc.count("same_sender_again")
            # (a class may write its own default for an absent attribute: only the earlier stanza's value is a carry-over)
            extra = [k_ for k_ in drop if b2[1].get(k_) is not None and b2[1].get(k_) == tree[1][k_] and tree[1][k_] not in ("0", "", "false")]
            if extra:
                acc.violation("%s:carried-over:%s" % (cls.__name__, "+".join(extra)), "a second stanza from the same sender, without %s, comes back from %s with %s"
                              % (drop, cls.__name__, {k_: b2[1][k_] for k_ in extra}), dict(w, origin="same-sender-again"))


# ---------------------------------------------------------------------------------------------
# optional fields: present / absent, with optionality learnt from the entity's own serialiser
def pure_deletions(a, b, path=""):
    """If tree b is tree a with attributes and/or whole children removed and nothing else changed: the removed places
    (possibly empty list); None otherwise."""
    ta, aa, ca, da = a
    tb, ab, cb, db = b
    if ta != tb or da != db:
        return None
    out = []
    for k, v in ab.items():
        if k not in aa or aa[k] != v:
            return None
    for k in aa:
        if k not in ab:
            out.append("%s/%s@%s" % (path, ta, k))
    i = 0
    for c in cb:
        matched = False
        while i < len(ca):
            sub = pure_deletions(ca[i], c, path + "/" + ta) if ca[i][0] == c[0] else None
            i += 1
            if sub is not None:
                out.extend(sub)
                matched = True
                break
            out.append("%s/%s/%s" % (path, ta, ca[i - 1][0]))
        if not matched:
            return None
    for j in range(i, len(ca)):
        out.append("%s/%s/%s" % (path, ta, ca[j][0]))
    return out


FIELD_VALUES = {
    "participant": lambda r: gen.jid(r), "notify": lambda r: gen.s_from(r, gen.ALNUM + " ", r.randint(1, 12)), "offline": lambda r: True,
    "retry": lambda r: str(r.randint(1, 5)), "e": lambda r: str(r.randint(0, 3)), "callid": lambda r: gen.msgid(r), "name": lambda r: gen.s_from(r, gen.ALNUM + " ", r.randint(1, 12)),
    "to": lambda r: gen.jid(r), "t": lambda r: str(r.randint(1, 2 ** 31 - 1)), "subject": lambda r: gen.s_from(r, gen.ALNUM + " ", r.randint(1, 12)),
    "type": None, "from": lambda r: gen.jid(r),
}


_recv_names = None


def receive_side(cls):
    """True when a layer's code parses stanzas with this class, directly (X.fromProtocolTreeNode( in a layer module) or
    through the parser of another receive-side class delegating to it."""
    global _recv_names
    if _recv_names is None:
        import os
        import re
        import yowsup
        root = os.path.dirname(yowsup.__file__)
        uses = {}       # file -> class names whose parser it calls
        defines = {}    # file -> class names it defines
        for dp, dn, fn in os.walk(root):
            for f in fn:
                if f.endswith(".py") and not f.startswith("test_"):
                    path = os.path.join(dp, f)
                    try:
                        src = open(path, encoding="utf-8", errors="replace").read()
                    except OSError:
                        continue
                    uses[path] = set(m.group(1) for m in re.finditer(r"(\w+)\.fromProtocolTreeNode\(", src))
                    defines[path] = set(m.group(1) for m in re.finditer(r"^class\s+(\w+)", src, re.M))
        recv = set()
        for path, u in uses.items():
            if "protocolentities" not in path:          # layers, interface, manager... : code that handles incoming data
                recv |= u
        changed = True
        while changed:
            changed = False
            for path, u in uses.items():
                if defines[path] & recv:
                    new = (u - recv) - defines[path]
                    # a receive-side class delegating to its own base/sub classes
                    if new:
                        recv |= new
                        changed = True
        _recv_names = recv
    return cls.__name__ in _recv_names


def optional_probe(acc, cls, name, tree, r, codec):
    """Stanzas the entity's own serialiser produces with one optional field unset (or one unset field set) must make the
    same round trip. Optionality is what the serialiser itself shows: dropping the field removes attributes/children and
    changes nothing else."""
    import copy
    if not receive_side(cls):
        acc.seen("optional_probe_skipped_not_receive_side", cls.__name__)
        return
    acc.seen("optional_probe_classes", cls.__name__)
    try:
        e0 = cls.fromProtocolTreeNode(treeeq.to_node(tree))
        n0 = treeeq.to_tuple(e0.toProtocolTreeNode())
    except Exception:
        return      # judged by judge_receive
    for f, v in sorted(vars(e0).items()):
        variants = []
        if v is not None and not isinstance(v, (list, dict, tuple)):
            variants.append(("absent", None))
        key = f.strip("_").lower()
        if v is None and FIELD_VALUES.get(key):
            variants.append(("present", FIELD_VALUES[key](r)))
        for mode, val in variants:
            e = copy.copy(e0)
            try:
                setattr(e, f, val)
                n1 = treeeq.to_tuple(e.toProtocolTreeNode())
            except Exception:
                acc.count("optional_probe_unserialisable")
                continue
            changed = pure_deletions(n0, n1) if mode == "absent" else pure_deletions(n1, n0)
            if not changed:
                continue        # the field is not an optional part of the stanza (or not part of it at all)
            acc.count("optional_variants")
            acc.count("optional_%s" % mode)
            acc.seen("optional_places", "%s:%s:%s" % (cls.__name__, mode, ",".join(sorted(set(changed)))[:80]))
            acc.case(["opt", cls.__name__, f, mode, repr(n1)[:2000]], nontrivial=True)
            w = {"class": cls.__name__, "shape": name, "origin": "own serialiser, field %s %s" % (f, mode), "places": changed[:4], "stanza": treeeq.describe(n1, limit=8)}
            try:
                e2 = cls.fromProtocolTreeNode(treeeq.to_node(n1))
                n2 = treeeq.to_tuple(e2.toProtocolTreeNode())
            except Exception as ex:  # noqa
                acc.violation("%s:optional-%s:%s:raises:%s" % (cls.__name__, mode, f.strip("_"), type(ex).__name__),
                              "%s cannot take back its own stanza with optional %s %s (%s): %r" % (cls.__name__, f, mode, changed[:3], ex), w)
                continue
            ta, pa = split_proto(n1)
            tb, pb = split_proto(n2)
            d = treeeq.diff(ta, tb, by_value=True)
            if d and mode == "absent":
                # an absent attribute read back as its default and written out explicitly (offline="0") loses and alters
                # nothing, provided nothing else moved and the result is stable
                back = pure_deletions(tb, ta)
                if back is not None and set(back) <= set(changed):
                    try:
                        n3 = treeeq.to_tuple(cls.fromProtocolTreeNode(treeeq.to_node(n2)).toProtocolTreeNode())
                        if not treeeq.diff(tb, split_proto(n3)[0], by_value=True):
                            acc.count("optional_absent_written_as_default")
                            acc.seen("defaults_written", "%s:%s" % (cls.__name__, ",".join(sorted(set(back)))[:60]))
                            continue
                    except Exception:
                        pass
            if d:
                acc.violation("%s:optional-%s:%s:%s" % (cls.__name__, mode, f.strip("_"), diffkey(d)),
                              "stanza with optional %s %s -> %s -> stanza changes it: %s" % (f, mode, cls.__name__, d), w)
                continue
            acc.count("optional_ok")


def keys_result_mixed(acc, cls, name, tree, r):
    """Key fetch results for several users of which some lack a part (no one-time key left, no signed key ...): the complete
    users must come through unchanged whatever their neighbours look like, the incomplete ones are reported as errors."""
    tag, attrs, children, data = tree
    lst = [c for c in children if c[0] == "list"]
    if not lst or not lst[0][2]:
        return
    proto = lst[0][2][0]
    n = r.randint(2, 5)
    users, complete, incomplete = [], [], []
    for i in range(n):
        stats = {}
        u = catalogue.mutate(r, proto, stats)
        jid = gen.jid(r)
        kids = list(u[2])
        if r.random() < 0.45:
            drop = r.choice(["key", "skey", "registration", "identity"])
            kids = [k for k in kids if k[0] != drop]
            incomplete.append(jid)
        else:
            complete.append(jid)
        users.append((u[0], dict(u[1], jid=jid), kids, u[3]))
    st = (tag, attrs, [("list", lst[0][1], users, None)] + [c for c in children if c[0] != "list"], data)
    w = {"class": cls.__name__, "shape": name, "origin": "mixed key result", "complete": complete, "incomplete": incomplete, "stanza": treeeq.describe(st, limit=6)}
    acc.count("keys_mixed_cases")
    acc.case(["keysmixed", repr(st)[:3000]], nontrivial=bool(incomplete) and bool(complete))
    try:
        e = cls.fromProtocolTreeNode(treeeq.to_node(st))
        back = treeeq.to_tuple(e.toProtocolTreeNode())
    except Exception as ex:  # noqa
        acc.violation("%s:mixed:raises:%s" % (cls.__name__, type(ex).__name__), "a key result with incomplete users cannot be parsed/serialised: %r" % (ex,), w)
        return
    errs = sorted(e.getErrors().keys()) if hasattr(e, "getErrors") else None
    if errs is not None and errs != sorted(incomplete):
        acc.violation("%s:mixed:error-set" % cls.__name__, "users reported as incomplete: %s, users that are incomplete: %s" % (errs, sorted(incomplete)), w)
        return
    got = {}
    for c in back[2]:
        if c[0] == "list":
            for u in c[2]:
                got[u[1].get("jid")] = u
    want = {u[1]["jid"]: u for u in users if u[1]["jid"] in complete}
    if sorted(got) != sorted(want):
        acc.violation("%s:mixed:complete-users-lost" % cls.__name__, "complete users in the stanza: %s, users the entity carries: %s" % (sorted(want), sorted(got)), w)
        return
    for j in want:
        d = treeeq.diff(want[j], got[j], by_value=True)
        if d:
            acc.violation("%s:mixed:user-differs" % cls.__name__, "a complete user next to incomplete ones changes in the round trip: %s" % d, w)
            return
    acc.count("keys_mixed_ok")


def aliasing_probe(acc, cls, name, tree, r):
    """Two entities built from equal stanzas are independent objects: editing every text/bytes field of the first one (as an
    application does before forwarding it) must not change what a later, identical stanza converts to."""
    try:
        e1 = cls.fromProtocolTreeNode(treeeq.to_node(tree))
        n1 = treeeq.to_tuple(e1.toProtocolTreeNode())
    except Exception:
        return
    touched = [0]

    def scribble(o, depth=0):
        if depth > 5 or o is None:
            return
        if hasattr(o, "__dict__") and type(o).__module__.startswith("yowsup"):
            for k, v in list(vars(o).items()):
                if isinstance(v, str) and v:
                    try:
                        setattr(o, k, v + "~edited")
                        touched[0] += 1
                    except Exception:
                        pass
                elif isinstance(v, (bytes, bytearray)) and v:
                    try:
                        setattr(o, k, bytes(v) + b"~")
                        touched[0] += 1
                    except Exception:
                        pass
                elif isinstance(v, list):
                    for x in v:
                        scribble(x, depth + 1)
                    try:
                        v.append(v[0]) if v and isinstance(v[0], str) else None
                    except Exception:
                        pass
                elif isinstance(v, dict):
                    for x in v.values():
                        scribble(x, depth + 1)
                else:
                    scribble(v, depth + 1)
    scribble(e1)
    if not touched[0]:
        return
    acc.count("aliasing_probes")
    w = {"class": cls.__name__, "shape": name, "origin": "aliasing", "stanza": treeeq.describe(tree, limit=6)}
    try:
        e2 = cls.fromProtocolTreeNode(treeeq.to_node(tree))
        n2 = treeeq.to_tuple(e2.toProtocolTreeNode())
    except Exception as ex:  # noqa
        acc.violation("%s:aliasing:raises:%s" % (cls.__name__, type(ex).__name__), "after an earlier entity of the same stanza was edited, converting the stanza again raised %r" % (ex,), w)
        return
    ta, pa = split_proto(n1)
    tb, pb = split_proto(n2)
    d = treeeq.diff(ta, tb, by_value=True)
    if not d:
        for x, y in zip(pa, pb):
            d = proto_diff(x, y)
            if d:
                break
    if d:
        acc.violation("%s:aliasing" % cls.__name__, "an identical stanza converts differently after an earlier entity built from it was edited (shared state between entities): %s" % d, w)
        return
    acc.count("aliasing_ok")


def diffkey(d):
    """Mechanism part of a treeeq diff: location without values."""
    loc = d.split(": ")[0]
    import re
    loc = re.sub(r"\[\d+\]", "", loc)
    kind = "attr-keys" if "attribute keys differ" in d else "content" if "content" in d else "children" if "children vs" in d else "tag" if ": tag " in d else "value"
    extra = ""
    if kind == "attr-keys":
        m = re.search(r"only left \[(.*?)\], only right \[(.*?)\]", d)
        if m:
            extra = ":-%s+%s" % (m.group(1).replace("\"", "").replace("'", "").replace(" ", ""), m.group(2).replace("\"", "").replace("'", "").replace(" ", ""))
    return "%s:%s%s" % (loc, kind, extra)


def non_latin1_strings(t, path=""):
    """Places (tag/attribute) of strings with characters beyond U+00FF."""
    tag, attrs, children, data = t
    out = []
    for k, v in attrs.items():
        if isinstance(v, str) and any(ord(c) > 255 for c in v):
            out.append("%s/%s@%s" % (path, tag, k))
    for c in children:
        out.extend(non_latin1_strings(c, path + "/" + tag))
    return out


def judge_send(acc, clsname, name, node, w, codec):
    """The stanza an entity produced must be accepted by the codec and survive it (library and reference decoder)."""
    from vf import refcodec
    enc, dec = codec
    acc.count("send_roundtrips")
    try:
        t = treeeq.to_tuple(node)
    except Exception as e:  # noqa
        acc.violation("%s:send:malformed:%s" % (clsname, type(e).__name__), "stanza of %s is malformed: %r" % (clsname, e), w)
        return
    wide = non_latin1_strings(t)
    try:
        out = enc.protocolTreeNodeToBytes(node)
        if wide:
            bytearray(out)     # what YowCoderLayer.write does next
    except Exception as e:  # noqa
        if wide:
            acc.violation("send:non-latin1-attribute:%s" % clsname, "a stanza of %s with text outside Latin-1 in %s cannot be put on the wire: %r" % (clsname, wide[:2], e), w)
            return
        acc.violation("%s:send:encode-raises:%s" % (clsname, type(e).__name__), "stanza of %s is not accepted by the encoder: %r" % (clsname, e), w)
        return
    try:
        back = dec.getProtocolTreeNode(bytearray(out))
        d = treeeq.diff(t, back)
    except Exception as e:  # noqa
        acc.violation("%s:send:decode-raises:%s" % (clsname, type(e).__name__), "encoded stanza of %s cannot be decoded: %r" % (clsname, e), w)
        return
    if d:
        acc.violation("%s:send:codec-changes:%s" % (clsname, diffkey(d)), "stanza of %s does not survive the codec: %s" % (clsname, d), w)
        return
    try:
        d2 = treeeq.diff(t, refcodec.decode(bytes(bytearray(out))))
    except refcodec.FormatError as e:
        d2 = "invalid frame: %s" % e
    if d2:
        acc.violation("%s:send:reference-decoder:%s" % (clsname, diffkey(d2) if ": " in d2 else "invalid"), "reference decoder reads the stanza of %s differently: %s" % (clsname, d2), w)
        return
    acc.count("send_ok")


# ---------------------------------------------------------------------------------------------
# send side: constructors applications and the library use (arguments as the demos/cli pass them)
def outgoing_catalogue():
    from yowsup.layers.protocol_messages.protocolentities import TextMessageProtocolEntity
    from yowsup.layers.protocol_receipts.protocolentities import OutgoingReceiptProtocolEntity
    from yowsup.layers.protocol_acks.protocolentities import OutgoingAckProtocolEntity
    from yowsup.layers.protocol_presence.protocolentities import (AvailablePresenceProtocolEntity, UnavailablePresenceProtocolEntity, SubscribePresenceProtocolEntity,
                                                                   UnsubscribePresenceProtocolEntity, PresenceProtocolEntity, LastseenIqProtocolEntity)
    from yowsup.layers.protocol_chatstate.protocolentities import OutgoingChatstateProtocolEntity
    from yowsup.layers.protocol_iq.protocolentities import PingIqProtocolEntity, PongResultIqProtocolEntity
    from yowsup.layers.protocol_groups import protocolentities as G
    from yowsup.layers.protocol_profiles import protocolentities as P
    from yowsup.layers.protocol_privacy import protocolentities as PR
    from yowsup.layers.protocol_contacts.protocolentities import GetSyncIqProtocolEntity
    from yowsup.layers.protocol_ib.protocolentities import CleanIqProtocolEntity
    from yowsup.layers.protocol_media.protocolentities import RequestUploadIqProtocolEntity
    from yowsup.layers.axolotl import protocolentities as AX
    J = gen.jid

    def gj(r):
        return gen.jid(r, True)
    cat = {
        "text": lambda r: TextMessageProtocolEntity(gen.unicode_text(r, 1, 40), to=J(r)),
        "receipt": lambda r: OutgoingReceiptProtocolEntity(gen.msgid(r), J(r), read=r.random() < 0.5, participant=J(r) if r.random() < 0.4 else None),
        "receipt-multi": lambda r: OutgoingReceiptProtocolEntity([gen.msgid(r) for _ in range(gen.count(r, 2, 5))], J(r), read=True),
        # (the constructor documents list or tuple; one id may also come wrapped in either)
        "receipt-multi-tuple": lambda r: OutgoingReceiptProtocolEntity(tuple(gen.msgid(r) for _ in range(gen.count(r, 1, 5))), J(r), read=r.random() < 0.5),
        "receipt-single-list": lambda r: OutgoingReceiptProtocolEntity([gen.msgid(r)], J(r), read=r.random() < 0.5),
        "ack": lambda r: OutgoingAckProtocolEntity(gen.msgid(r), r.choice(["receipt", "notification", "message"]), r.choice([None, "read", "picture"]), J(r), participant=J(r) if r.random() < 0.4 else None),
        "presence-available": lambda r: AvailablePresenceProtocolEntity(),
        "presence-unavailable": lambda r: UnavailablePresenceProtocolEntity(),
        "presence-name": lambda r: PresenceProtocolEntity(name=gen.unicode_text(r, 1, 20)),
        "presence-subscribe": lambda r: SubscribePresenceProtocolEntity(J(r)),
        "presence-unsubscribe": lambda r: UnsubscribePresenceProtocolEntity(J(r)),
        "lastseen": lambda r: LastseenIqProtocolEntity(J(r)),
        "chatstate": lambda r: OutgoingChatstateProtocolEntity(r.choice([OutgoingChatstateProtocolEntity.STATE_TYPING, OutgoingChatstateProtocolEntity.STATE_PAUSED]), J(r)),
        "ping": lambda r: PingIqProtocolEntity(to="s.whatsapp.net"),
        "pong": lambda r: PongResultIqProtocolEntity("s.whatsapp.net", gen.msgid(r)),
        "groups-list": lambda r: G.ListGroupsIqProtocolEntity(),
        "groups-create": lambda r: G.CreateGroupsIqProtocolEntity(gen.unicode_text(r, 1, 20), participants=[J(r) for _ in range(gen.count(r, 1, 4))]),
        "groups-info": lambda r: G.InfoGroupsIqProtocolEntity(gj(r)),
        "groups-leave": lambda r: G.LeaveGroupsIqProtocolEntity([gj(r) for _ in range(gen.count(r, 1, 3))]),
        "groups-add": lambda r: G.AddParticipantsIqProtocolEntity(gj(r), [J(r) for _ in range(gen.count(r, 1, 4))]),
        "groups-remove": lambda r: G.RemoveParticipantsIqProtocolEntity(gj(r), [J(r) for _ in range(gen.count(r, 1, 4))]),
        "groups-promote": lambda r: G.PromoteParticipantsIqProtocolEntity(gj(r), [J(r) for _ in range(gen.count(r, 1, 4))]),
        "groups-demote": lambda r: G.DemoteParticipantsIqProtocolEntity(gj(r), [J(r) for _ in range(gen.count(r, 1, 4))]),
        "groups-subject": lambda r: G.SubjectGroupsIqProtocolEntity(gj(r), gen.unicode_text(r, 1, 20)),
        "picture-get": lambda r: P.GetPictureIqProtocolEntity(J(r), preview=r.random() < 0.5),
        "picture-set": lambda r: P.SetPictureIqProtocolEntity(J(r), gen.blob(r, 40), gen.blob(r, 200)),
        "status-set": lambda r: P.SetStatusIqProtocolEntity(gen.unicode_text(r, 1, 30).encode("utf-8")),
        "statuses-get": lambda r: P.GetStatusesIqProtocolEntity([J(r) for _ in range(gen.count(r, 1, 3))]),
        "unregister": lambda r: P.UnregisterIqProtocolEntity(),
        "privacy-get": lambda r: PR.GetPrivacyIqProtocolEntity() if hasattr(PR, "GetPrivacyIqProtocolEntity") else None,
        "contacts-sync": lambda r: GetSyncIqProtocolEntity(["+" + gen.phone(r) for _ in range(gen.count(r, 1, 4))]),
        "clean-dirty": lambda r: CleanIqProtocolEntity(r.choice(["groups", "account"]), "s.whatsapp.net"),
        "keys-get": lambda r: AX.GetKeysIqProtocolEntity([J(r) for _ in range(gen.count(r, 1, 3))]),
        "keys-set": lambda r: AX.SetKeysIqProtocolEntity(gen.blob(r, 32), (gen.blob(r, 3), gen.blob(r, 32), gen.blob(r, 64)),
                                                         {gen.blob(r, 3): gen.blob(r, 32) for _ in range(gen.count(r, 1, 5))}, 5, gen.blob(r, 4)),
        "retry-receipt-out": lambda r: AX.RetryOutgoingReceiptProtocolEntity(gen.msgid(r), J(r), r.randint(1, 2 ** 31 - 1), str(r.randint(1, 2 ** 31 - 1)), count=r.randint(1, 4),
                                                                             participant=J(r) if r.random() < 0.4 else None),
        "enc-message-out": lambda r: AX.EncryptedMessageProtocolEntity([AX.EncProtocolEntity(r.choice(["pkmsg", "msg"]), 2, gen.blob(r, 80), r.choice([None, "image"]),
                                                                                              jid=J(r) if r.random() < 0.3 else None),
                                                                        AX.EncProtocolEntity("skmsg", 2, gen.blob(r, 60))][:r.randint(1, 2)], "text",
                                                                       __import__("yowsup.layers.protocol_messages.protocolentities.attributes.attributes_message_meta", fromlist=["x"]).MessageMetaAttributes(id=gen.msgid(r), recipient=J(r))),
        "request-upload": lambda r: None,
    }
    try:
        from yowsup.layers.protocol_profiles.protocolentities import GetPrivacyIqProtocolEntity
        cat["privacy-get"] = lambda r: GetPrivacyIqProtocolEntity()
    except Exception:
        pass
    return cat


def media_entities(r):
    """Application-composed media/extended text messages via the C10 generators."""
    from vf.props import c10
    from yowsup.layers.protocol_media.protocolentities import MediaMessageProtocolEntity
    from yowsup.layers.protocol_messages.protocolentities.protomessage import ProtomessageProtocolEntity
    from yowsup.layers.protocol_messages.protocolentities.attributes.attributes_message_meta import MessageMetaAttributes
    kind, msg = c10.gen_message(r, with_skdm=False)
    meta = MessageMetaAttributes(id=gen.msgid(r), recipient=gen.jid(r, r.random() < 0.3))
    if kind in ("conversation", "protocol", "sender_key_distribution_message"):
        return "msg-" + kind, ProtomessageProtocolEntity("text", msg, meta)
    return "msg-" + kind, MediaMessageProtocolEntity({"extended_text": "url"}.get(kind, kind), msg, meta)


def shards(tier, seed, nworkers):
    q = tier == "quick"
    nsh = 6 if q else nworkers
    return [{"kind": "mix", "shard": i, "nsh": nsh, "draws": 300 if q else 6000, "out": 150 if q else 3000} for i in range(nsh)]


def run(spec, acc):
    from vf import env
    env.shim_thirdparty()
    from yowsup.layers.coder.encoder import WriteEncoder
    from yowsup.layers.coder.decoder import ReadDecoder
    from yowsup.layers.coder.tokendictionary import TokenDictionary
    td = TokenDictionary()
    codec = (WriteEncoder(td), ReadDecoder(td))
    seed, sh, nsh = spec["seed"], spec["shard"], spec["nsh"]
    fx, errors = catalogue.fixtures()
    if len(fx) < 40:
        acc.inconc("only %d entity fixtures could be loaded from the repository's test modules (%s)" % (len(fx), errors[:2]))
    if sh == 0:
        # reach monitor: every class some layer parses incoming stanzas with must be in the catalogue (base classes that only
        # serve their subclasses' parsers, and the generic result/message classes exercised by C06/C08/C10, are listed here)
        BASES = {"AckProtocolEntity", "ChatstateProtocolEntity", "ContactNotificationProtocolEntity", "EncProtocolEntity", "PictureIqProtocolEntity",
                 "ProtocolEntity", "ProtomessageProtocolEntity", "ResultIqProtocolEntity", "SyncIqProtocolEntity"}
        receive_side(type("Probe", (), {}))
        have = set(c.__name__ for n, c, t in fx)
        for n in catalogue.HAND:
            try:
                have.add(catalogue.hand_class(n).__name__)
            except Exception:
                pass
        missing = sorted(set(_recv_names) - have - BASES)
        acc.count("receive_side_classes_found", len(_recv_names))
        acc.count("receive_side_classes_catalogued", len(set(_recv_names) & have))
        if missing:
            acc.inconc("receive-side entity classes without a catalogue shape: %s" % missing[:8])
    for i, (name, cls, tree) in enumerate(fx):
        if i % nsh != sh:
            continue
        acc.count("fixture_classes")
        acc.seen("classes", cls.__name__)
        acc.case(["fx0", name], nontrivial=True)
        judge_receive(acc, cls, name, tree, "fixture", True, codec)
        for k in range(spec["draws"]):
            r = gen.rng(seed, ID, "fx/%s/%d" % (name, k))
            stats = {}
            t2 = catalogue.mutate(r, tree, stats)
            acc.count("values_redrawn", stats.get("values", 0))
            acc.count("lists_varied", stats.get("lists", 0))
            acc.case(["fx", name, repr(t2)[:3000]], nontrivial=stats.get("values", 0) > 0)
            judge_receive(acc, cls, name, t2, "fixture-mutated", True, codec)
            if k < spec.get("opt", 3):
                optional_probe(acc, cls, name, t2, r, codec)
                aliasing_probe(acc, cls, name, t2, r)
            if cls.__name__ == "ResultGetKeysIqProtocolEntity":
                keys_result_mixed(acc, cls, name, tree, r)
        if i < nsh * 2:
            acc.sample({"class": cls.__name__, "fixture": name, "stanza": treeeq.describe(tree, 4)})
    for i, name in enumerate(sorted(catalogue.HAND)):
        if i % nsh != sh:
            continue
        try:
            cls = catalogue.hand_class(name)
        except Exception as e:  # noqa
            acc.inconc("catalogue class for %s cannot be imported: %r" % (name, e))
            continue
        acc.count("hand_classes")
        acc.seen("classes", cls.__name__)
        for k in range(spec["draws"]):
            r = gen.rng(seed, ID, "hand/%s/%d" % (name, k))
            tree = catalogue.HAND[name][2](r)
            acc.case(["hand", name, repr(tree)[:3000]], nontrivial=True)
            judge_receive(acc, cls, name, tree, "hand-shape", True, codec)
            if k < spec.get("opt", 3):
                optional_probe(acc, cls, name, tree, r, codec)
                aliasing_probe(acc, cls, name, tree, r)
    cat = outgoing_catalogue()
    for i, name in enumerate(sorted(cat)):
        if i % nsh != sh:
            continue
        for k in range(spec["out"]):
            r = gen.rng(seed, ID, "out/%s/%d" % (name, k))
            w = {"class": name, "shape": "constructor", "origin": "outgoing"}
            try:
                ent = cat[name](r)
                if ent is None:
                    break
                node = ent.toProtocolTreeNode()
            except Exception as e:  # noqa
                acc.violation("%s:send:construct-raises:%s:%s" % (name, type(e).__name__, where(e.__traceback__)), "outgoing entity %s cannot be built/serialised with the arguments its callers pass: %r" % (name, e), w)
                break
            if k == 0:
                acc.count("outgoing_classes")
                acc.seen("outgoing", type(ent).__name__)
            acc.case(["out", name, k], nontrivial=True)
            judge_send(acc, type(ent).__name__, name, node, w, codec)
    for k in range(spec["out"] * 4):
        r = gen.rng(seed, ID, "media/%d/%d" % (sh, k))
        try:
            name, ent = media_entities(r)
            node = ent.toProtocolTreeNode()
        except Exception as e:  # noqa
            continue   # payload-level failures belong to C10
        acc.case(["outm", sh, k], nontrivial=True)
        judge_send(acc, type(ent).__name__, name, node, {"class": name, "origin": "outgoing-message"}, codec)


def replay(spec, acc):
    run({"seed": spec["seed"], "shard": 0, "nsh": 1, "draws": 5, "out": 3}, acc)
