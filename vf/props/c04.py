"""C04 — encrypted transport: handshake succeeds, frames flow intact and in order."""
import random
import threading
import time

from vf import gen, inject, treeeq, trees

ID = "C04"
LEVEL = "exploration"
RULE = ("one evaluation = one connection history against the Noise responder double: variant (XX / IK / IK->XXfallback) x "
        "config (edge routing info, stored server key, profile directory present or not, passive flag) x chunking of the "
        "server byte stream (every single split point of the handshake reply, all 2-cuts for short replies, random k-cuts, "
        "byte by byte) x delivery timing (immediately / after the client is parked) x yield-injection seed x history "
        "(plain, cut off before the server answers then retry, cut off inside the server reply then retry, reconnect after "
        "transport, corrupted server reply) x stanza traffic both ways, incl. server frames glued to the handshake reply. "
        "Non-trivial = server bytes cut into >= 2 chunks or >= 1 reconnect or >= 1 injected yield; distinct by case description")
ASSUMPTIONS = ["the responder double (dissononce HandshakeState, initiator=False) is our implementation of the server side",
               "consonance's random.randint(float, float) is shimmed for CPython 3.12 (third-party incompatibility)",
               "thread interleavings are sampled (yield injection at statement starts + repetition), never exhausted",
               "a hang is decided by a stable blocked state (all handshake workers parked in an untimed wait with every stimulus delivered); a plain timeout is inconclusive"]
REQUIRED = ["unencodable_stanzas_sent", "logins_started_by_auth_layer", "real_big_cases", "real_big_ok", "real_big:socket", "real_big:asyncore", "handshakes", "variant:XX", "variant:IK", "variant:XXfallback", "transport_reached", "frames_c2s", "frames_s2c",
            "history:retry-after-cutoff", "history:corrupt-reply", "failure_reported", "key_persisted", "yields_injected",
            "glued_frames_cases", "completion_race_ok", "completion_race_released_mid_delivery", "completion_race_sweeps"]
TIMEOUT = {"quick": 300, "thorough": 3600}

YIELD_FILES = ("yowsup/layers/noise/layer.py", "yowsup/layers/noise/workers/handshake.py", "yowsup/layers/noise/layer_noise_segments.py",
               "consonance/streams/segmented/blockingqueue.py", "consonance/protocol.py", "consonance/transport.py", "yowsup/layers/__init__.py",
               "yowsup/layers/coder/layer.py")
HISTORIES = ["plain", "plain", "plain", "retry-after-cutoff", "retry-after-partial-reply", "reconnect-after-transport", "corrupt-reply",
             "retry-after-corrupt", "relogin-after-server-failure"]
_counter = [0]


def stanza(r, tag):
    t = trees.rand_tree(r, maxdepth=2, maxdata=r.choice([40, 400, 70000]))
    return ("iq", {"id": tag}, [t], None)


def expected_payload_diff(T, srv, phone, passive, pushname, cfg):
    from yowsup.env import YowsupEnv
    cp = srv.client_payload
    if cp is None:
        return "no client payload seen"
    envo = YowsupEnv.getCurrent()
    if cp.username != int(phone):
        return "username %r != %r" % (cp.username, int(phone))
    if bool(cp.passive) != bool(passive):
        return "passive %r != %r" % (cp.passive, passive)
    if cp.push_name != (pushname or "yowsup"):
        return "push name %r != %r" % (cp.push_name, pushname)
    ua = cp.user_agent
    ver = "%d.%d.%d.%d" % (ua.app_version.primary, ua.app_version.secondary, ua.app_version.tertiary, ua.app_version.quaternary)
    if ver != envo.getVersion():
        return "app version %s != %s" % (ver, envo.getVersion())
    for got, want, nm in ((ua.mcc, cfg.mcc or "000", "mcc"), (ua.mnc, cfg.mnc or "000", "mnc"), (ua.phone_id, cfg.fdid or "", "phone id"),
                          (ua.os_version, envo.getOSVersion(), "os version"), (ua.manufacturer, envo.getManufacturer(), "manufacturer"),
                          (ua.device, envo.getDeviceName(), "device")):
        if got != want:
            return "%s %r != %r" % (nm, got, want)
    return None


def chunks_for(r, data, style):
    n = len(data)
    if style[0] == "whole":
        return [data]
    if style[0] == "frames":
        # one chunk per frame (what TCP usually does): len3-prefixed frames, the reply first, then each transport frame
        out, i = [], 0
        while i + 3 <= n:
            ln = (data[i] << 16) | (data[i + 1] << 8) | data[i + 2]
            out.append(data[i:i + 3 + ln])
            i += 3 + ln
        if i < n:
            out.append(data[i:])
        return [c for c in out if c]
    if style[0] == "bytes":
        # byte by byte over the handshake reply and the first frame headers; the bulk of long frames in random cuts
        head = [data[i:i + 1] for i in range(min(n, 500))]
        return head + (gen.cut(data[500:], gen.random_cuts(r, n - 500, 9)) if n > 500 else [])
    if style[0] == "split1":
        k = style[1] % max(1, n - 1) + 1
        return gen.cut(data, (k,))
    if style[0] == "split2":
        a, b = sorted((style[1] % max(1, n - 1) + 1, style[2] % max(1, n - 1) + 1))
        return gen.cut(data, (a, b) if a != b else (a,))
    return gen.cut(data, gen.random_cuts(r, n, style[1]))


class Case(object):
    def __init__(self, acc, seed, tag, desc):
        self.acc, self.seed, self.tag, self.d = acc, seed, tag, desc
        self.r = gen.rng(seed, ID, tag)
        self.w = {"tag": tag, "desc": desc}

    def fail(self, key, what):
        self.acc.violation(key, what, self.w)
        return False

    def blocked_or_inconclusive(self, T, what, key):
        """Called when a wait timed out: hang (violation) only when the library threads are parked forever."""
        from vf import probes
        st = probes.thread_states()
        workers = {n: s for n, s in st.items() if any("handshake.py" == f[0] or "blockingqueue.py" == f[0] for f in s)}
        parked = [n for n, s in workers.items() if probes.parked_forever(s)]
        self.w["threads"] = {n: s[:4] for n, s in workers.items()}
        if workers and len(parked) == len(workers):
            return self.fail(key, what + " (stable blocked state: %d handshake thread(s) parked in an untimed wait, all server bytes delivered)" % len(parked))
        self.acc.inconc("%s: wait timed out without a stable blocked state (%s)" % (self.tag, what))
        return False

    def run(self):
        from vf import tstack, noisepeer, refcodec
        from yowsup.config.manager import ConfigManager
        acc, r, d = self.acc, self.r, self.d
        variant, history = d["variant"], d["history"]
        _counter[0] += 1
        name = "c04_%d_%d" % (threading.get_native_id(), _counter[0])
        phone = "49" + gen.s_from(r, gen.DIGITS, 10)
        server_static = noisepeer.gen_static()
        stored = None
        if variant == "IK":
            stored = server_static.public.data
        elif variant == "XXfallback":
            stored = noisepeer.gen_static().public.data
        prof = tstack.make_profile(name, phone=phone, server_static=stored, edge_routing_info=(gen.blob(r, r.randint(1, 30)) if d["edge"] else None),
                                   pushname=d["pushname"], create_dir=d["profile_dir"])
        cfg = prof.config
        # (in a third of the cases the library's authentication layer starts the logins, on the 'connected' announcement)
        T = tstack.Transport(prof, with_auth=bool(d.get("auth_layer")))
        if d.get("auth_layer"):
            acc.count("logins_started_by_auth_layer")
        acc.count("handshakes")
        acc.count("variant:" + variant)
        acc.count("history:" + history)
        yi = inject.YieldInjector(random.Random(d["yseed"]), YIELD_FILES, p=d["yp"]) if d["yp"] > 0 else None
        try:
            if yi:
                yi.__enter__()
            ok = self.body(T, prof, cfg, phone, server_static, variant, history)
        finally:
            T.close()
            if yi:
                yi.__exit__(None, None, None)
                acc.count("yields_injected", yi.yields)
                acc.count("line_events", yi.events)
        nontriv = d["style"][0] != "whole" or history != "plain" or (yi is not None and yi.yields > 0)
        acc.case(["c", d], nontrivial=nontriv)
        if ok:
            acc.count("case_ok")
        return ok

    def attempt(self, T, srv, passive, expect="transport", partial=None):
        """One login attempt: auth event, client hello to the server, server reply back in chunks."""
        d, r = self.d, self.r
        T.attach(srv)
        T.auth(passive=passive)
        if not T.wait(lambda: len(srv.out) > 0 or srv.state == "error", 20):
            return self.blocked_or_inconclusive(T, "client hello never reached the server", "no-client-hello")
        if srv.state == "error":
            return self.fail("server-rejects-hello", "responder cannot parse the client's first bytes: %s" % srv.errors)
        if expect == "cutoff":
            return True
        reply = srv.take_out()
        glued = b""
        self.s2c_expected = []
        if srv.state == "transport" and d["glue"] and not srv.corrupt_reply:
            for i in range(d["glue"]):
                st = stanza(r, "g%d" % i)
                self.s2c_expected.append(st)
                glued += srv.encrypt(refc().encode_canonical(st))
            self.acc.count("glued_frames_cases")
        data = reply + glued
        if partial is not None:
            data = data[:max(1, min(len(data) - 1, partial))]
        chunks = chunks_for(r, data, d["style"])
        self.acc.count("chunks_delivered", len(chunks))
        self.acc.seen("chunkings", "%s/%d" % (d["style"][0], len(chunks)))
        park_waits = True
        for ch in chunks:
            if d["timing"] == "parked" and park_waits:
                # (a worker that has ended never parks again: do not wait 2 s per chunk for it)
                park_waits = T.wait(lambda: self.worker_parked(), 2)
            elif d["timing"] == "jitter":
                time.sleep(r.choice([0, 0, 0.0002, 0.001]))
            T.deliver(ch)
            if d["timing"] == "parked" and not self.sync(T, srv):
                return False
        return self.sync(T, srv)

    def sync(self, T, srv=None):
        """Wait for the harness network thread to finish delivering; judge exceptions and blocked states."""
        res = T.net_sync(20)
        if res == "ok":
            return True
        if res == "raised":
            err = T.net.errors[0]
            del T.net.errors[:]
            if srv is not None and srv.corrupt_reply:
                # bytes arriving after a failed handshake: outside this property (a real server closes)
                self.acc.count("deliver_raised_after_failed_handshake")
                return True
            return self.fail("receive-raises:%s:%s" % (err[0], err[2][-1] if err[2] else "?"), "delivering server bytes raised %s(%s) in the network thread" % (err[0], err[1]))
        if res == "blocked":
            self.w["net_stack"] = [list(f[:3]) for f in (T.net_stack or [])]
            where = T.net_stack[0][1] if T.net_stack else "?"
            return self.fail("net-thread-blocked:%s" % where, "the network thread is blocked forever in %s while delivering server bytes" % where)
        self.acc.inconc("%s: network thread still busy after 20 s without being parked: %s" % (self.tag, [list(f[:3]) for f in (T.net_stack or [])]))
        return False

    def workers_idle(self):
        """No handshake worker is runnable: each one has exited or is parked in an untimed wait."""
        from vf import probes
        st = probes.thread_states()
        ws = [s for n, s in st.items() if any(f[0] in ("handshake.py",) for f in s)]
        return all(probes.parked_forever(s) for s in ws)

    def worker_parked(self):
        from vf import probes
        st = probes.thread_states()
        ws = [s for n, s in st.items() if any(f[0] in ("handshake.py",) for f in s)]
        return bool(ws) and all(probes.parked_forever(s) for s in ws)

    def body(self, T, prof, cfg, phone, server_static, variant, history):
        from vf import noisepeer, refcodec
        from yowsup.config.manager import ConfigManager
        from yowsup.layers.noise.layer import YowNoiseLayer
        d, r, acc = self.d, self.r, self.acc
        passive = d["passive"]
        self.s2c_expected = []
        if history in ("retry-after-cutoff", "retry-after-partial-reply"):
            srv0 = noisepeer.NoiseServer(static=server_static)
            if not self.attempt(T, srv0, passive, expect="cutoff" if history == "retry-after-cutoff" else "transport",
                                partial=r.randint(1, 60) if history == "retry-after-partial-reply" else None):
                return False
            if d["timing"] == "parked":
                T.wait(lambda: self.worker_parked(), 2)
            T.disconnected()
            acc.count("reconnects")
        if history in ("corrupt-reply", "retry-after-corrupt"):
            srvc = noisepeer.NoiseServer(static=server_static, corrupt_reply=True)
            n_up = len(T.top.received)
            if not self.attempt(T, srvc, passive):
                return False
            if not T.wait(lambda: len(T.top.received) > n_up, 20):
                return self.blocked_or_inconclusive(T, "a server reply that fails authentication was not reported upward", "hang-on-bad-reply")
            node = T.top.received[-1]
            if getattr(node, "tag", None) != "failure":
                return self.fail("bad-reply-not-failure", "top layer got %r instead of a failure stanza" % (getattr(node, "tag", node),))
            if YowNoiseLayer.EVENT_HANDSHAKE_FAILED not in T.top.event_names():
                return self.fail("bad-reply-no-event", "no handshake-failed event reached the top")
            if srvc.state == "transport" and variant != "IK":
                return self.fail("bad-reply-completed", "client finished a handshake whose server reply was corrupted")
            acc.count("failure_reported")
            if history == "corrupt-reply":
                return True
            T.disconnected()
            acc.count("reconnects")
        srv = noisepeer.NoiseServer(static=server_static)
        n_fail_before = len([n for n in T.top.received if getattr(n, "tag", None) == "failure"])
        if not self.attempt(T, srv, passive):
            return False
        if not T.wait(lambda: srv.state in ("transport", "error"), 20):
            fails = len([n for n in T.top.received if getattr(n, "tag", None) == "failure"])
            if fails > n_fail_before:
                return self.fail("login-failed:%s" % history, "a well-formed server reply ended in a login failure at the top (history %s)" % history)
            return self.blocked_or_inconclusive(T, "server never reached transport (history %s)" % history, "handshake-hangs:%s" % history)
        if srv.state == "error":
            return self.fail("server-error:%s" % history, "responder rejected the client's handshake bytes: %s" % srv.errors)
        if srv.variant != variant:
            return self.fail("wrong-variant", "expected %s, client performed %s" % (variant, srv.variant))
        acc.count("transport_reached")
        pd = expected_payload_diff(T, srv, phone, passive, d["pushname"], cfg)
        if pd:
            return self.fail("client-payload:%s" % pd.split(" ")[0], "client presented a wrong payload: %s" % pd)
        if d["edge"] and srv.routing_info != cfg.edge_routing_info:
            return self.fail("routing-info", "edge routing info not presented")
        if not d["edge"] and srv.routing_info is not None:
            return self.fail("routing-info-spurious", "routing info presented although none configured")
        # frames right at completion (XX variants: the server can only now encrypt)
        if not self.s2c_expected and d["glue"]:
            data = b""
            for i in range(d["glue"]):
                st = stanza(r, "g%d" % i)
                self.s2c_expected.append(st)
                data += srv.encrypt(refcodec.encode_canonical(st))
            acc.count("glued_frames_cases")
            for ch in chunks_for(r, data, d["style"] if d["style"][0] != "split1" else ("random", 3)):
                T.deliver(ch)
            if not self.sync(T, srv):
                return False
        if not T.wait(lambda: T.noise._wa_noiseprotocol.state in ("transport", "error"), 20):
            return self.blocked_or_inconclusive(T, "client never reached transport", "client-handshake-hangs")
        fails = len([n for n in T.top.received if getattr(n, "tag", None) == "failure"])
        if fails > n_fail_before:
            return self.fail("login-failed:%s" % history, "handshake completed on the server but the client reported a failure (history %s)" % history)
        if self.s2c_expected:
            # the frames sent around completion must be up before anything else is sent: once the network thread is idle and
            # the handshake worker has ended or is parked, no thread is left that could still deliver them
            def n_up():
                return len([n for n in T.top.received if getattr(n, "tag", None) == "iq"])
            if not T.wait(lambda: n_up() >= len(self.s2c_expected), 3):
                quiet = T.wait(lambda: self.workers_idle(), 10) and self.sync(T, srv)
                time.sleep(0.2)
                if quiet and self.workers_idle() and n_up() < len(self.s2c_expected):
                    self.w["stranded_in_queue"] = T.noise._incoming_segments_queue.qsize() if hasattr(T.noise, "_incoming_segments_queue") else None
                    return self.fail("s2c-stranded-at-completion", "server frames that arrived while the handshake completed stay undelivered with every thread idle "
                                     "(%d of %d arrived; they would only move when the server sends something else)" % (n_up(), len(self.s2c_expected)))
            acc.count("completion_frames_checked_before_traffic")
        # traffic both ways
        c2s = []
        for i in range(d["traffic"]):
            if r.random() < 0.5:
                st = stanza(r, "c%d" % i)
                if r.random() < 0.15:
                    # a stanza the wire format cannot carry (a character beyond Latin-1 in an attribute): either it is refused
                    # (the sender gets an error, nothing goes out, the stream stays in step) or it arrives as it was sent
                    st = (st[0], dict(st[1], name=r.choice(["\u0141ukasz", "\u4e2d\u6587", "a\U0001f600b"])), st[2], st[3])
                    acc.count("unencodable_stanzas_sent")
                    try:
                        T.top.send(treeeq.to_node(st))
                        c2s.append(st)
                        acc.count("unencodable_stanza_went_out")
                    except Exception:  # noqa
                        acc.count("unencodable_stanza_refused")
                    continue
                c2s.append(st)
                try:
                    T.top.send(treeeq.to_node(st))
                except Exception as e:  # noqa
                    return self.fail("send-raises:%s" % type(e).__name__, "sending after the handshake raised %r" % (e,))
            else:
                st = stanza(r, "s%d" % i)
                self.s2c_expected.append(st)
                data = srv.encrypt(refcodec.encode_canonical(st))
                for ch in gen.cut(data, gen.random_cuts(r, len(data), r.choice([0, 0, 1, 3]))):
                    T.deliver(ch)
                if r.random() < 0.5 and not self.sync(T, srv):
                    return False
        if not self.sync(T, srv):
            return False
        want_up = len(self.s2c_expected)
        if not T.wait(lambda: len([n for n in T.top.received if getattr(n, "tag", None) == "iq"]) >= want_up, 20):
            got = len([n for n in T.top.received if getattr(n, "tag", None) == "iq"])
            if got < want_up and self.d["glue"] and got < self.d["glue"]:
                return self.fail("s2c-lost-at-completion", "server frames sent at the moment the handshake completed were not delivered (%d of %d arrived)" % (got, want_up))
            return self.fail("s2c-lost", "server frames not delivered upward (%d of %d arrived)" % (got, want_up))
        ups = [n for n in T.top.received if getattr(n, "tag", None) == "iq"]
        for i, (a, b) in enumerate(zip(self.s2c_expected, ups)):
            df = treeeq.diff(a, b)
            if df:
                return self.fail("s2c-differs", "server->client stanza %d differs or is out of order: %s" % (i, df))
        if len(ups) != want_up:
            return self.fail("s2c-extra", "%d stanzas arrived for %d sent" % (len(ups), want_up))
        acc.count("frames_s2c", want_up)
        if srv.state == "error":
            return self.fail("c2s-undecryptable", "client frames cannot be decrypted in order: %s" % srv.errors)
        try:
            got = [refcodec.decode(p) for p in srv.received]
        except refcodec.FormatError as e:
            return self.fail("c2s-invalid-frame", "client frame invalid: %s" % e)
        if len(got) != len(c2s):
            return self.fail("c2s-count", "%d client stanzas arrived for %d sent" % (len(got), len(c2s)))
        for i, (a, b) in enumerate(zip(c2s, got)):
            df = treeeq.diff(a, b)
            if df:
                return self.fail("c2s-differs", "client->server stanza %d differs: %s" % (i, df))
        acc.count("frames_c2s", len(c2s))
        # the handshake thread persists the key after the state change became visible: wait until it is done
        if not T.wait(lambda: self.workers_idle(), 20):
            return self.blocked_or_inconclusive(T, "handshake thread still running long after transport", "worker-never-finishes")
        # persisted server key
        if variant in ("XX", "XXfallback"):
            try:
                stored = ConfigManager().load(prof._profile_name)
            except Exception as e:  # noqa
                return self.fail("key-load-raises", "profile config cannot be loaded after login: %r" % (e,))
            if stored is None or stored.server_static_public is None or bytes(stored.server_static_public.data) != bytes(srv.static_public):
                return self.fail("key-not-persisted:%s" % ("nodir" if not d["profile_dir"] else "dir"), "changed server key is not in the stored profile config")
            if stored.client_static_keypair is None or bytes(stored.client_static_keypair.private.data) != bytes(cfg.client_static_keypair.private.data):
                return self.fail("keypair-lost-on-rewrite", "client key pair changed when the config was rewritten")
            acc.count("key_persisted")
        if history == "relogin-after-server-failure":
            # the server ends the session with <failure/>: the layer above closes the connection from inside the delivery of that
            # frame (as the authentication layer does); the same segment carries the beginning of a further frame that never
            # completes. Then a new login on the same stack.
            closed = []

            def on_receive(node):
                if getattr(node, "tag", None) == "failure" and not closed:
                    closed.append(1)
                    T.disconnected()
            T.top.on_receive = on_receive
            fl = srv.encrypt(refcodec.encode_canonical(("failure", {"reason": "not-authorized"}, [], None)))
            c_ = r.random()
            tail = b"" if c_ < 0.2 else bytes([0]) if c_ < 0.4 else bytes([0, r.randint(0, 255)]) if c_ < 0.6 else bytes([0, 0, 40]) + gen.blob(r, r.randint(0, 39))
            T.deliver(fl + tail)
            ok_ = self.sync(T, srv)
            T.top.on_receive = None
            if not ok_:
                return False
            if not closed:
                return self.fail("server-failure-not-delivered", "a <failure/> stanza sent after the handshake did not reach the top")
            acc.count("server_failure_closes")
        if history in ("reconnect-after-transport", "relogin-after-server-failure"):
            if history == "reconnect-after-transport":
                T.disconnected()
            acc.count("reconnects")
            srv2 = noisepeer.NoiseServer(static=server_static)
            self.s2c_expected = []
            old_glue, d["glue"] = d["glue"], 0
            if not self.attempt(T, srv2, passive):
                return False
            d["glue"] = old_glue
            if not T.wait(lambda: srv2.state in ("transport", "error"), 20):
                return self.blocked_or_inconclusive(T, "second login after a reconnect never completed", "relogin-hangs")
            if srv2.state == "error":
                return self.fail("relogin-server-error", "second login rejected: %s" % srv2.errors)
            if srv2.variant != "IK":
                return self.fail("relogin-not-resumed", "second login did not use the stored server key (variant %s)" % srv2.variant)
            if not T.wait(lambda: T.noise._wa_noiseprotocol.state in ("transport", "error"), 20) or T.noise._wa_noiseprotocol.state != "transport":
                if T.noise._wa_noiseprotocol.state == "error" or self.workers_idle():
                    return self.fail("relogin-client-incomplete:%s" % history, "the server completed the second login but the client did not (client state %s)" % T.noise._wa_noiseprotocol.state)
                return self.blocked_or_inconclusive(T, "client never finished the second login", "relogin-client-hangs")
            st = stanza(r, "again")
            try:
                T.top.send(treeeq.to_node(st))
            except Exception as e:  # noqa
                return self.fail("relogin-send-raises:%s" % type(e).__name__, "sending after the second login raised %r" % (e,))
            if srv2.state == "error" or len(srv2.received) != 1 or treeeq.diff(st, refcodec.decode(srv2.received[0])):
                return self.fail("relogin-traffic", "stanza after re-login did not arrive intact: %s" % srv2.errors)
            acc.count("relogins")
        return True


def refc():
    from vf import refcodec
    return refcodec


# ---------------------------------------------------------------------------------------------
# frames arriving at the very moment the handshake completes: the worker's completion placed at every line boundary of the
# network thread's delivery
def completion_race_once(acc, seed, tag, variant, k, per_frame):
    """One fresh login. The handshake worker is held inside its last write (client finish; a socket write may block), so the
    server can already encrypt while the client is still in the handshake. The network thread then delivers transport
    frames; at its k-th line event inside the noise layer the worker is released and runs to completion before the network
    thread continues (k=None: count the line events only, release afterwards). Returns (ok, line events seen)."""
    import sys
    from vf import tstack, noisepeer, refcodec
    r = gen.rng(seed, ID, tag)
    _counter[0] += 1
    name = "c04r_%d_%d" % (threading.get_native_id(), _counter[0])
    server_static = noisepeer.gen_static()
    stored = noisepeer.gen_static().public.data if variant == "XXfallback" else None
    prof = tstack.make_profile(name, phone="49" + gen.s_from(r, gen.DIGITS, 10), server_static=stored)
    T = tstack.Transport(prof)
    srv = noisepeer.NoiseServer(static=server_static)
    w = {"tag": tag, "variant": variant, "k": k, "per_frame": per_frame, "kind": "completion-race"}
    finish_written, release = threading.Event(), threading.Event()
    worker_ident = [None]

    def after_feed(b):
        if srv.state == "transport" and not finish_written.is_set():
            worker_ident[0] = threading.get_ident()
            finish_written.set()
            release.wait(10)
    T.wire.after_feed = after_feed
    mon = sys.monitoring
    seen = [0]
    fired = [False]
    try:
        T.attach(srv)
        T.auth(passive=False)
        if not T.wait(lambda: len(srv.out) > 0 or srv.state == "error", 20) or srv.state == "error":
            acc.inconc("%s: no client hello" % tag)
            return False, 0
        T.deliver(srv.take_out())
        if not finish_written.wait(20):
            acc.inconc("%s: client finish never written (server state %s)" % (tag, srv.state))
            return False, 0
        expected = []
        frames = []
        for i in range(3):
            st = stanza(r, "g%d" % i)
            expected.append(st)
            frames.append(srv.encrypt(refcodec.encode_canonical(st)))

        def worker_done():
            from vf import probes
            st = probes.thread_states()
            ws = [s_ for n, s_ in st.items() if any(f[0] in ("handshake.py",) for f in s_)]
            return all(probes.parked_forever(s_) for s_ in ws)

        def cb(code, lineno):
            if not code.co_filename.endswith("yowsup/layers/noise/layer.py"):
                return mon.DISABLE
            if threading.current_thread() is not T.net:
                return None
            seen[0] += 1
            if k is not None and seen[0] == k and not fired[0]:
                fired[0] = True
                w["released_at"] = "%s:%d" % (code.co_name, lineno)
                release.set()
                t0 = time.time()
                while time.time() - t0 < 2.0 and not worker_done():
                    time.sleep(0.0005)
        try:
            mon.use_tool_id(inject.TOOL, "vf-race")
        except ValueError:
            mon.free_tool_id(inject.TOOL)
            mon.use_tool_id(inject.TOOL, "vf-race")
        mon.register_callback(inject.TOOL, mon.events.LINE, cb)
        mon.set_events(inject.TOOL, mon.events.LINE)
        mon.restart_events()
        try:
            for ch in (frames if per_frame else [b"".join(frames)]):
                T.deliver(ch)
            res = T.net_sync(20)
        finally:
            mon.set_events(inject.TOOL, 0)
            mon.register_callback(inject.TOOL, mon.events.LINE, None)
            mon.free_tool_id(inject.TOOL)
        release.set()
        if res != "ok":
            if res == "raised":
                err = T.net.errors[0]
                acc.violation("completion-race:receive-raises:%s" % err[0], "delivering a frame while the handshake completes raised %s(%s)" % (err[0], err[1]), w)
            elif res == "blocked":
                acc.violation("completion-race:net-thread-blocked", "the network thread blocks forever delivering a frame while the handshake completes", w)
            else:
                acc.inconc("%s: network thread busy" % tag)
            return False, seen[0]

        def n_up():
            return len([n for n in T.top.received if getattr(n, "tag", None) == "iq"])
        if not T.wait(lambda: n_up() >= 3, 3):
            T.wait(worker_done, 10)
            time.sleep(0.2)
            if worker_done() and T.net.idle() and n_up() < 3:
                acc.violation("completion-race:stranded", "frames delivered while the handshake completed (worker finishing at line event %s of the network thread's "
                              "delivery, %s) stay undelivered with every thread idle: %d of 3 arrived" % (k, w.get("released_at"), n_up()), w)
                return False, seen[0]
            if n_up() < 3:
                acc.inconc("%s: frames not up yet, threads not idle" % tag)
                return False, seen[0]
        ups = [n for n in T.top.received if getattr(n, "tag", None) == "iq"]
        for i, (a, b) in enumerate(zip(expected, ups)):
            df = treeeq.diff(a, b)
            if df:
                acc.violation("completion-race:differs-or-reordered", "frame %d delivered at completion differs or is out of order: %s" % (i, df), w)
                return False, seen[0]
        if len(ups) != 3:
            acc.violation("completion-race:extra", "%d stanzas arrived for 3 sent" % len(ups), w)
            return False, seen[0]
        acc.count("completion_race_ok")
        if fired[0]:
            acc.count("completion_race_released_mid_delivery")
            acc.seen("completion_race_points", w.get("released_at"))
        acc.case(["race", variant, k, per_frame], nontrivial=fired[0])
        return True, seen[0]
    finally:
        release.set()
        T.wire.after_feed = None
        T.close()


def completion_race_sweep(acc, seed, tag, variant, per_frame, stride=1):
    ok, n = completion_race_once(acc, seed, tag + "/count", variant, None, per_frame)
    if not ok:
        return
    acc.maxi("completion_race_line_events", n)
    for k in range(1, n + 1, stride):
        completion_race_once(acc, seed, "%s/k%d" % (tag, k), variant, k, per_frame)
    acc.count("completion_race_sweeps")


def make_desc(r, variant=None, history=None, style=None):
    variant = variant or r.choice(["XX", "IK", "XXfallback"])
    history = history or r.choice(HISTORIES)
    if style is None:
        c = r.random()
        style = ["whole"] if c < 0.08 else ["frames"] if c < 0.25 else ["bytes"] if c < 0.32 else ["split1", r.randrange(1000)] if c < 0.5 else ["split2", r.randrange(1000), r.randrange(1000)] if c < 0.7 else ["random", r.choice([2, 3, 5, 9])]
    return {"variant": variant, "history": history, "style": style, "edge": r.random() < 0.5, "passive": r.random() < 0.3,
            "pushname": r.choice([None, "Verif", "Jörg 😀", ""]) , "profile_dir": r.random() < 0.6,
            "timing": r.choice(["immediate", "jitter", "parked"]), "yseed": r.randrange(1 << 30), "yp": r.choice([0, 0.02, 0.1, 0.3]),
            "glue": r.choice([0, 1, 3]), "traffic": r.choice([0, 4, 12]), "auth_layer": (r.random() < 0.34)}


def shards(tier, seed, nworkers):
    q = tier == "quick"
    nsh = 6 if q else nworkers
    specs = []
    for i in range(nsh):
        specs.append({"kind": "splits", "part": [i, nsh], "step": 7 if q else 1})
        specs.append({"kind": "random", "shard": i, "n": (270 if q else 40000) // nsh})
    for i, (variant, per_frame) in enumerate([("XX", False), ("XX", True), ("XXfallback", False), ("XXfallback", True)]):
        specs.append({"kind": "race", "variant": variant, "per_frame": per_frame, "sweeps": 1 if q else 12})
    for dname in ("socket", "asyncore"):
        specs.append({"kind": "real-big", "dispatcher": dname, "n": 1 if q else 8})
    return specs


def run(spec, acc):
    from vf import env
    env.shim_thirdparty()
    seed = spec["seed"]
    if spec["kind"] == "splits":
        # every single split point of the handshake reply, per variant (reply lengths differ: bound 400 covers all)
        k = 0
        for variant in ("XX", "IK", "XXfallback"):
            for pos in range(0, 360, spec["step"]):
                k += 1
                if k % spec["part"][1] != spec["part"][0]:
                    continue
                tag = "split/%s/%d" % (variant, pos)
                r = gen.rng(seed, ID, tag)
                d = make_desc(r, variant=variant, history="plain", style=["split1", pos])
                d.update(glue=2, traffic=2, yp=r.choice([0, 0.05]))
                Case(acc, seed, tag, d).run()
        acc.sample({"splits": "handshake reply of each variant cut at split point p, p stepping by %d" % spec["step"]})
        return
    if spec["kind"] == "real-big":
        # over the library's real dispatchers (the choice is a stack option): login over loopback TCP, then a stanza larger than
        # the socket buffers next to small ones while the peer is slow to read; everything must arrive whole and in order
        from vf.props import c11
        for j in range(spec["n"]):
            c11.real_big_stanza_case(acc, seed, "big/%s/%d" % (spec["dispatcher"], j), spec["dispatcher"], prop=ID)
        acc.sample({"real_big_stanza": "handshake over loopback with the %s dispatcher, then a 6-12 MB stanza while the peer does not read for a moment" % spec["dispatcher"]})
        return
    if spec["kind"] == "race":
        for j in range(spec["sweeps"]):
            completion_race_sweep(acc, seed, "race/%s/%s/%d" % (spec["variant"], spec["per_frame"], j), spec["variant"], spec["per_frame"])
        acc.sample({"completion_race": "worker completion placed at every line event of the network thread's delivery", "variant": spec["variant"], "per_frame": spec["per_frame"]})
        return
    for i in range(spec["n"]):
        tag = "rand/%d/%d" % (spec["shard"], i)
        r = gen.rng(seed, ID, tag)
        d = make_desc(r)
        Case(acc, seed, tag, d).run()
        if i < 2:
            acc.sample(d)


def replay(spec, acc):
    from vf import env
    env.shim_thirdparty()
    w = spec["witness"]
    if w.get("kind") == "big-stanza":
        from vf.props import c11
        return c11.real_big_stanza_case(acc, spec["seed"], w["tag"], w["dispatcher"], prop=ID)
    if "desc" not in w:
        acc.inconc("this witness kind has no single-case replay: run the check with the same seed")
        return
    for _ in range(5):
        Case(acc, spec["seed"], w["tag"], w["desc"]).run()
