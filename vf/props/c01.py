"""C01 — stanza codec round trip (library encoder -> library decoder, also through two coder layers)."""
import traceback

from vf import gen, treeeq, trees

ID = "C01"
LEVEL = "exploration"
RULE = ("one evaluation = one well-formed tree encoded by WriteEncoder and decoded by ReadDecoder (and, for every tree "
        "below 300 KB, sent through one YowCoderLayer and received by a second one), compared with a strict recursive "
        "comparator; systematic sweep (every dictionary word x 3 positions, packed strings of every length 1..255, '@' "
        "positions, content sizes around 2^8/2^16/2^20 alone/with sibling/nested, list sizes around 128/256) + random trees; "
        "non-trivial = has attribute/child/content and uses a non-token string or a size/list boundary class; distinct by tree hash")
ASSUMPTIONS = ["inputs are well-formed per the quantifier (non-empty Latin-1 strings not ending in '@', reserved words excluded)",
               "ProtocolTreeNode.__eq__ is not used as oracle; it is only required to answer True for trees found equal"]
REQUIRED = ["bad_frames_between_stanzas", "bad_frames_refused", "sibling_trees", "stream_end_frames", "trees_scribbled", "roundtrips", "layer_roundtrips", "feature:bin31", "feature:bin20", "feature:list16", "feature:hdr16",
            "feature:s:token2", "feature:s:jid", "feature:s:nibble<128", "feature:s:hex<128"]
TIMEOUT = {"quick": 900, "thorough": 7200}


def where(tb):
    """Innermost frame inside the repository's coder package (function name), for the mechanism key."""
    fn = "?"
    for fs in traceback.extract_tb(tb):
        if "/yowsup/" in fs.filename:
            fn = fs.name
    return fn


def keyfeat(tree):
    f = trees.features(tree)
    for k in ("bin31", "list16", "hdr16", "bin20"):
        if k in f:
            return k
    return "small"


_layers = None


_scribble_counter = [0]


def coder_pair():
    """Two real YowCoderLayers back to back: top.send -> coder A -> wire -> coder B -> sink."""
    global _layers
    if _layers is None:
        from vf.probes import Probe
        from yowsup.stacks import YowStack
        from yowsup.layers.coder import YowCoderLayer
        wire = Probe("wire", forward_down=False)
        sa = YowStack((wire, YowCoderLayer), reversed=False)
        sink = Probe("sink")
        sb = YowStack((Probe("feed"), YowCoderLayer, sink), reversed=False)
        _layers = (sa, wire, sb, sink)
    return _layers


def sibling_of(tree, n):
    """A tree that equals `tree` in tag, attributes, data, number of children and first child, and differs further down: in a later
    child, or inside the last child's subtree (another attribute value, another payload)."""
    tag, attrs, kids, data = tree
    if not kids:
        return None
    kids = list(kids)
    i = len(kids) - 1
    if i == 0:
        # only one child: change something below it (its first grandchild stays as it is where there are several)
        sub = sibling_of(kids[0], n)
        if sub is None:
            return None
        kids[0] = sub
        return (tag, attrs, kids, data)
    ktag, kattrs, kkids, kdata = kids[i]
    if n % 2 == 0:
        kattrs = dict(kattrs, **{"sib": "v%d" % (n % 7)})
    elif kdata is not None:
        kdata = bytes(kdata) + b"~" if isinstance(kdata, (bytes, bytearray)) else kdata + "~"
    elif not kkids:
        kdata = b"sib"
    else:
        kattrs = dict(kattrs, **{"sib": "w"})
    kids[i] = (ktag, kattrs, kkids, kdata)
    return (tag, attrs, kids, data)


def check_tree(acc, cid, tree, enc, dec, via_layer=True, _sibling=False):
    if not _sibling and _scribble_counter[0] % 5 == 0:
        # right after this tree, on the same encoder / decoder / layers: a sibling that differs only further down
        sib = sibling_of(tree, _scribble_counter[0])
        if sib is not None and len(repr(tree)) < 20000:
            _check_tree(acc, cid, tree, enc, dec, via_layer)
            acc.count("sibling_trees")
            return _check_tree(acc, cid + "/sibling", sib, enc, dec, via_layer)
    return _check_tree(acc, cid, tree, enc, dec, via_layer)


def _check_tree(acc, cid, tree, enc, dec, via_layer=True):
    node = treeeq.to_node(tree)
    feats = trees.features(tree)
    for f in feats:
        acc.count("feature:" + f)
    acc.case(["t", repr(tree) if len(repr(tree)) < 4000 else [cid, gen.__name__]], nontrivial=trees.nontrivial(tree))
    w = {"case": cid, "tree": treeeq.describe(tree), "features": sorted(feats)}
    acc.count("roundtrips")
    try:
        out = enc.protocolTreeNodeToBytes(node)
    except Exception as e:  # noqa
        acc.violation("encode-raises:%s:%s:%s" % (type(e).__name__, where(e.__traceback__), keyfeat(tree)), "encoder raised %r" % (e,), w)
        return
    nbytes = len(out)
    acc.maxi("frame_bytes", nbytes)
    for b in set(out) & {236, 237, 238, 239, 248, 249, 250, 251, 252, 253, 254, 255}:
        acc.count("frames_with_byte:%d" % b)
    try:
        back = dec.getProtocolTreeNode(list(out) if nbytes < 5000 else bytearray(out))
    except Exception as e:  # noqa
        acc.violation("decode-raises:%s:%s:%s" % (type(e).__name__, where(e.__traceback__), keyfeat(tree)),
                      "decoder raised %r on the encoder's own output (%d bytes)" % (e, nbytes), w)
        return
    if back is None:
        acc.violation("decode-none:%s" % keyfeat(tree), "decoder returned None", w)
        return
    d = treeeq.diff(tree, back)
    if d:
        acc.violation("roundtrip-differs:%s:%s" % (d.split(":")[1].strip().split(" ")[0], keyfeat(tree)), "decode(encode(t)) != t: %s" % d, w)
        return
    if not (back == node):
        acc.violation("eq-false-negative", "ProtocolTreeNode.__eq__ says False for trees the strict comparator finds equal", w)
    acc.count("roundtrip_ok")
    if via_layer and nbytes < 300000:
        sa, wire, sb, sink = coder_pair()
        wire.clear()
        sink.clear()
        acc.count("layer_roundtrips")
        try:
            sa.send(node)
            if len(wire.sent) != 1:
                acc.violation("layer-frames:%d" % len(wire.sent), "coder layer emitted %d frames for one stanza" % len(wire.sent), w)
                return
            sb.receive(bytes(wire.sent[0]))
        except Exception as e:  # noqa
            acc.violation("layer-raises:%s:%s:%s" % (type(e).__name__, where(e.__traceback__), keyfeat(tree)), "coder layers raised %r" % (e,), w)
            return
        if len(sink.received) != 1:
            acc.violation("layer-delivered:%d" % len(sink.received), "receiving coder layer delivered %d stanzas" % len(sink.received), w)
            return
        d = treeeq.diff(tree, sink.received[0])
        if d:
            acc.violation("layer-roundtrip-differs:%s" % keyfeat(tree), "through two coder layers: %s" % d, w)
        else:
            acc.count("layer_roundtrip_ok")
    # Trees are independent of each other: what an application (or a layer) does to one decoded tree - annotate it with an
    # attribute, hang a child on it, replace its content - must not show in any tree decoded or built later. Every later case
    # is compared with plain data, so anything shared between node objects surfaces there.
    _scribble_counter[0] += 1
    if _scribble_counter[0] % 11 == 0:
        # between two stanzas the peer may close the stream (the stream-end frame: a list of one token, 2), e.g. before a
        # reconnect over which the same decoder / coder layer lives on: whatever is decoded afterwards is judged as before
        try:
            end = dec.getProtocolTreeNode([0, 248, 1, 2])
            if end is not None:
                acc.violation("stream-end-decodes-to-node", "the stream-end frame decoded to %r" % (end,), w)
            sa, wire, sb, sink = coder_pair()
            sink.clear()
            sb.receive(bytes([0, 248, 1, 2]))
            if sink.received:
                acc.violation("stream-end-delivered", "the receiving coder layer delivered %d stanzas for a stream-end frame" % len(sink.received), w)
            acc.count("stream_end_frames")
        except Exception as e:  # noqa
            acc.violation("stream-end-raises:%s" % type(e).__name__, "a stream-end frame between stanzas raised %r" % (e,), w)
    if _scribble_counter[0] % 3 == 0:
        # between two stanzas the long-lived decoder / receiving coder layer is handed a frame it must refuse (a peer or a damaged
        # stream can produce one): this stanza's own bytes flagged as a segment, cut short, with an undefined token, or garbage
        # under the deflate flag. Whether and how it refuses is not judged here (C02/C12 do); what is judged is every LATER case on
        # the same objects, which must round-trip as if the refused frame had never been seen.
        k = (_scribble_counter[0] // 3) % 5
        body = bytes(out[1:])
        bad = [bytes([1]) + body, bytes([0]) + body[:max(1, len(body) // 2)], bytes([0, 248, 2, 234, 5]), bytes([2]) + body[:40],
               bytes([3]) + body[:7]][k]
        if len(bad) < 100000:
            for how in ("decoder", "layer"):
                try:
                    if how == "decoder":
                        dec.getProtocolTreeNode(list(bad))
                    else:
                        coder_pair()[2].receive(bad)
                    acc.count("bad_frames_accepted")
                except Exception:  # noqa
                    acc.count("bad_frames_refused")
            acc.count("bad_frame_kind:%d" % k)
            acc.count("bad_frames_between_stanzas")
    if _scribble_counter[0] % 13 == 0:
        # a string the wire format cannot carry (beyond Latin-1): the encoder refuses it, or what is decoded equals what was given;
        # never something else
        bad_tree = (tree[0], dict(tree[1], **{"verif-u": "\u0141\u4e2d" + str(_scribble_counter[0] % 10)}), tree[2] if tree[3] is None else [], None if tree[3] is None else None)
        try:
            ob = enc.protocolTreeNodeToBytes(treeeq.to_node(bad_tree))
            bytearray(ob)        # (what the coder layer does next: values that are no bytes are refused there)
        except Exception:  # noqa
            acc.count("unencodable_refused")
        else:
            acc.count("unencodable_encoded")
            try:
                bb = dec.getProtocolTreeNode(list(ob))
                d_ = treeeq.diff(bad_tree, bb)
            except Exception as e:  # noqa
                d_ = "decoder raised %r" % (e,)
            if d_:
                acc.violation("unencodable-altered", "a string beyond Latin-1 was neither refused nor carried: %s" % d_, w)
    if _scribble_counter[0] % 7 == 0:
        try:
            from yowsup.structs import ProtocolTreeNode

            def scribble(n, depth=0):
                n["verif-mark"] = "1"
                n.setAttribute("verif-mark2", "2")
                for ch in list(n.getAllChildren())[:3]:
                    if depth < 3:
                        scribble(ch, depth + 1)
                if not n.getAllChildren() and n.getData() is None:
                    n.addChild(ProtocolTreeNode("verif-child"))
            scribble(back)
            scribble(node)
            acc.count("trees_scribbled")
        except Exception as e:  # noqa
            acc.violation("node-mutation-raises:%s" % type(e).__name__, "annotating a decoded tree raised %r" % (e,), w)


def shards(tier, seed, nworkers):
    specs = []
    nsw = 4 if tier == "quick" else nworkers
    for i in range(nsw):
        specs.append({"kind": "sweep", "part": [i, nsw]})
    nrand = 3000 if tier == "quick" else 160000
    nsh = 4 if tier == "quick" else nworkers * 2
    for i in range(nsh):
        specs.append({"kind": "random", "shard": i, "n": nrand // nsh, "maxdata": (1 << 21), "huge": tier == "thorough" and i < 2})
    return specs


def rand_case(seed, shard, i, maxdata):
    r = gen.rng(seed, ID, "rand/%d/%d" % (shard, i))
    md = maxdata if r.random() < 0.03 else (1 << 16 if r.random() < 0.3 else 2000)
    return trees.rand_tree(r, maxdata=md)


def run(spec, acc):
    from yowsup.layers.coder.encoder import WriteEncoder
    from yowsup.layers.coder.decoder import ReadDecoder
    from yowsup.layers.coder.tokendictionary import TokenDictionary
    td = TokenDictionary()
    enc, dec = WriteEncoder(td), ReadDecoder(td)
    seed = spec["seed"]
    if spec["kind"] == "sweep":
        n = 0
        for cid, tree in trees.sweep(part=tuple(spec["part"])):
            check_tree(acc, "sweep/" + cid, tree, enc, dec)
            n += 1
            if n in (1, 500):
                acc.sample({"case": "sweep/" + cid, "tree": treeeq.describe(tree)})
        acc.count("sweep_cases", n)
    elif spec["kind"] == "random":
        for i in range(spec["n"]):
            tree = rand_case(seed, spec["shard"], i, spec["maxdata"])
            check_tree(acc, "rand/%d/%d" % (spec["shard"], i), tree, enc, dec)
            if i < 2:
                acc.sample({"case": "rand/%d/%d" % (spec["shard"], i), "tree": treeeq.describe(tree)})
        if spec.get("huge"):
            n = (1 << 24) - 64 - spec["shard"]
            tree = ("message", {"id": "HUGE"}, [("enc", {"v": "2"}, [], trees.big(n)), ("after", {"k": "v"}, [], None)], None)
            check_tree(acc, "huge/%d" % n, tree, enc, dec, via_layer=False)
            acc.count("huge_cases")


def replay(spec, acc):
    from yowsup.layers.coder.encoder import WriteEncoder
    from yowsup.layers.coder.decoder import ReadDecoder
    from yowsup.layers.coder.tokendictionary import TokenDictionary
    td = TokenDictionary()
    enc, dec = WriteEncoder(td), ReadDecoder(td)
    cid = spec["witness"]["case"]
    # in the run the case may have followed a refused frame on the same objects (every third case ends with one): replay that
    # part of the history too, once per kind, so that a violation which needs it reproduces
    body = bytes(enc.protocolTreeNodeToBytes(treeeq.to_node(("iq", {"id": "replay-prelude", "type": "get"}, [("ping", {}, [], None)], None))))[1:]
    for bad in (bytes([0]) + body[:len(body) // 2], bytes([0, 248, 2, 234, 5]), bytes([2]) + body, bytes([3]) + body[:7], bytes([1]) + body):
        for target in (lambda b: dec.getProtocolTreeNode(list(b)), lambda b: coder_pair()[2].receive(b)):
            try:
                target(bad)
            except Exception:  # noqa
                pass
    sib = cid.endswith("/sibling")
    if sib:
        cid = cid[:-len("/sibling")]
        orig_check = globals()["check_tree"]

        def with_siblings(acc_, cid_, tree_, enc_, dec_, via_layer=True):
            _check_tree(acc_, cid_, tree_, enc_, dec_, via_layer)
            for n in (0, 1):
                s_ = sibling_of(tree_, n)
                if s_ is not None:
                    _check_tree(acc_, cid_ + "/sibling", s_, enc_, dec_, via_layer)
        globals()["check_tree"] = with_siblings
    if cid.startswith("sweep/"):
        for c, tree in trees.sweep():
            if "sweep/" + c == cid:
                check_tree(acc, cid, tree, enc, dec)
    elif cid.startswith("rand/"):
        _, sh, i = cid.split("/")
        if int(i) > 0:      # the case before it on the same objects (it may end with a refused frame that this case then trips over)
            check_tree(acc, "rand/%s/%d" % (sh, int(i) - 1), rand_case(spec["seed"], int(sh), int(i) - 1, 1 << 21), enc, dec)
        check_tree(acc, cid, rand_case(spec["seed"], int(sh), int(i), 1 << 21), enc, dec)
    elif cid.startswith("huge/"):
        n = int(cid.split("/")[1])
        tree = ("message", {"id": "HUGE"}, [("enc", {"v": "2"}, [], trees.big(n)), ("after", {"k": "v"}, [], None)], None)
        check_tree(acc, cid, tree, enc, dec, via_layer=False)
