"""C05 — frame segmentation: any chunking of the byte stream yields the original frames."""
import itertools
import struct

from vf import gen

ID = "C05"
LEVEL = "exploration"
RULE = ("one evaluation = one (frame list, partition of the concatenated stream) delivered chunk by chunk to a fresh "
        "YowNoiseSegmentsLayer between two probes, or one outgoing payload; exhaustive families enumerate every one of "
        "the 2^(L-1) partitions of a stream of L bytes; non-trivial = at least one chunk boundary strictly inside a "
        "frame (header or payload) / for outgoing: size class boundary; distinct by (frame sizes, content mode, cuts)")
ASSUMPTIONS = ["frames are non-empty (the quantifier excludes empty frames)",
               "the layer is driven single-threaded, as the network thread does"]
REQUIRED = ["toggle_other_stack_ops", "toggle_histories_without_props_argument", "toggle_histories", "toggle_ok", "toggle_switches", "recv_cases", "send_cases", "cuts_inside_header", "cuts_inside_payload", "oversize_refused", "reconnect_cases", "reconnect_ok", "reconnect_cut:header", "reconnect_cut:payload", "reconnect_closed_inside_delivery", "real_midframe_cases", "real_midframe_ok", "real_stream_cases", "real_stream_ok", "real_stream:socket", "real_stream:asyncore"]
EXHAUSTIVE = None


def _mk(explicit_props=True):
    from vf.probes import Probe
    from yowsup.stacks import YowStack
    from yowsup.layers.noise.layer_noise_segments import YowNoiseSegmentsLayer as S
    b, t = Probe("bottom"), Probe("top")
    if explicit_props:
        st = YowStack((b, S, t), reversed=False, props={S.PROP_ENABLED: True})
    else:
        # (assembled without a props argument, options set afterwards: what getDefaultStack() and the demos do)
        st = YowStack((b, S, t), reversed=False)
        st.setProp(S.PROP_ENABLED, True)
    return st, b, t, S


def content(mode, sizes):
    """Frame payloads. mode 0: running counter bytes; mode 1: bytes that look like headers."""
    frames = []
    c = 1
    for n in sizes:
        if mode == 0:
            frames.append(bytes(((c + i) % 251) + 1 for i in range(n)))
            c += n
        else:
            frames.append(bytes([0, 0, 1, 0, 0, 2][i % 6] for i in range(n)))
    return frames


def stream_of(frames):
    return b"".join(struct.pack(">I", len(f))[1:] + f for f in frames)


def boundaries(frames):
    """(frame boundary positions, header-interior positions) inside the stream."""
    pos = 0
    fb, hdr = set(), set()
    for f in frames:
        hdr.update((pos + 1, pos + 2))
        pos += 3 + len(f)
        fb.add(pos)
    return fb, hdr


def judge_recv(acc, sizes, mode, cuts, frames=None, desc=None):
    frames = frames if frames is not None else content(mode, sizes)
    stream = stream_of(frames)
    st, b, t, S = _mk()
    try:
        for ch in gen.cut(stream, cuts):
            b.receive(ch)
    except Exception as e:  # noqa
        acc.violation("recv:exception:%s" % type(e).__name__, "segments layer raised %r while receiving" % (e,),
                      {"dir": "recv", "sizes": list(sizes), "mode": mode, "cuts": list(cuts)})
        return
    got = [bytes(x) for x in t.received]
    fb, hdr = boundaries(frames)
    inside_h = sum(1 for c in cuts if c in hdr)
    inside_p = sum(1 for c in cuts if c not in hdr and c not in fb)
    acc.count("recv_cases")
    acc.count("cuts_inside_header", inside_h)
    acc.count("cuts_inside_payload", inside_p)
    acc.count("frames_delivered", len(got))
    acc.maxi("stream_bytes", len(stream))
    if desc == "enum":
        acc.case_enum(nontrivial=(inside_h + inside_p) > 0)
    else:
        acc.case(desc or ["r", list(sizes), mode, list(cuts)], nontrivial=(inside_h + inside_p) > 0)
    if got != frames:
        if len(got) != len(frames):
            key = "recv:frame-count"
        elif [len(g) for g in got] != [len(f) for f in frames]:
            key = "recv:frame-size"
        else:
            key = "recv:frame-content"
        acc.violation(key, "frames handed upward differ from the frames sent (%d vs %d frames)" % (len(got), len(frames)),
                      {"dir": "recv", "sizes": list(sizes), "mode": mode, "cuts": list(cuts),
                       "got_sizes": [len(g) for g in got][:50]})
    if b.sent:
        acc.violation("recv:wrote-down", "receive path wrote data downward", {"dir": "recv", "sizes": list(sizes)})


def judge_send(acc, size, enabled, r=None):
    st, b, t, S = _mk()
    st.setProp(S.PROP_ENABLED, enabled)
    payload = (r.getrandbits(8 * min(size, 4096)).to_bytes(min(size, 4096), "big") * (size // 4096 + 1))[:size] if r else bytes(size)
    acc.count("send_cases")
    acc.case(["s", size, enabled], nontrivial=True)
    try:
        t.send(payload)
        raised = None
    except Exception as e:  # noqa
        raised = e
    out = b"".join(bytes(x) for x in b.sent)
    if size >= 1 << 24:
        if enabled:
            if raised is None:
                acc.violation("send:oversize-not-refused", "payload of %d bytes was not refused" % size,
                              {"dir": "send", "size": size, "enabled": enabled})
            elif out:
                acc.violation("send:oversize-partial-write", "refused payload still wrote %d bytes" % len(out),
                              {"dir": "send", "size": size, "enabled": enabled})
            else:
                acc.count("oversize_refused")
        return
    if raised is not None:
        acc.violation("send:exception:%s" % type(raised).__name__, "send of %d bytes raised %r" % (size, raised),
                      {"dir": "send", "size": size, "enabled": enabled})
        return
    want = (struct.pack(">I", size)[1:] if enabled else b"") + payload
    if out != want:
        acc.violation("send:bytes-differ", "emitted bytes are not len3+payload (size %d, enabled=%s): got %d bytes, header %s"
                      % (size, enabled, len(out), out[:3].hex()), {"dir": "send", "size": size, "enabled": enabled})
    else:
        acc.count("send_ok_enabled" if enabled else "send_ok_passthrough")


def judge_toggle_history(acc, r, case_id):
    """One framing layer through a history in which framing is switched on and off between writes and reads (what the Noise layer
    does around the connection prologue: edge routing header on/off/on, plain 'WA' magic off, handshake on) and connections end:
    a write made while framing is on is len3+payload, one made while it is off is the payload alone; likewise for reads."""
    explicit = r.random() < 0.5
    st, b, t, S = _mk(explicit)
    # a second stack of the same process (another account) goes through its own prologue meanwhile: its framing switch is its own
    st2, b2, t2, _ = _mk(explicit)
    en2 = [True]
    w = {"dir": "toggle-history", "case": case_id, "ops": [], "explicit_props": explicit}
    acc.count("toggle_histories")
    acc.count("toggle_histories_without_props_argument", 0 if explicit else 1)
    acc.case(["tg", case_id], nontrivial=True)
    enabled = r.random() < 0.5
    st.setProp(S.PROP_ENABLED, enabled)
    from yowsup.layers import YowLayerEvent
    from yowsup.layers.network import YowNetworkLayer
    switches = 0
    for i in range(r.randint(4, 14)):
        op = r.choice(["toggle", "toggle", "send", "send", "recv", "disconnected", "other-stack"])
        if op == "other-stack":
            en2[0] = not en2[0]
            st2.setProp(S.PROP_ENABLED, en2[0])
            b2.clear()
            t2.send(b"WA")
            got2 = b"".join(bytes(x) for x in b2.sent)
            if got2 != ((b"\x00\x00\x02" if en2[0] else b"") + b"WA"):
                acc.violation("toggle:other-stack:framing-%s" % ("on" if en2[0] else "off"), "the second stack wrote %r with its framing %s" % (got2, "on" if en2[0] else "off"), w)
                return
            w["ops"].append("other-%s" % ("on" if en2[0] else "off"))
            acc.count("toggle_other_stack_ops")
            continue
        if op == "toggle":
            enabled = not enabled
            st.setProp(S.PROP_ENABLED, enabled)
            switches += 1
            w["ops"].append("on" if enabled else "off")
            continue
        if op == "disconnected":
            b.emitEvent(YowLayerEvent(YowNetworkLayer.EVENT_STATE_DISCONNECTED, reason="x", detached=True))
            w["ops"].append("disconnected")
            continue
        n = r.choice([1, 2, 4, 9, r.randint(1, 400)])
        payload = bytes(r.getrandbits(8) for _ in range(n))
        w["ops"].append("%s%d" % (op, n))
        b.clear()
        t.clear()
        try:
            if op == "send":
                t.send(payload)
                got = b"".join(bytes(x) for x in b.sent)
                want = (struct.pack(">I", n)[1:] if enabled else b"") + payload
            else:
                b.receive((struct.pack(">I", n)[1:] if enabled else b"") + payload)
                got = [bytes(x) for x in t.received]
                want = [payload]
        except Exception as e:  # noqa
            acc.violation("toggle:exception:%s" % type(e).__name__, "framing layer raised %r in a history with framing switched on and off" % (e,), w)
            return
        if got != want:
            acc.violation("toggle:%s:framing-%s" % (op, "on" if enabled else "off"), "%s of %d bytes while framing is %s (after %s): got %s, expected %s"
                          % (op, n, "on" if enabled else "off", w["ops"][-6:-1], (got if op == "send" else [x[:8] for x in got])[:12], (want if op == "send" else [x[:8] for x in want])[:12]), w)
            return
    acc.count("toggle_switches", switches)
    acc.count("toggle_ok")


def judge_reconnect(acc, r, case_id):
    """A connection is cut anywhere in its stream (inside a header, inside a payload, on a boundary); the network layer's
    'disconnected' announcement reaches the framing layer the way the real network layer makes it (a detached event emitted
    by the layer directly below: handled at once by the direct neighbour, deferred for everyone above); the next
    connection's stream starts right afterwards, before the stack's loop has run. Exactly the complete frames of the first
    stream up to the cut and all frames of the second must come out."""
    import queue
    from yowsup.layers import YowLayerEvent
    from yowsup.layers.network import YowNetworkLayer
    from yowsup.stacks import YowStack
    inside = r.random() < 0.4      # the connection is closed from inside the delivery of a frame (a layer above reacts to it)
    n1, n2 = r.randint(1, 4), r.randint(1, 4)
    f1 = content(r.choice([0, 1]), [r.choice([1, 2, 3, 5, 40, 300]) for _ in range(n1)])
    f2 = content(r.choice([0, 1]), [r.choice([1, 2, 3, 5, 40, 300]) for _ in range(n2)])
    s1, s2 = stream_of(f1), stream_of(f2)
    cut = r.randint(0, len(s1))
    pump_between = r.random() < 0.3
    st, b, t, S = _mk()
    w = {"dir": "reconnect", "sizes1": [len(f) for f in f1], "sizes2": [len(f) for f in f2], "cut": cut, "pump_between": pump_between, "case": case_id}
    acc.count("reconnect_cases")
    fb, hdr = boundaries(f1)
    acc.count("reconnect_cut:" + ("boundary" if cut in fb or cut == 0 else "header" if cut in hdr else "payload"))
    acc.case(["rc", w["sizes1"], w["sizes2"], cut, pump_between], nontrivial=cut not in fb and cut != 0)

    def pump():
        q = YowStack._YowStack__detachedQueue
        while True:
            try:
                q.get(False)()
            except queue.Empty:
                return
    try:
        if inside:
            # the last complete frame before the cut makes the layer above close the connection while it is being delivered;
            # whatever follows it in the same chunk (the cut-off rest) arrives in that same receive call
            pos_, ends = 0, []
            for f in f1:
                pos_ += 3 + len(f)
                if pos_ <= cut:
                    ends.append(pos_)
            if not ends:
                inside = False
        if inside:
            acc.count("reconnect_closed_inside_delivery")
            n_close = len(ends)
            seen_ = [0]

            def on_receive(data):
                seen_[0] += 1
                if seen_[0] == n_close:
                    b.emitEvent(YowLayerEvent(YowNetworkLayer.EVENT_STATE_DISCONNECTED, reason="closed by a layer above", detached=True))
            t.on_receive = on_receive
            head = s1[:ends[-2]] if len(ends) > 1 else b""
            for ch in gen.cut(head, gen.random_cuts(r, len(head), r.choice([0, 1]))) if head else []:
                b.receive(ch)
            b.receive(s1[len(head):cut])       # last complete frame + the cut-off rest in one chunk
            t.on_receive = None
        else:
            for ch in gen.cut(s1[:cut], gen.random_cuts(r, cut, r.choice([0, 1, 3]))) if cut else []:
                b.receive(ch)
            b.emitEvent(YowLayerEvent(YowNetworkLayer.EVENT_STATE_DISCONNECTED, reason="cut", detached=True))
        if pump_between:
            pump()
        for ch in gen.cut(s2, gen.random_cuts(r, len(s2), r.choice([0, 1, 3]))):
            b.receive(ch)
        pump()
    except Exception as e:  # noqa
        acc.violation("reconnect:exception:%s" % type(e).__name__, "segments layer raised %r around a reconnect" % (e,), w)
        return
    # complete frames of the first stream before the cut
    want, pos = [], 0
    for f in f1:
        pos += 3 + len(f)
        if pos <= cut:
            want.append(f)
    want += f2
    got = [bytes(x) for x in t.received]
    if got != want:
        acc.violation("reconnect:frames-differ:%s" % ("pumped" if pump_between else "before-loop-turn"),
                      "after a connection cut at byte %d of its stream the frames handed upward differ from the frames sent (%d vs %d frames, sizes %s)"
                      % (cut, len(got), len(want), [len(g) for g in got][:10]), w)
    else:
        acc.count("reconnect_ok")


def real_stream_case(acc, seed, tag, dispatcher_name):
    """The library's real dispatcher over loopback TCP: the server writes single large frames (around and above 64 KiB) and bursts
    of many small ones; the bytes handed to the framing layer must be exactly the bytes the peer wrote (nothing lost, nothing
    twice, connection not closed), and every stanza must come out at the top."""
    from vf import env
    env.shim_thirdparty()
    from vf import realnet
    from yowsup.layers.network import YowNetworkLayer
    from yowsup.layers.auth import YowAuthenticationProtocolLayer
    r = gen.rng(seed, ID, tag)
    disp = YowNetworkLayer.DISPATCHER_SOCKET if dispatcher_name == "socket" else YowNetworkLayer.DISPATCHER_ASYNCORE
    srv = realnet.LoopServer()
    srv.start()
    c = realnet.RealClient("c05real_%s" % tag.replace("/", "_"), srv.port, disp)
    w = {"dir": "real-stream", "dispatcher": dispatcher_name, "tag": tag}
    acc.count("real_stream_cases")
    acc.count("real_stream:" + dispatcher_name)
    acc.case(["real-stream", dispatcher_name, tag], nontrivial=True)
    try:
        c.start_loop()
        c.connect_async()
        if not c.wait(lambda: c.events(YowAuthenticationProtocolLayer.EVENT_AUTHED) >= 1, 15):
            acc.inconc("%s: login over loopback did not complete" % tag)
            return
        conn = srv.conns[0]
        plan = r.choice(["big", "burst", "mixed"])
        w["plan"] = plan
        sizes = []
        if plan in ("big", "mixed"):
            sizes += [r.choice([65000, 65500, 65536 - 40, 65536, 65537, 70000, 131072, 200000]) for _ in range(r.randint(1, 3))]
        if plan in ("burst", "mixed"):
            sizes += [r.randint(1, 60) for _ in range(r.choice([500, 2000, 4000]))]
        r.shuffle(sizes) if plan == "mixed" else None
        n = 0
        for sz in sizes:
            try:
                conn.send_stanza(("ib", {"from": "s.whatsapp.net"}, [("dirty", {"type": "groups", "timestamp": str(1600000000 + n)}, [], gen.blob(r, 1) * sz)], None))
            except OSError:
                break           # the client closed the connection under the writer: judged below
            n += 1
        acc.count("real_stream_frames", n)
        acc.maxi("real_stream_bytes", len(conn.sent_raw))

        def got():
            return b"".join(bytes(x) for x in list(c.probe_low.received))
        ok_len = c.wait(lambda: sum(len(x) for x in list(c.probe_low.received)) >= len(conn.sent_raw) or c.events(YowNetworkLayer.EVENT_STATE_DISCONNECTED) >= 1, 30)
        if c.events(YowNetworkLayer.EVENT_STATE_DISCONNECTED) >= 1:
            acc.violation("real-stream:connection-closed:%s" % dispatcher_name, "while the peer was writing (%d frames, %d bytes) the client announced the connection as down; %d bytes had been handed up"
                          % (n, len(conn.sent_raw), len(got())), w)
            return
        g, s_ = got(), bytes(conn.sent_raw)
        if g != s_:
            m = min(len(g), len(s_))
            i = next((k for k in range(m) if g[k] != s_[k]), m)
            acc.violation("real-stream:bytes-differ:%s" % dispatcher_name, "the bytes handed to the framing layer are not the bytes the peer wrote: %d vs %d bytes, first difference at %d%s"
                          % (len(g), len(s_), i, "" if ok_len else " (after waiting 30 s)"), w)
            return
        acc.count("real_stream_ok")
    finally:
        try:
            c.app.disconnect()
        except Exception:
            pass
        c.stop_loop()
        import time as _t
        _t.sleep(0.05)
        srv.stop()


def real_disconnect_midframe_case(acc, seed, tag, dispatcher_name):
    """Real dispatcher: the application disconnects from its own thread while a frame is half received; the peer's remaining bytes
    still arrive before it closes. A new connection on the same stack must start with a clean framing state: login completes and
    the following stanzas come up."""
    from vf import env
    env.shim_thirdparty()
    from vf import realnet
    from yowsup.layers.network import YowNetworkLayer
    from yowsup.layers.auth import YowAuthenticationProtocolLayer
    import time as _t
    r = gen.rng(seed, ID, tag)
    disp = YowNetworkLayer.DISPATCHER_SOCKET if dispatcher_name == "socket" else YowNetworkLayer.DISPATCHER_ASYNCORE
    srv = realnet.LoopServer()
    srv.start()
    c = realnet.RealClient("c05mid_%s" % tag.replace("/", "_"), srv.port, disp)
    w = {"dir": "real-disconnect-midframe", "dispatcher": dispatcher_name, "tag": tag}
    A, D = YowAuthenticationProtocolLayer.EVENT_AUTHED, YowNetworkLayer.EVENT_STATE_DISCONNECTED
    acc.count("real_midframe_cases")
    acc.case(["real-midframe", dispatcher_name, tag], nontrivial=True)
    try:
        c.start_loop()
        c.connect_async()
        if not c.wait(lambda: c.events(A) >= 1, 15):
            acc.inconc("%s: login over loopback did not complete" % tag)
            return
        conn = srv.conns[0]
        n_before = sum(len(x) for x in list(c.probe_low.received))
        size = r.choice([30, 300, 5000])
        k = r.randint(1, size)
        conn.send_partial_stanza(("ib", {"from": "s.whatsapp.net"}, [("dirty", {"type": "groups", "timestamp": "1600000000"}, [], gen.blob(r, 1) * size)], None), k)
        c.wait(lambda: sum(len(x) for x in list(c.probe_low.received)) > n_before, 5)
        eager = r.random() < 0.5
        w["eager_reconnect"] = eager
        if eager:
            # an impatient application: it asks for the new connection again and again from the moment it has asked for the
            # disconnect, while the peer is slow to close (the old reader is still waiting for it); the library refuses until the
            # old connection has been announced as down
            conn.close_delay = r.choice([0.35, 0.5])
            acc.count("real_midframe_eager")
        old_disp = c.net._dispatcher
        c.app.disconnect()
        early = False
        if eager:
            t0 = _t.time()
            asked = 0
            # only in the first 100 ms, while the peer certainly still holds its side open, so that the old reader cannot have
            # announced anything yet: every one of these requests has to be refused. (What happens to a request made between
            # the announcement and the stack's loop working it off is C16's known finding reconnect-up-before-loop-turn.)
            while _t.time() - t0 < 0.1 and c.net._dispatcher is old_disp and c.events(D) < 1:
                c.connect_async()
                asked += 1
                _t.sleep(0.004)
            acc.count("real_midframe_eager_requests", asked)
            changed = c.net._dispatcher is not old_disp
            early = changed and c.events(D) < 1 and _t.time() - t0 < conn.close_delay - 0.1
            w["accepted_before_announcement"] = early
            if changed and not early:
                acc.count("real_midframe_eager_ambiguous")     # (asyncore announces at once; or this process was stalled)
                return
        if not early:
            if not c.wait(lambda: c.probe_top.event_names().count(D) >= 1, 10):
                acc.violation("real-midframe:no-disconnected:%s" % dispatcher_name, "a local disconnect while a frame was half received was never announced", w)
                return
            t0 = _t.time()
            while _t.time() - t0 < 5 and any(t.is_alive() for t in c.net_threads):
                _t.sleep(0.01)
            _t.sleep(0.05)
            c.connect_async()
        if not c.wait(lambda: c.events(A) >= 2, 15):
            acc.violation("real-midframe:no-relogin:%s" % dispatcher_name, "after a disconnect in the middle of an incoming frame the next connection does not log in (server states %s): "
                          "bytes of the dead connection were still in the framing layer" % [x.srv.state for x in srv.conns], w)
            return
        conn2 = srv.conns[-1]
        n_app = len(c.app_log)
        for i in range(3):
            conn2.send_stanza(("ib", {"from": "s.whatsapp.net"}, [("dirty", {"type": "groups", "timestamp": str(1600000100 + i)}, [], None)], None))
        if not c.wait(lambda: len(c.app_log) >= n_app + 3, 10):
            acc.violation("real-midframe:frames-lost:%s" % dispatcher_name, "stanzas sent on the new connection did not all come up (%d of 3)" % (len(c.app_log) - n_app), w)
            return
        acc.count("real_midframe_ok")
    finally:
        try:
            c.app.disconnect()
        except Exception:
            pass
        c.stop_loop()
        _t.sleep(0.05)
        srv.stop()


def exhaustive_family(acc, sizes, modes=(0, 1)):
    L = sum(3 + n for n in sizes)
    for mode in modes:
        frames = content(mode, sizes)
        for cuts in gen.partitions_of(L):
            judge_recv(acc, sizes, mode, cuts, frames=frames, desc="enum")
    acc.count("exhaustive_families")
    acc.seen("exhaustive_size_lists", ",".join(map(str, sizes)))


def families(tier):
    fams = []
    if tier == "quick":
        fams += [(n,) for n in range(1, 12)]
        fams += list(itertools.product(range(1, 5), repeat=2))
        fams += list(itertools.product((1, 2), repeat=3))
    else:
        fams += [(n,) for n in range(1, 17)]
        fams += list(itertools.product(range(1, 7), repeat=2))
        fams += list(itertools.product((1, 2, 3, 4), repeat=3))
        fams += [(1, 1, 1, 1), (1, 2, 1, 2), (2, 1, 1, 1), (1, 1, 1, 2)]
    return fams


def cost(sizes):
    return 1 << (sum(3 + n for n in sizes) - 1)


def shards(tier, seed, nworkers):
    fams = sorted(families(tier), key=cost, reverse=True)
    bins = [[] for _ in range(nworkers)]
    loads = [0] * nworkers
    for f in fams:
        i = loads.index(min(loads))
        bins[i].append(list(f))
        loads[i] += cost(f)
    specs = [{"kind": "exhaustive", "families": b} for b in bins if b]
    nrand = 400 if tier == "quick" else 6000
    nsh = 2 if tier == "quick" else nworkers
    for i in range(nsh):
        specs.append({"kind": "random", "shard": i, "n": nrand // nsh, "big": i == 0})
    specs.append({"kind": "send", "n": 60 if tier == "quick" else 600})
    specs.append({"kind": "reconnect", "n": 600 if tier == "quick" else 40000})
    for dname in ("socket", "asyncore"):
        specs.append({"kind": "real-stream", "dispatcher": dname, "n": 4 if tier == "quick" else 60})
    return specs


def random_case(acc, r, case_id, big=False):
    nfr = r.choice([1, 2, 3, 5, 8, 20])
    sizes = []
    for _ in range(nfr):
        c = r.random()
        if c < 0.4:
            sizes.append(r.randint(1, 40))
        elif c < 0.7:
            sizes.append(r.choice([253, 254, 255, 256, 257, 258, 259, 260, 65535, 65536, 65537, 65538, 65539]))
        else:
            sizes.append(r.randint(1, 72000))
    if big:
        sizes[r.randrange(len(sizes))] = big
    mode = r.randrange(3)
    if mode == 2:
        frames = [gen.blob(r, min(n, 2048)) * (n // 2048 + 1) for n in sizes]
        frames = [f[:n] for f, n in zip(frames, sizes)]
    else:
        frames = content(mode, sizes)
    L = sum(3 + n for n in sizes)
    style = r.random()
    if style < 0.1:
        cuts = ()
    elif style < 0.25 and L <= 6000:
        cuts = tuple(range(1, L))
    elif style < 0.6:
        # cuts aimed at headers
        fb, hdr = boundaries(frames)
        cand = sorted(hdr | {p + d for p in fb for d in (-1, 0, 1, 2, 3, 4) if 0 < p + d < L})
        cuts = tuple(sorted(set(r.sample(cand, r.randint(1, len(cand))))))
    else:
        cuts = gen.random_cuts(r, L, r.choice([1, 2, 3, 7, 30, 200]))
    judge_recv(acc, sizes, mode, cuts, frames=frames, desc=["rr", sizes, mode, len(cuts), case_id])
    return sizes, cuts


def run(spec, acc):
    seed = spec["seed"]
    if spec["kind"] == "exhaustive":
        for f in spec["families"]:
            exhaustive_family(acc, tuple(f))
        acc.sample({"exhaustive_families": spec["families"][:6], "note": "every partition of each listed frame-size list, two content modes"})
    elif spec["kind"] == "random":
        for i in range(spec["n"]):
            r = gen.rng(seed, ID, "rand/%d/%d" % (spec["shard"], i))
            big = False
            if spec.get("big") and i in (0, 1, 2):
                big = [1 << 20, (1 << 24) - 1, (1 << 20) + 1][i]
            sizes, cuts = random_case(acc, r, "%d/%d" % (spec["shard"], i), big=big)
            if i < 3:
                acc.sample({"frame_sizes": sizes[:10], "cuts": list(cuts[:20]), "n_cuts": len(cuts)})
    elif spec["kind"] == "real-stream":
        for i in range(spec["n"]):
            real_stream_case(acc, seed, "rs/%s/%d" % (spec["dispatcher"], i), spec["dispatcher"])
            real_disconnect_midframe_case(acc, seed, "rm/%s/%d" % (spec["dispatcher"], i), spec["dispatcher"])
        acc.sample({"real_stream": "server writes large frames and bursts over loopback; bytes at the framing layer's input compared with the bytes written", "dispatcher": spec["dispatcher"]})
    elif spec["kind"] == "reconnect":
        for i in range(spec["n"]):
            judge_reconnect(acc, gen.rng(seed, ID, "reconnect/%d" % i), i)
            judge_toggle_history(acc, gen.rng(seed, ID, "toggle/%d" % i), i)
        acc.sample({"reconnect": "stream cut at a random byte, detached 'disconnected' from the layer below, next stream before the loop turns"})
    elif spec["kind"] == "send":
        fixed = [1, 2, 255, 256, 65535, 65536, (1 << 24) - 1, 1 << 24, (1 << 24) + 1]
        for n in fixed:
            for en in (True, False):
                judge_send(acc, n, en)
        for i in range(spec["n"]):
            r = gen.rng(seed, ID, "send/%d" % i)
            judge_send(acc, r.choice([r.randint(1, 300), r.randint(1, 70000), r.randint(1, 1 << 20)]), r.random() < 0.8, r)
        acc.sample({"outgoing_sizes": fixed})


def replay(spec, acc):
    w = spec["witness"]
    if w.get("dir") == "send":
        judge_send(acc, w["size"], w["enabled"])
    else:
        judge_recv(acc, tuple(w["sizes"]), w.get("mode", 0) if w.get("mode", 0) in (0, 1) else 0, tuple(w.get("cuts", ())))
