"""C08 — request/response correlation: each reply reaches its request's callback once."""
from vf import gen, treeeq, stackkit, catalogue

ID = "C08"
LEVEL = "exploration"
RULE = ("one evaluation = one history: up to 6 requests of random kinds (ping, last seen, picture get/set, status set/get, "
        "privacy, every group operation, contact sync, media upload request) are issued by an application layer derived from "
        "YowInterfaceLayer through _sendIq with unique success/error callbacks, in a stack of bottom probe + (optionally "
        "axolotl layers) + the full protocol group; then deliveries drawn from {result, error, duplicate of an answered reply, "
        "unknown id, non-reply stanza carrying a pending id, reply to a request of another stack} arrive in random order. A "
        "reference registry (dict id -> pending request) predicts for every delivery exactly which callback fires with which "
        "request attached; the logged callbacks must match after every delivery. Library-internal requests (key fetch, key "
        "upload, group info) are checked through their observable effect. Non-trivial = >= 2 outstanding requests and an "
        "out-of-order/duplicate/unknown delivery; distinct by (kinds, deliveries) hash")
ASSUMPTIONS = ["reply shapes are the documented result shapes of vf/catalogue.py with id/from matched to the request",
               "only kinds for which the stack defines a reply entity are issued"]
REQUIRED = ["refused_requests_while_others_outstanding", "group_keyfetch_with_known_members", "twin_requests", "twin_requests_while_first_outstanding", "concurrent_request_runs", "concurrent_requests_ok", "concurrent_yields", "internal:group-keyfetch", "internal_group_ok", "group_keyfetch_partial", "histories", "callbacks_that_raised", "reissued_in_callback", "requests", "deliveries", "predicted_callbacks", "observed_callbacks", "delivery:result", "delivery:error", "delivery:duplicate",
            "delivery:unknown-id", "delivery:non-reply", "delivery:foreign", "internal:key-fetch", "internal:key-upload"]
TIMEOUT = {"quick": 600, "thorough": 7200}

S = "s.whatsapp.net"


def request_kinds():
    from vf.props import c09
    cat = c09.outgoing_catalogue()
    from yowsup.layers.protocol_media.protocolentities import RequestUploadIqProtocolEntity
    kinds = {}
    for k in ("ping", "lastseen", "picture-get", "picture-set", "status-set", "statuses-get", "privacy-get", "groups-list", "groups-create", "groups-info",
              "groups-leave", "groups-add", "groups-remove", "groups-promote", "groups-demote", "groups-subject", "contacts-sync"):
        kinds[k] = cat[k]
    kinds["request-upload"] = lambda r: RequestUploadIqProtocolEntity(r.choice(["image", "audio", "video"]), b64Hash=gen.s_from(r, gen.ALNUM, 20), size=r.randint(1, 10 ** 6))
    return kinds


def result_body(r, kind, req_node):
    """Children of a result reply of the documented shape for this request kind."""
    fx = {n: t for n, c, t in catalogue.fixtures()[0]}
    H = catalogue.HAND

    def hand(n):
        return H[n][2](r)[2]

    if kind in ("ping", "status-set", "groups-promote", "groups-demote", "groups-subject"):
        return []
    if kind == "lastseen":
        return hand("lastseen_result")
    if kind in ("picture-get", "picture-set"):
        return hand("picture_result")
    if kind == "statuses-get":
        return hand("statuses_result")
    if kind == "privacy-get":
        return fx["iq_privacy_result"][2]
    if kind == "groups-list":
        # (the library's own sample, or a generated list of 0..4 groups: an account without groups gets an empty container)
        return fx["iq_result_groups_list"][2] if r.random() < 0.3 else hand("groups_list_result")
    if kind == "groups-create":
        return fx["iq_groups_create_success"][2]
    if kind == "groups-info":
        return hand("group_info_result")
    if kind == "groups-leave":
        return hand("leave_success")
    if kind == "groups-add":
        return hand("participants_add_success")
    if kind == "groups-remove":
        return hand("participants_remove_success")
    if kind == "contacts-sync":
        return fx["iq_sync_result"][2]
    if kind == "request-upload":
        # (either of the two answers the server gives: a fresh upload slot, or "already there")
        return catalogue.h_upload_result(r)[2] if r.random() < 0.7 else fx["iq_requestupload_result"][2]
    return []


def reply(r, kind, req_node, typ, rid=None):
    a = {"id": rid or req_node[1]["id"], "type": typ, "from": req_node[1].get("to", S)}
    if typ == "error":
        ea = {"code": r.choice(["401", "404", "500", "503"]), "text": r.choice(["not-authorized", "item-not-found", "internal-server-error", "service-unavailable"])}
        if r.random() < 0.3:
            ea["backoff"] = str(r.choice([1, 60, 3600, r.randint(1, 100000)]))        # (the server may tell the client to hold off)
        return ("iq", a, [("error", ea, [], None)], None)
    return ("iq", a, result_body(r, kind, req_node), None)


class CallbackBoom(RuntimeError):
    pass


def make_app():
    from yowsup.layers.interface import YowInterfaceLayer

    class App(YowInterfaceLayer):
        def __init__(self):
            super(App, self).__init__()
            self.upward = []

        def receive(self, entity):
            self.upward.append(entity)
            super(App, self).receive(entity)
    return App()


def one_history(acc, seed, tag, kits):
    r = gen.rng(seed, ID, tag)
    enc = r.random() < 0.5
    kit = kits[enc]
    other = kits["other"]
    app = kit.top
    kit.clear()
    kinds = request_kinds()
    log = []          # (request uid, which)
    pending = {}      # id -> request record        (the reference registry)
    answered = []     # (request record, reply stanza)
    nreq = r.randint(1, 6)
    reqs = []
    w = {"tag": tag, "enc": enc, "requests": [], "deliveries": []}
    ok = True

    def issue(k, twin_of=None):
        import random as _random
        state = r.getstate() if twin_of is None else twin_of["rstate"]
        if twin_of is None:
            ent = kinds[k](r)
        else:
            # the same request once more (same target, same arguments, a new id) while the first may still be unanswered, or
            # after it was answered: two requests, two callbacks
            r2 = _random.Random()
            r2.setstate(state)
            ent = kinds[k](r2)
            if ent.getId() in pending or any(x["id"] == ent.getId() for x in reqs):
                return True
            acc.count("twin_requests")
            if twin_of["id"] in pending:
                acc.count("twin_requests_while_first_outstanding")
        rec = {"uid": len(reqs), "kind": k, "entity": ent, "id": ent.getId(), "rstate": state}

        # what the application does inside its callbacks: nothing, raise, or (on error) issue the same request again
        rec["behaviour"] = r.choice(["plain", "plain", "plain", "raise", "retry-on-error"])

        def on_ok(reply_entity, original, rec=rec):
            log.append((rec["uid"], "success", original is rec["entity"], reply_entity))
            if rec["behaviour"] == "raise":
                raise CallbackBoom("application success callback raised")

        def on_err(reply_entity, original, rec=rec):
            log.append((rec["uid"], "error", original is rec["entity"], reply_entity))
            if rec["behaviour"] == "raise":
                raise CallbackBoom("application error callback raised")
            if rec["behaviour"] == "retry-on-error" and not rec.get("retried"):
                rec["retried"] = True
                rec["reissued"] = True
                app._sendIq(original, rec["on_ok"], rec["on_err"])
        rec["on_ok"], rec["on_err"] = on_ok, on_err
        before = len(kit.bottom.sent)
        app._sendIq(ent, on_ok, on_err)
        out = kit.bottom.sent[before:]
        rec["node"] = treeeq.to_tuple(out[0]) if out else None
        reqs.append(rec)
        w["requests"].append([k, rec["id"]])
        acc.count("requests")
        acc.count("req:" + k)
        if len(out) != 1:
            acc.violation("request-not-sent:%s:%d" % (k, len(out)), "a %s request left the stack %d times" % (k, len(out)), w)
            return False
        pending[rec["id"]] = rec
        return True

    for _ in range(nreq):
        if reqs and r.random() < 0.25:
            t0 = r.choice(reqs)
            if not issue(t0["kind"], twin_of=t0):
                return
            continue
        if not issue(r.choice(sorted(kinds))):
            return
    # a request of another stack instance (same id space is process-wide, ids differ; its reply must not fire anything here)
    # (a contact sync: its result is forwarded upward by the contacts layer whoever asked, so it does reach the application layer)
    foreign_ent = kinds["contacts-sync"](r)
    other.top._sendIq(foreign_ent, lambda a, b: log.append(("foreign", "success", True, a)), lambda a, b: log.append(("foreign", "error", True, a)))
    ndel = r.randint(len(reqs), len(reqs) * 2 + 3)
    max_out = len(pending)
    odd = False
    for di in range(ndel):
        choices = ["result", "error"] if pending else []
        choices += ["unknown-id", "foreign"]
        if answered:
            choices.append("duplicate")
        if pending:
            choices.append("non-reply")
        # a request the application built wrongly: serialising it raises, the send is refused with an exception which the
        # application catches. Nothing went out, no reply will come; every OTHER outstanding request is answered as before.
        if r.random() < 0.12:
            bad = kinds[r.choice(sorted(kinds))](r)

            def boom(*a, **k):
                raise AttributeError("'NoneType' object has no attribute 'verif' (request built wrongly)")
            bad.toProtocolTreeNode = boom
            nb_ = len(kit.bottom.sent)
            try:
                app._sendIq(bad, lambda a, b: log.append(("rejected", "success", True, a)), lambda a, b: log.append(("rejected", "error", True, a)))
                acc.count("unserialisable_requests_accepted")
            except Exception:  # noqa
                acc.count("unserialisable_requests_refused")
            if len(kit.bottom.sent) != nb_:
                del kit.bottom.sent[nb_:]
                acc.count("unserialisable_requests_sent_something")
            acc.count("refused_requests_between")
            if pending:
                acc.count("refused_requests_while_others_outstanding")
            w["deliveries"].append(["(refused request issued)", bad.getId()])
        # issue more requests in between sometimes
        if r.random() < 0.15 and len(reqs) < 8:
            t0 = r.choice(reqs) if (reqs and r.random() < 0.4) else None
            if not (issue(t0["kind"], twin_of=t0) if t0 else issue(r.choice(sorted(kinds)))):
                return
            max_out = max(max_out, len(pending))
        d = r.choice(choices)
        acc.count("deliveries")
        acc.count("delivery:" + d)
        n_before = len(log)
        predicted = None
        if d in ("result", "error"):
            rec = pending[r.choice(sorted(pending))]
            if rec is not reqs[min(reqs, key=lambda x: x["uid"] if x["id"] in pending else 10 ** 9)["uid"]]:
                odd = True
            st = reply(r, rec["kind"], rec["node"], d)
            del pending[rec["id"]]
            answered.append((rec, st))
            predicted = (rec["uid"], "success" if d == "result" else "error")
        elif d == "duplicate":
            rec, st = r.choice(answered)
            odd = True
        elif d == "unknown-id":
            st = reply(r, "ping", ("iq", {"id": "zz", "to": S}, [], None), r.choice(["result", "error"]), rid="unk-%s" % gen.msgid(r))
            odd = True
        elif d == "foreign":
            st = reply(r, "contacts-sync", treeeq.to_tuple(foreign_ent.toProtocolTreeNode()), "result")
            odd = True
        else:
            rec = pending[r.choice(sorted(pending))]
            c = r.random()
            if c < 0.4:
                # (an iq that is no reply: a request of the server's, or one whose type is missing / not one the protocol knows)
                ty = r.choice(["get", "get", "set", None, "probe"])
                st = ("iq", dict({"id": rec["id"], "xmlns": "urn:xmpp:ping", "from": S}, **({"type": ty} if ty else {})), [], None)
                acc.count("non_reply_iq_type:%s" % ty)
            elif c < 0.7:
                st = ("ack", {"id": rec["id"], "class": "receipt", "from": gen.jid(r), "t": "1600000000"}, [], None)
            else:
                st = ("receipt", {"id": rec["id"], "from": gen.jid(r), "t": "1600000000"}, [], None)
            odd = True
        w["deliveries"].append([d, st[1].get("id"), st[1].get("type")])
        try:
            kit.inject(st)
        except CallbackBoom:
            acc.count("callbacks_that_raised")       # reported to the caller of receive: fine
        except Exception as e:  # noqa
            import traceback
            fr = [fs.name for fs in traceback.extract_tb(e.__traceback__) if "/yowsup/" in fs.filename][-1:]
            acc.violation("delivery-raises:%s:%s:%s" % (d, type(e).__name__, fr[0] if fr else "?"), "delivering a %s raised %r" % (d, e), w)
            ok = False
            break
        new = log[n_before:]
        if predicted is not None:
            acc.count("predicted_callbacks")
        if predicted is None:
            if new:
                acc.violation("spurious-callback:%s" % d, "a %s delivery fired %d callback(s): %s" % (d, len(new), [(x[0], x[1]) for x in new]), w)
                ok = False
                break
        else:
            kind_of = reqs[predicted[0]]["kind"]
            if len(new) != 1:
                acc.violation("callback-count:%s:%s:%d" % (kind_of, predicted[1], min(len(new), 2)),
                              "the %s reply to a %s request fired %d callbacks (expected exactly one %s callback)" % (d, kind_of, len(new), predicted[1]), w)
                ok = False
                break
            uid, which, same, ent = new[0]
            acc.count("observed_callbacks")
            if (uid, which) != predicted:
                acc.violation("wrong-callback:%s" % kind_of, "reply for request %s fired %s of request %s" % (predicted, which, uid), w)
                ok = False
                break
            if not same:
                acc.violation("original-not-attached:%s" % kind_of, "the callback did not receive the original request object", w)
                ok = False
                break
            if ent.getId() != reqs[uid]["id"]:
                acc.violation("reply-id-mismatch:%s" % kind_of, "the callback got a reply with another id", w)
                ok = False
                break
            rq = reqs[uid]
            if rq.pop("reissued", False):
                # the error callback sent the same request again: it is outstanding again under the same id
                pending[rq["id"]] = rq
                answered[:] = [(a, b) for a, b in answered if a is not rq]
                acc.count("reissued_in_callback")
                odd = True
    acc.count("histories")
    from vf.evidence import h
    acc.case(h([w["requests"], w["deliveries"], enc]), nontrivial=(max_out >= 2 and odd))
    if ok:
        acc.count("history_ok")
    return w


def internal_requests(acc, seed, tag):
    """Library-internal requests through their observable effects (axolotl layers, YowProtocolLayer registry)."""
    from yowsup.axolotl.manager import AxolotlManager
    from yowsup.layers.protocol_messages.protocolentities import TextMessageProtocolEntity
    from yowsup.axolotl.factory import AxolotlManagerFactory
    r = gen.rng(seed, ID, tag)
    AxolotlManager.COUNT_GEN_PREKEYS = 4
    kit = stackkit.Kit(dict.fromkeys(stackkit.FLAGS, True), True)
    w = {"tag": tag}
    # --- key fetch: a message to a contact without session -> iq get encrypt; the reply decides what happens ---------
    peer_phone = "4917" + gen.s_from(r, gen.DIGITS, 7)
    peer = AxolotlManagerFactory().get_manager("peer_" + tag.replace("/", "_"), peer_phone)
    peer.level_prekeys(force=True)
    pk = peer.load_unsent_prekeys()[0]
    spk = peer.load_latest_signed_prekey(generate=True)

    def bundle_reply(rid, jid):
        import binascii

        def b3(i):
            return binascii.unhexlify(format(i, "x").zfill(6))
        user = ("user", {"jid": jid}, [("registration", {}, [], binascii.unhexlify(format(peer.registration_id, "x").zfill(8))), ("type", {}, [], b"\x05"),
                                       ("identity", {}, [], peer.identity.getPublicKey().serialize()[1:]),
                                       ("skey", {}, [("id", {}, [], b3(spk.getId())), ("value", {}, [], spk.getKeyPair().getPublicKey().serialize()[1:]), ("signature", {}, [], spk.getSignature())], None),
                                       ("key", {}, [("id", {}, [], b3(pk.getId())), ("value", {}, [], pk.getKeyPair().getPublicKey().serialize()[1:])], None)], None)
        return ("iq", {"id": rid, "type": "result", "from": S}, [("list", {}, [user], None)], None)

    jid = "%s@s.whatsapp.net" % peer_phone
    variants = ["result", "error-then-nothing", "unknown-then-result", "result-twice"]
    v = r.choice(variants)
    acc.count("internal:key-fetch")
    acc.count("keyfetch:" + v)
    kit.clear()
    kit.send(TextMessageProtocolEntity("hello", to=jid))
    gets = [treeeq.to_tuple(n) for n in kit.bottom.sent if n.tag == "iq" and n["xmlns"] == "encrypt"]
    if len(gets) != 1:
        acc.violation("internal-keyfetch-request:%d" % len(gets), "a message to a contact without session produced %d key requests" % len(gets), w)
        return
    rid = gets[0][1]["id"]

    def enc_msgs():
        return [n for n in kit.bottom.sent if n.tag == "message" and n.getChild("enc") is not None]
    try:
        if v == "result":
            kit.inject(bundle_reply(rid, jid))
            want = 1
        elif v == "error-then-nothing":
            kit.inject(("iq", {"id": rid, "type": "error", "from": S}, [("error", {"code": "404", "text": "item-not-found"}, [], None)], None))
            kit.inject(bundle_reply(rid, jid))        # a late duplicate for an id that is no longer pending
            want = 0
        elif v == "unknown-then-result":
            kit.inject(bundle_reply("unk-" + rid, jid))
            if enc_msgs():
                acc.violation("internal-keyfetch-unknown-id", "a key reply with an unknown id was accepted", w)
                return
            kit.inject(bundle_reply(rid, jid))
            want = 1
        else:
            kit.inject(bundle_reply(rid, jid))
            kit.inject(bundle_reply(rid, jid))
            want = 1
    except Exception as e:  # noqa
        acc.violation("internal-keyfetch-raises:%s:%s" % (v, type(e).__name__), "key fetch reply handling raised %r" % (e,), w)
        return
    if len(enc_msgs()) != want:
        acc.violation("internal-keyfetch-effect:%s:%d-for-%d" % (v, len(enc_msgs()), want), "after %s the pending message was sent %d times, expected %d" % (v, len(enc_msgs()), want), w)
        return
    # --- key upload: the count notification makes the control layer upload; only a result marks the keys as sent -----
    acc.count("internal:key-upload")
    mgr = kit.profile.axolotl_manager
    kit.clear()
    kit.inject(("notification", {"id": "n1", "type": "encrypt", "from": S, "t": "1"}, [("count", {"value": "0"}, [], None)], None))
    sets = [treeeq.to_tuple(n) for n in kit.bottom.sent if n.tag == "iq" and n["xmlns"] == "encrypt" and n["type"] == "set"]
    if len(sets) != 1:
        acc.violation("internal-keyupload-request:%d" % len(sets), "a key count notification produced %d uploads" % len(sets), w)
        return
    unsent_before = len(mgr.load_unsent_prekeys())
    n_uploaded = len([c for c in sets[0][2] if c[0] == "list"][0][2])
    v2 = r.choice(["unknown", "result", "non-reply"])
    acc.count("keyupload:" + v2)
    try:
        if v2 == "unknown":
            kit.inject(("iq", {"id": "unk-" + sets[0][1]["id"], "type": "result", "from": S}, [], None))
            want_unsent = unsent_before
        elif v2 == "non-reply":
            ty = r.choice(["get", "set", None, "probe"])
            acc.count("keyupload_non_reply_type:%s" % ty)
            kit.inject(("iq", dict({"id": sets[0][1]["id"], "xmlns": "urn:xmpp:ping", "from": S}, **({"type": ty} if ty else {})), [], None))
            want_unsent = None
        else:
            kit.inject(("iq", {"id": sets[0][1]["id"], "type": "result", "from": S}, [], None))
            want_unsent = unsent_before - n_uploaded      # exactly the uploaded keys stop being pending
    except Exception as e:  # noqa
        acc.violation("internal-keyupload-raises:%s:%s" % (v2, type(e).__name__), "key upload reply handling raised %r" % (e,), w)
        return
    if want_unsent is not None and len(mgr.load_unsent_prekeys()) != want_unsent:
        acc.violation("internal-keyupload-effect:%s" % v2, "after %s %d keys count as pending upload, expected %d" % (v2, len(mgr.load_unsent_prekeys()), want_unsent), w)
        return
    acc.count("internal_ok")


def internal_group_keyfetch(acc, seed, tag):
    """The send layer's chain of internal requests for a first group message: group info, then one key request for all members
    without session. The key result may leave members out (no keys in the directory) and may be replayed: the message goes
    out exactly once, to the members that were keyed, and a replay changes nothing."""
    from yowsup.axolotl.manager import AxolotlManager
    from yowsup.layers.protocol_messages.protocolentities import TextMessageProtocolEntity
    from yowsup.axolotl.factory import AxolotlManagerFactory
    import binascii
    r = gen.rng(seed, ID, tag)
    AxolotlManager.COUNT_GEN_PREKEYS = 4
    kit = stackkit.Kit(dict.fromkeys(stackkit.FLAGS, True), True)
    w = {"tag": tag, "kind": "group-keyfetch"}
    own = "%s@s.whatsapp.net" % kit.profile.config.phone
    n = r.randint(2, 4)
    peers = []
    for i in range(n):
        ph = "4918%d%s" % (i, gen.s_from(r, gen.DIGITS, 6))
        m = AxolotlManagerFactory().get_manager("gpeer_%s_%d" % (tag.replace("/", "_"), i), ph)
        m.level_prekeys(force=True)
        peers.append((ph, m, m.load_unsent_prekeys()[0], m.load_latest_signed_prekey(generate=True)))
    # some members may be old acquaintances (a pairwise session exists already), but never all of them: the key request is for the rest
    pre = set(r.sample(range(n), r.randint(0, n - 1))) if r.random() < 0.5 else set()
    if pre:
        from axolotl.state.prekeybundle import PreKeyBundle
        km = kit.profile.axolotl_manager
        for i in pre:
            ph, m, pk, spk = peers[i]
            km.create_session(ph, PreKeyBundle(m.registration_id, 1, pk.getId(), pk.getKeyPair().getPublicKey(), spk.getId(), spk.getKeyPair().getPublicKey(),
                                               spk.getSignature(), m.identity.getPublicKey()), autotrust=True)
        acc.count("group_keyfetch_with_known_members")
    rest_ = [i for i in range(n) if i not in pre]
    omitted = set(r.sample(rest_, r.randint(0, len(rest_) - 1)))
    gj = "%s-1500000000@g.us" % kit.profile.config.phone
    acc.count("internal:group-keyfetch")
    if omitted:
        acc.count("group_keyfetch_partial")

    def b(i, width):
        return binascii.unhexlify(format(i, "x").zfill(width))

    def user(ph, m, pk, spk):
        return ("user", {"jid": "%s@s.whatsapp.net" % ph}, [("registration", {}, [], b(m.registration_id, 8)), ("type", {}, [], b"\x05"),
                ("identity", {}, [], m.identity.getPublicKey().serialize()[1:]),
                ("skey", {}, [("id", {}, [], b(spk.getId(), 6)), ("value", {}, [], spk.getKeyPair().getPublicKey().serialize()[1:]), ("signature", {}, [], spk.getSignature())], None),
                ("key", {}, [("id", {}, [], b(pk.getId(), 6)), ("value", {}, [], pk.getKeyPair().getPublicKey().serialize()[1:])], None)], None)

    def msgs():
        return [x for x in kit.bottom.sent if x.tag == "message"]
    try:
        kit.clear()
        kit.send(TextMessageProtocolEntity("hello group", to=gj))
        infos = [treeeq.to_tuple(x) for x in kit.bottom.sent if x.tag == "iq" and x["xmlns"] == "w:g2"]
        if len(infos) != 1:
            acc.violation("internal-groupinfo-request:%d" % len(infos), "a first group message produced %d group info requests" % len(infos), w)
            return
        parts = [("participant", {"jid": own, "type": "admin"}, [], None)] + [("participant", {"jid": "%s@s.whatsapp.net" % p[0]}, [], None) for p in peers]
        grp = ("group", {"id": gj.split("@")[0], "creator": own, "creation": "1500000000", "subject": "g", "s_t": "1500000000", "s_o": own}, parts, None)
        kit.inject(("iq", {"id": infos[0][1]["id"], "type": "result", "from": gj}, [grp], None))
        gets = [treeeq.to_tuple(x) for x in kit.bottom.sent if x.tag == "iq" and x["xmlns"] == "encrypt" and x["type"] == "get"]
        if len(gets) != 1:
            acc.violation("internal-group-keyfetch-request:%d" % len(gets), "the group info result produced %d key requests" % len(gets), w)
            return
        asked = set(u[1]["jid"] for k_ in gets[0][2] if k_[0] == "key" for u in k_[2])
        want_asked = set("%s@s.whatsapp.net" % p[0] for i, p in enumerate(peers) if i not in pre)
        if asked != want_asked:
            acc.violation("internal-group-keyfetch-asked", "keys requested for %s, members without session: %s" % (sorted(asked), sorted(want_asked)), w)
            return
        result = ("iq", {"id": gets[0][1]["id"], "type": "result", "from": S}, [("list", {}, [user(*p) for i, p in enumerate(peers) if i not in omitted and i not in pre], None)], None)
        kit.inject(result)
        first = len(msgs())
        if first != 1:
            acc.violation("internal-group-keyfetch-effect:%d-for-1" % first, "after the key result (%d of %d members keyed, %d known before) the group message left %d times" % (n - len(omitted), n, len(pre), first), w)
            return
        keyed = set()

        def walk(nd):
            if nd.tag == "to" and nd["jid"]:
                keyed.add(nd["jid"])
            for ch in nd.getAllChildren():
                walk(ch)
        walk(msgs()[0])
        want = set("%s@s.whatsapp.net" % p[0] for i, p in enumerate(peers) if i not in omitted)
        want_new = set("%s@s.whatsapp.net" % p[0] for i, p in enumerate(peers) if i not in omitted and i not in pre)
        # (members known before may or may not get the sender key with this stanza - the pinned library leaves them to ask for it
        # with a retry -; the members keyed just now must get it, and nobody without keys may)
        if not (want_new <= keyed <= want):
            acc.violation("internal-group-keyfetch-recipients", "sender key distributed to %s, members with keys: %s" % (sorted(keyed), sorted(want)), w)
            return
        # replays: the same result again, and the group info result again
        kit.inject(result)
        kit.inject(("iq", {"id": infos[0][1]["id"], "type": "result", "from": gj}, [grp], None))
        if len(msgs()) != 1:
            acc.violation("internal-group-keyfetch-replay:%s" % ("partial" if omitted else "complete"), "a replayed key/group-info result made the message leave %d times" % len(msgs()), w)
            return
        more = [x for x in kit.bottom.sent if x.tag == "iq" and x["type"] == "get" and x["xmlns"] in ("encrypt", "w:g2")]
        if len(more) != 2:
            acc.violation("internal-group-keyfetch-replay-requests", "replayed results triggered further requests (%d in total)" % len(more), w)
            return
    except Exception as e:  # noqa
        acc.violation("internal-group-keyfetch-raises:%s" % type(e).__name__, "group key fetch chain raised %r" % (e,), w)
        return
    acc.count("internal_group_ok")


def concurrent_requests(acc, seed, tag):
    """Requests issued by several threads at once (application threads; the keep-alive thread does the same) while a receive thread
    delivers the replies as fast as the requests appear on the wire, with thread switches injected inside the registry code:
    every request's callback fires exactly once with its own request."""
    import random
    import threading
    import time
    from vf import inject
    from yowsup.layers.protocol_iq.protocolentities import PingIqProtocolEntity
    from yowsup.layers.protocol_presence.protocolentities import LastseenIqProtocolEntity
    r = gen.rng(seed, ID, tag)
    kit = stackkit.Kit(dict.fromkeys(stackkit.FLAGS, True), False, top=make_app())
    app = kit.top
    nthreads, per = r.choice([2, 3, 4]), r.choice([15, 30])
    fired = {}
    lock = threading.Lock()
    issued = {}
    stop = threading.Event()
    w = {"tag": tag, "kind": "concurrent", "threads": nthreads, "per_thread": per}

    def cb(kind):
        def f(reply, request):
            with lock:
                fired.setdefault(request.getId(), []).append((kind, reply.getId() if hasattr(reply, "getId") else None))
        return f

    def sender(k, rr):
        for i in range(per):
            ent = PingIqProtocolEntity() if rr.random() < 0.7 else LastseenIqProtocolEntity("%s@s.whatsapp.net" % gen.phone(rr))
            with lock:
                issued[ent.getId()] = ent
            try:
                app._sendIq(ent, cb("success"), cb("error"))
            except Exception as e:  # noqa
                with lock:
                    fired.setdefault(ent.getId(), []).append(("raised", type(e).__name__))

    ka_ids = []
    iq_layer = kit.sublayer("YowIqProtocolLayer")

    def keepalive(rr):
        """What YowPingThread does: it enters at the iq layer itself, not through the application layer."""
        for i in range(per):
            ent = PingIqProtocolEntity()
            ka_ids.append(ent.getId())
            try:
                iq_layer.sendIq(ent)
            except Exception as e:  # noqa
                with lock:
                    fired.setdefault(ent.getId(), []).append(("raised", type(e).__name__))
            if rr.random() < 0.3:
                time.sleep(0.0002)

    def receiver(rr):
        done = 0
        while not stop.is_set() or done < len(kit.bottom.sent):
            sent = kit.bottom.sent
            while done < len(sent):
                n = sent[done]
                done += 1
                if getattr(n, "tag", None) != "iq":
                    continue
                typ = "result" if rr.random() < 0.8 else "error"
                kids = [("error", {"code": "404", "text": "item-not-found"}, [], None)] if typ == "error" else ([("query", {"seconds": "5"}, [], None)] if n["xmlns"] == "jabber:iq:last" else [])
                try:
                    kit.inject(("iq", {"id": n["id"], "type": typ, "from": n["to"] or S}, kids, None))
                except Exception as e:  # noqa
                    with lock:
                        fired.setdefault(n["id"], []).append(("receive-raised", type(e).__name__))
            time.sleep(0.0002)
    yi = inject.YieldInjector(random.Random(r.randrange(1 << 30)), ("yowsup/layers/__init__.py", "yowsup/layers/protocol_iq/layer.py", "yowsup/layers/interface/interface.py",
                                                                       "yowsup/layers/protocol_presence/layer.py"), p=r.choice([0.05, 0.2, 0.5]))
    ths = [threading.Thread(target=sender, args=(k, random.Random(r.randrange(1 << 30))), name="verif-req-%d" % k) for k in range(nthreads)]
    ths.append(threading.Thread(target=keepalive, args=(random.Random(r.randrange(1 << 30)),), name="verif-keepalive-like"))
    rt = threading.Thread(target=receiver, args=(random.Random(r.randrange(1 << 30)),), name="verif-replies")
    acc.count("concurrent_request_runs")
    with yi:
        rt.start()
        for t in ths:
            t.start()
        for t in ths:
            t.join(60)
        stop.set()
        rt.join(30)
    if any(t.is_alive() for t in ths) or rt.is_alive():
        acc.inconc("%s: concurrent request threads still running" % tag)
        return
    acc.count("concurrent_requests", len(issued))
    acc.count("concurrent_yields", yi.yields)
    acc.case(["conc", tag], nontrivial=yi.yields > 0)
    wrong = {i: fired.get(i, []) for i in issued if len([x for x in fired.get(i, []) if x[0] in ("success", "error")]) != 1 or any(x[0] in ("raised", "receive-raised") for x in fired.get(i, []))}
    if wrong:
        i0 = sorted(wrong)[0]
        n_cb = len([x for x in wrong[i0] if x[0] in ("success", "error")])
        acc.violation("concurrent:callback-count:%d" % min(n_cb, 2), "%d of %d requests issued by %d threads at once did not get exactly one callback (e.g. id %s: %s)"
                      % (len(wrong), len(issued), nthreads, i0, wrong[i0][:3]), w)
        return
    # the keep-alive-like pings have no application callback: each one's reply comes up as exactly one entity
    ups = {}
    for e_ in getattr(app, "upward", []):
        try:
            ups[e_.getId()] = ups.get(e_.getId(), 0) + 1
        except Exception:
            pass
    wrong_ka = [i for i in ka_ids if ups.get(i, 0) != 1]
    if wrong_ka:
        acc.violation("concurrent:keepalive-reply:%d" % min(ups.get(wrong_ka[0], 0), 2), "%d of %d pings sent the way the keep-alive thread sends them (while application threads were issuing requests) "
                      "did not have their reply delivered exactly once (e.g. id %s: %d times)" % (len(wrong_ka), len(ka_ids), wrong_ka[0], ups.get(wrong_ka[0], 0)), w)
        return
    acc.count("concurrent_requests_ok", len(issued) + len(ka_ids))


def shards(tier, seed, nworkers):
    q = tier == "quick"
    nsh = 6 if q else nworkers
    return [{"kind": "histories", "shard": i, "n": (12000 if q else 300000) // nsh, "internal": (240 if q else 6000) // nsh} for i in range(nsh)]


def run(spec, acc):
    from vf import env
    env.shim_thirdparty()
    sel = dict.fromkeys(stackkit.FLAGS, True)
    kits = {False: stackkit.Kit(sel, False, top=make_app()), True: stackkit.Kit(sel, True, top=make_app()), "other": stackkit.Kit(sel, False, top=make_app())}
    for i in range(spec["n"]):
        tag = "h/%d/%d" % (spec["shard"], i)
        w = one_history(acc, spec["seed"], tag, kits)
        if i < 2 and w:
            acc.sample(w)
    for i in range(spec["internal"]):
        internal_requests(acc, spec["seed"], "int/%d/%d" % (spec["shard"], i))
        if i % 2 == 0:
            internal_group_keyfetch(acc, spec["seed"], "intg/%d/%d" % (spec["shard"], i))
        if i % 8 == 0:
            concurrent_requests(acc, spec["seed"], "conc/%d/%d" % (spec["shard"], i))


def replay(spec, acc):
    from vf import env
    env.shim_thirdparty()
    sel = dict.fromkeys(stackkit.FLAGS, True)
    tag = spec["witness"]["tag"]
    if tag.startswith("int/"):
        internal_requests(acc, spec["seed"], tag)
        return
    kits = {False: stackkit.Kit(sel, False, top=make_app()), True: stackkit.Kit(sel, True, top=make_app()), "other": stackkit.Kit(sel, False, top=make_app())}
    one_history(acc, spec["seed"], tag, kits)
