"""Catalogues for C06-C09: documented stanza shapes of receive-side entity classes and constructors of send-side ones.

Two sources of shapes, neither of which calls toProtocolTreeNode:
  * the fixture node of every repository test module under layers/*/protocolentities (the example the class's own
    documentation test uses), with its leaf values re-drawn by kind;
  * hand-written shapes (HAND) for receive-side classes without a fixture, transcribed from the class docstrings and
    the attributes their fromProtocolTreeNode reads.
Trees are tuples (tag, attrs, children, data).
"""
import importlib
import inspect
import os
import unittest

from vf import gen

S = "s.whatsapp.net"

# attribute keys whose values are free values of a known kind (everything else is an enumeration/constant: kept)
KIND_BY_KEY = {
    "id": "id", "from": "jid", "to": "jid", "participant": "ujid", "jid": "ujid", "t": "ts", "notify": "text", "creator": "ujid",
    "s_o": "ujid", "s_t": "ts", "creation": "ts", "subject": "text", "last": None, "count": "num", "after": "ts", "seconds": "num",
    "expiration": "ts", "url": "url", "hash": "b64", "size": "num", "ip": None, "call-id": "id", "call-creator": "ujid", "key": None,
    "author": "ujid", "index": "num", "retry": "num", "e": "num", "duration": "num", "resume": "num", "code": "num", "backoff": "num",
}


def draw(r, kind, orig=None):
    if kind == "id":
        return r.choice([gen.msgid(r), "%d-%d" % (r.randint(1400000000, 1700000000), r.randint(1, 999)), str(r.randint(1, 10 ** 9))])
    if kind == "ujid":
        return gen.jid(r)
    if kind == "gjid":
        return gen.jid(r, group=True)
    if kind == "jid":
        if orig and "g.us" in orig:
            return gen.jid(r, group=True)
        if orig and "@" not in orig:
            return orig
        return gen.jid(r)
    if kind == "ts":
        v = str(r.randint(1, 2 ** 31 - 1))
        return ("0" + v) if r.random() < 0.05 else v
    if kind == "num":
        v = str(r.choice([0, 1, 7, r.randint(0, 100000)]))
        return ("00" + v) if r.random() < 0.05 else v
    if kind == "text":
        return gen.s_from(r, gen.ALNUM + " _-.!?", r.randint(1, 24))
    if kind == "url":
        return "https://mms.example.net/d/%s" % gen.s_from(r, gen.ALNUM, 12)
    if kind == "b64":
        return gen.s_from(r, gen.ALNUM + "+/", 20) + "="
    return orig


def infer_kind(key, val):
    if key in KIND_BY_KEY:
        return KIND_BY_KEY[key]
    return None


def mutate(r, tree, stats, path=""):
    """Fixture tree with free leaf values re-drawn; structure, tags and enumerations kept."""
    tag, attrs, children, data = tree
    na = {}
    for k, v in attrs.items():
        kind = infer_kind(k, v)
        if kind and isinstance(v, str):
            if k == "offline":
                na[k] = v
                continue
            nv = draw(r, kind, v)
            if k in ("from", "to") and "@" not in v:
                nv = v
            na[k] = nv
            stats["values"] = stats.get("values", 0) + 1
        else:
            na[k] = v
    nd = data
    if data is not None and tag not in ("proto", "enc") and len(data) > 0:
        if data.isdigit():
            nd = str(r.randint(0, 10 ** 6)).encode()
        elif tag == "type":
            nd = data          # key type: an enumeration constant
        elif tag in ("registration", "id", "value", "signature", "identity"):
            nd = gen.blob(r, len(data))
        else:
            nd = gen.blob(r, r.randint(1, 40))
        stats["values"] = stats.get("values", 0) + 1
    # repeated same-tag children: vary the count
    kids = [mutate(r, c, stats, path + "/" + tag) for c in children]
    tags = [c[0] for c in kids]
    if len(kids) >= 1 and len(set(tags)) == 1 and tags[0] in ("participant", "item", "user", "group", "add", "remove", "category", "key") and tag not in ("iq", "message", "notification"):
        n = r.choice([1, 1, 2, 3, 5])
        proto = children[0]
        kids = [mutate(r, proto, stats, path + "/" + tag) for _ in range(n)]
        # keys must stay distinct where entities keep dicts
        seen = set()
        out = []
        for c in kids:
            k = c[1].get("jid") or c[1].get("id") or c[1].get("name") or repr(c)
            if k in seen:
                continue
            seen.add(k)
            out.append(c)
        kids = out
        stats["lists"] = stats.get("lists", 0) + 1
    return (tag, na, kids, nd)


_fixtures = None


def fixtures():
    """[(fixture name, entity class, tree)] from the repository's own protocol-entity test modules."""
    global _fixtures
    if _fixtures is not None:
        return _fixtures
    from vf import treeeq
    import yowsup.layers as L
    root = os.path.dirname(L.__file__)
    out = []
    errors = []
    for dp, dn, fn in sorted(os.walk(root)):
        for f in sorted(fn):
            if f.startswith("test_") and f.endswith(".py") and "protocolentities" in dp:
                rel = os.path.relpath(os.path.join(dp, f), os.path.dirname(os.path.dirname(root)))
                m = rel[:-3].replace("/", ".")
                try:
                    mod = importlib.import_module(m)
                except Exception as e:  # noqa
                    errors.append((m, repr(e)[:120]))
                    continue
                for name, cls in inspect.getmembers(mod, inspect.isclass):
                    if issubclass(cls, unittest.TestCase) and cls.__module__ == m:
                        try:
                            t = cls("test_generation") if hasattr(cls, "test_generation") else cls()
                            t.setUp()
                            ent, node = getattr(t, "ProtocolEntity", None), getattr(t, "node", None)
                            if ent is not None and node is not None:
                                out.append((m.split(".")[-1][5:], ent, treeeq.to_tuple(node)))
                        except Exception as e:  # noqa
                            errors.append((m + ":" + name, repr(e)[:120]))
    _fixtures = (out, errors)
    return _fixtures


# ---------------------------------------------------------------------------------------------
# hand-written shapes: name -> (module, class name, builder(r) -> tree)
def _notif(r, typ, children, frm=None, participant=None, extra=None):
    a = {"id": draw(r, "id"), "from": frm or gen.jid(r), "t": draw(r, "ts"), "type": typ, "notify": draw(r, "text"), "offline": r.choice(["0", "1"])}
    if participant:
        a["participant"] = participant
    if extra:
        a.update(extra)
    return ("notification", a, children, None)


def _participants(r, lo=1, hi=5, typed=False):
    n = gen.count(r, lo, hi)
    seen, out = set(), []
    for _ in range(n):
        j = gen.jid(r)
        if j in seen:
            continue
        seen.add(j)
        a = {"jid": j}
        if typed and r.random() < 0.4:
            a["type"] = r.choice(["admin", "superadmin"])
        out.append(("participant", a, [], None))
    return out


def _group_node(r, typed=True):
    creator = gen.jid(r)
    return ("group", {"id": "%s-%s" % (gen.phone(r), draw(r, "ts")), "creator": creator, "creation": draw(r, "ts"), "subject": draw(r, "text"),
                      "s_t": draw(r, "ts"), "s_o": gen.jid(r)}, _participants(r, 1, 5, typed), None)


def h_groups_add(r):
    return _notif(r, "w:gp2", [("add", {}, _participants(r), None)], frm=gen.jid(r, True), participant=gen.jid(r))


def h_groups_remove(r):
    return _notif(r, "w:gp2", [("remove", {"subject": draw(r, "text")}, _participants(r), None)], frm=gen.jid(r, True), participant=gen.jid(r))


def h_groups_subject(r):
    return _notif(r, "w:gp2", [("subject", {"s_t": draw(r, "ts"), "s_o": gen.jid(r), "subject": draw(r, "text")}, [], None)], frm=gen.jid(r, True), participant=gen.jid(r))


def h_groups_create(r):
    return _notif(r, "w:gp2", [("create", {"type": "new", "key": "%s-%s@temp" % (gen.phone(r), gen.s_from(r, gen.HEXU, 8))}, [_group_node(r)], None)],
                  frm=gen.jid(r, True), participant=gen.jid(r))


def h_identity_change(r):
    return _notif(r, "encrypt", [("identity", {}, [], None)], frm=gen.jid(r))


def h_contacts_sync(r):
    return _notif(r, "contacts", [("sync", {"after": draw(r, "ts")}, [], None)], frm=gen.jid(r))


def _iq_result(r, frm, children, typ="result"):
    return ("iq", {"id": draw(r, "id"), "type": typ, "from": frm}, children, None)


def h_group_info(r):
    g = _group_node(r)
    return _iq_result(r, "%s@g.us" % g[1]["id"], [g])


def h_groups_list(r):
    seen, groups = set(), []
    for _ in range(gen.count(r, 0, 4)):
        g = _group_node(r, typed=True)
        if r.random() < 0.3:
            g = (g[0], g[1], [], None)
        if g[1]["id"] in seen:
            continue
        seen.add(g[1]["id"])
        groups.append(g)
    return _iq_result(r, "g.us", [("groups", {}, groups, None)])


def h_add_success(r):
    return _iq_result(r, gen.jid(r, True), [("add", {"type": "success", "participant": p[1]["jid"]}, [], None) for p in _participants(r)])


def h_remove_success(r):
    return _iq_result(r, gen.jid(r, True), [("remove", {"type": "success", "participant": p[1]["jid"]}, [], None) for p in _participants(r)])


def h_add_failure(r):
    return _iq_result(r, gen.jid(r, True), [("error", {"text": r.choice(["item-not-found", "not-authorized"]), "code": r.choice(["404", "401", "500"])}, [], None)], typ="error")


def h_leave_success(r):
    return _iq_result(r, "g.us", [("leave", {}, [("group", {"id": gen.jid(r, True)}, [], None)], None)])


def h_participants_list(r):
    return _iq_result(r, gen.jid(r, True), _participants(r, 1, 6))


def h_picture_result(r):
    return _iq_result(r, gen.jid(r), [("picture", {"type": r.choice(["image", "preview"]), "id": draw(r, "id")}, [], gen.blob(r, r.randint(1, 300)))])


def h_upload_result(r):
    """Answer to a media upload request: a fresh upload slot (with or without ip / resume offset) or 'already there'."""
    url = "https://mmg.whatsapp.net/u/%s" % gen.s_from(r, gen.ALNUM, 12)
    if r.random() < 0.4:
        a = {"url": url}
        kid = ("duplicate", a, [], None)
    else:
        a = {"url": url}
        if r.random() < 0.5:
            a["ip"] = "%d.%d.%d.%d" % tuple(r.randint(1, 254) for _ in range(4))
        if r.random() < 0.4:
            a["resume"] = str(r.choice([0, 1, 1024, r.randint(0, 10 ** 6)]))
        kid = ("encr_media", a, [], None)
    return _iq_result(r, S, [kid])


def h_statuses_result(r):
    users = []
    seen = set()
    for _ in range(gen.count(r, 1, 4)):
        j = gen.jid(r)
        if j in seen:
            continue
        seen.add(j)
        users.append(("user", {"jid": j, "t": draw(r, "ts")}, [], gen.unicode_text(r, 1, 20).encode("utf-8")))
    return _iq_result(r, S, [("status", {}, users, None)])


def h_lastseen_result(r):
    return _iq_result(r, gen.jid(r), [("query", {"seconds": draw(r, "num")}, [], None)])


def h_stream_features(r):
    return ("stream:features", {}, [(t, {}, [], None) for t in r.sample(["readreceipts", "groups_v2", "privacy", "presence"], r.randint(0, 3))], None)


def h_stream_error(r):
    kind = r.choice(["conflict", "ack", "xml-not-well-formed"])
    kids = [(kind, {}, [], None)]
    if kind == "conflict" and r.random() < 0.7:
        kids.append(("text", {}, [], b"Replaced by new connection"))
        if r.random() < 0.4:
            kids.reverse()          # (the condition and its text come in either order)
    return ("stream:error", {}, kids, None)


def h_account_ib(r):
    return ("ib", {}, [("account", {"status": r.choice(["active", "expired"]), "kind": r.choice(["paid", "free"]), "creation": draw(r, "ts"), "expiration": draw(r, "ts")}, [], None)], None)


def h_retry_receipt(r):
    mid = draw(r, "id")
    a = {"id": mid, "from": gen.jid(r), "t": draw(r, "ts"), "type": "retry"}
    if r.random() < 0.5:
        a["from"] = gen.jid(r, True)
        a["participant"] = gen.jid(r)
    if r.random() < 0.4:
        a["offline"] = r.choice(["0", "1"])
    return ("receipt", a, [("retry", {"count": str(r.choice([1, 2, 5, 9, 10, 255, r.randint(1, 1000)])), "id": mid, "v": "1", "t": draw(r, "ts")}, [], None),
                           ("registration", {}, [], gen.blob(r, 4))], None)


def h_receipt_list(r):
    """An incoming receipt covering several messages (documented shape of IncomingReceiptProtocolEntity with <list><item/>...)."""
    a = {"id": draw(r, "id"), "from": gen.jid(r), "t": draw(r, "ts")}
    if r.random() < 0.6:
        a["type"] = r.choice(["read", "played"])
    if r.random() < 0.4:
        a["from"] = gen.jid(r, True)
        a["participant"] = gen.jid(r)
    if r.random() < 0.4:
        a["offline"] = r.choice(["0", "1"])
    ids, seen = [], set()
    for _ in range(r.choice([1, 2, 3, 7])):
        i = draw(r, "id")
        if i not in seen:
            seen.add(i)
            ids.append(i)
    return ("receipt", a, [("list", {}, [("item", {"id": i}, [], None) for i in ids], None)], None)


def h_enc_message(r):
    a = {"id": draw(r, "id"), "from": gen.jid(r), "t": draw(r, "ts"), "type": r.choice(["text", "media"]), "notify": draw(r, "text")}
    if r.random() < 0.4:
        a["from"] = gen.jid(r, True)
        a["participant"] = gen.jid(r)
    a["offline"] = r.choice(["0", "1"])      # the documented message shape carries the offline flag
    if r.random() < 0.2:
        a["retry"] = str(r.choice([1, 2, 4, 9, 10, 255]))
    encs = []
    for typ in r.sample(["pkmsg", "msg", "skmsg"], r.randint(1, 2)):
        ea = {"type": typ, "v": "2"}
        if a["type"] == "media":
            ea["mediatype"] = r.choice(["image", "location", "contact", "url"])
        encs.append(("enc", ea, [], gen.blob(r, r.randint(20, 200))))
    return ("message", a, encs, None)


def _media_message(r, kind):
    """Incoming media message stanza whose proto payload is built with the protobuf runtime directly."""
    from vf.props import c10
    m = c10.M()
    pm = m["e2e"].Message()
    sub = getattr(pm, c10.KINDS[kind][1])
    c10.fill_proto(r, sub, c10.modelled_fields(), 1, p_set=0.7)
    # mandatory fields of downloadable media
    for f, v in (("mimetype", "application/octet-stream"), ("file_length", 10), ("file_sha256", b"\x01" * 32), ("width", 1), ("height", 1)):
        if f in sub.DESCRIPTOR.fields_by_name and not sub.HasField(f):
            setattr(sub, f, v)
    sub.SetInParent()
    a = {"id": draw(r, "id"), "from": gen.jid(r), "t": draw(r, "ts"), "type": "media", "notify": draw(r, "text"), "offline": r.choice(["0", "1"])}
    if r.random() < 0.4:
        a["from"] = gen.jid(r, True)
        a["participant"] = gen.jid(r)
    return ("message", a, [("proto", {"mediatype": kind}, [], pm.SerializeToString())], None)


def h_sticker(r):
    return _media_message(r, "sticker")


def h_document(r):
    return _media_message(r, "document")


HAND = {
    "groups_add": ("yowsup.layers.protocol_groups.protocolentities", "AddGroupsNotificationProtocolEntity", h_groups_add),
    "groups_remove": ("yowsup.layers.protocol_groups.protocolentities", "RemoveGroupsNotificationProtocolEntity", h_groups_remove),
    "groups_subject": ("yowsup.layers.protocol_groups.protocolentities", "SubjectGroupsNotificationProtocolEntity", h_groups_subject),
    "groups_create": ("yowsup.layers.protocol_groups.protocolentities", "CreateGroupsNotificationProtocolEntity", h_groups_create),
    "identity_change": ("yowsup.layers.axolotl.protocolentities", "IdentityChangeEncryptNotification", h_identity_change),
    "contacts_sync": ("yowsup.layers.protocol_contacts.protocolentities", "ContactsSyncNotificationProtocolEntity", h_contacts_sync),
    "group_info_result": ("yowsup.layers.protocol_groups.protocolentities", "InfoGroupsResultIqProtocolEntity", h_group_info),
    "groups_list_result": ("yowsup.layers.protocol_groups.protocolentities", "ListGroupsResultIqProtocolEntity", h_groups_list),
    "participants_add_success": ("yowsup.layers.protocol_groups.protocolentities", "SuccessAddParticipantsIqProtocolEntity", h_add_success),
    "participants_remove_success": ("yowsup.layers.protocol_groups.protocolentities", "SuccessRemoveParticipantsIqProtocolEntity", h_remove_success),
    "participants_add_failure": ("yowsup.layers.protocol_groups.protocolentities", "FailureAddParticipantsIqProtocolEntity", h_add_failure),
    "leave_success": ("yowsup.layers.protocol_groups.protocolentities", "SuccessLeaveGroupsIqProtocolEntity", h_leave_success),
    "participants_list": ("yowsup.layers.protocol_groups.protocolentities", "ListParticipantsResultIqProtocolEntity", h_participants_list),
    "picture_result": ("yowsup.layers.protocol_profiles.protocolentities", "ResultGetPictureIqProtocolEntity", h_picture_result),
    "statuses_result": ("yowsup.layers.protocol_profiles.protocolentities", "ResultStatusesIqProtocolEntity", h_statuses_result),
    "upload_result": ("yowsup.layers.protocol_media.protocolentities", "ResultRequestUploadIqProtocolEntity", h_upload_result),
    "lastseen_result": ("yowsup.layers.protocol_presence.protocolentities", "ResultLastseenIqProtocolEntity", h_lastseen_result),
    "stream_features": ("yowsup.layers.auth.protocolentities", "StreamFeaturesProtocolEntity", h_stream_features),
    "stream_error": ("yowsup.layers.auth.protocolentities", "StreamErrorProtocolEntity", h_stream_error),
    "account_ib": ("yowsup.layers.protocol_ib.protocolentities", "AccountIbProtocolEntity", h_account_ib),
    "receipt_list": ("yowsup.layers.protocol_receipts.protocolentities", "IncomingReceiptProtocolEntity", h_receipt_list),
    "retry_receipt": ("yowsup.layers.axolotl.protocolentities", "RetryIncomingReceiptProtocolEntity", h_retry_receipt),
    "encrypted_message": ("yowsup.layers.axolotl.protocolentities", "EncryptedMessageProtocolEntity", h_enc_message),
    "sticker_message": ("yowsup.layers.protocol_media.protocolentities", "StickerDownloadableMediaMessageProtocolEntity", h_sticker),
    "document_message": ("yowsup.layers.protocol_media.protocolentities", "DocumentDownloadableMediaMessageProtocolEntity", h_document),
}


def hand_class(name):
    mod, cls, _ = HAND[name]
    return getattr(importlib.import_module(mod), cls)
