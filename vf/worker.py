"""Worker process: runs one shard of one property and writes the accumulator as JSON."""
import importlib
import json
import sys
import traceback


def main():
    prop, specpath, outpath = sys.argv[1:4]
    from vf import env  # noqa: F401  (side effects: paths, shims, scratch)
    from vf.evidence import Acc
    with open(specpath) as f:
        spec = json.load(f)
    mod = importlib.import_module("vf.props.%s" % prop.lower())
    acc = Acc()
    try:
        if spec.get("kind") == "replay":
            mod.replay(spec, acc)
        else:
            mod.run(spec, acc)
    except BaseException:
        traceback.print_exc()
        acc.inconc("worker crashed: " + traceback.format_exc()[-1200:])
    env.cancel_watchdog()
    with open(outpath, "w") as f:
        json.dump(acc.dump(), f)
    sys.stdout.flush()


if __name__ == "__main__":
    main()
