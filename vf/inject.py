"""Injectors: crash points in forked children, line-level tick sources, yield injection, failpoints.

Nothing here edits the repository: sys.monitoring LINE callbacks, substituted module attributes, wrappers.
"""
import os
import sys
import time
import threading

TOOL = 3
CRASH_EXIT = 97


class Ticker(object):
    """Counts ticks from several sources; calls os._exit at tick `die_at` (1-based), if set."""

    def __init__(self, die_at=None):
        self.n = 0
        self.die_at = die_at
        self.kinds = []

    def tick(self, kind):
        self.n += 1
        self.kinds.append(kind)
        if self.die_at is not None and self.n == self.die_at:
            os._exit(CRASH_EXIT)


class LineTicks(object):
    """sys.monitoring LINE events inside the given files (suffix match) -> ticker.tick('line:<file>:<no>')."""

    def __init__(self, ticker, file_suffixes, funcs=None):
        self.ticker = ticker
        self.suffixes = tuple(file_suffixes)
        self.funcs = funcs
        self.active = False

    def __enter__(self):
        mon = sys.monitoring
        try:
            mon.use_tool_id(TOOL, "vf-inject")
        except ValueError:
            mon.free_tool_id(TOOL)
            mon.use_tool_id(TOOL, "vf-inject")

        def cb(code, lineno):
            fn = code.co_filename
            if not fn.endswith(self.suffixes):
                return mon.DISABLE
            if self.funcs is not None and code.co_name not in self.funcs:
                return mon.DISABLE
            self.ticker.tick("line:%s:%s:%d" % (fn.rsplit("/", 1)[-1], code.co_name, lineno))
        mon.register_callback(TOOL, mon.events.LINE, cb)
        mon.set_events(TOOL, mon.events.LINE)
        mon.restart_events()
        self.active = True
        return self

    def __exit__(self, *a):
        mon = sys.monitoring
        mon.set_events(TOOL, 0)
        mon.register_callback(TOOL, mon.events.LINE, None)
        mon.free_tool_id(TOOL)
        self.active = False


def run_in_child(fn, timeout=60):
    """Fork; run fn() in the child; child exits 0 when fn returns, CRASH_EXIT when a ticker killed it.
    Returns the exit status (or None on watchdog)."""
    sys.stdout.flush()
    sys.stderr.flush()
    pid = os.fork()
    if pid == 0:
        code = 0
        try:
            fn()
        except SystemExit:
            raise
        except BaseException:
            import traceback
            traceback.print_exc()
            code = 3
        finally:
            os._exit(code)
    t0 = time.time()
    while True:
        p, st = os.waitpid(pid, os.WNOHANG)
        if p == pid:
            return os.waitstatus_to_exitcode(st)
        if time.time() - t0 > timeout:
            os.kill(pid, 9)
            os.waitpid(pid, 0)
            return None
        time.sleep(0.0005)


class ChunkedFile(object):
    """File proxy: every write is cut into chunks that reach the OS one by one, with a tick between them."""

    def __init__(self, path, mode, ticker, chunk=7, fd=None):
        self._binary = "b" in mode
        if fd is None:
            flags = os.O_WRONLY | os.O_CREAT | (os.O_TRUNC if "w" in mode else os.O_APPEND)
            self._fd = os.open(path, flags, 0o644)
        else:
            self._fd = fd
        self._ticker = ticker
        self._chunk = chunk
        self._ticker.tick("open:%s" % (os.path.basename(path) if path else "fd"))

    def write(self, data):
        if not self._binary:
            if not isinstance(data, str):
                raise TypeError("write() argument must be str, not %s" % type(data).__name__)
            data = data.encode("utf-8")
        elif isinstance(data, str):
            raise TypeError("a bytes-like object is required, not 'str'")
        for i in range(0, len(data), self._chunk):
            os.write(self._fd, data[i:i + self._chunk])
            self._ticker.tick("chunk")
        return len(data)

    def flush(self):
        pass

    def close(self):
        if self._fd is not None:
            os.close(self._fd)
            self._fd = None
            self._ticker.tick("close")

    def __enter__(self):
        return self

    def __exit__(self, *a):
        self.close()


def chunked_open(ticker, chunk=7, real_open=open):
    def _open(path, mode="r", *a, **kw):
        if any(c in mode for c in "wa") and "+" not in mode:
            return ChunkedFile(path, mode, ticker, chunk)
        return real_open(path, mode, *a, **kw)
    return _open


def chunked_fdopen(ticker, chunk=7, real_fdopen=os.fdopen):
    def _fdopen(fd, mode="r", *a, **kw):
        if any(c in mode for c in "wa") and "+" not in mode:
            return ChunkedFile(None, mode, ticker, chunk, fd=fd)
        return real_fdopen(fd, mode, *a, **kw)
    return _fdopen


# ---------------------------------------------------------------------------------------------
class YieldInjector(object):
    """LINE events in chosen files: with probability p the running thread yields (sleep(0)) or sleeps briefly."""

    def __init__(self, rnd, file_suffixes, p=0.05, p_long=0.1, long_s=0.0005):
        self.rnd = rnd
        self.suffixes = tuple(file_suffixes)
        self.p = p
        self.p_long = p_long
        self.long_s = long_s
        self.yields = 0
        self.events = 0
        self._lock = threading.Lock()

    def __enter__(self):
        mon = sys.monitoring
        try:
            mon.use_tool_id(TOOL, "vf-yield")
        except ValueError:
            mon.free_tool_id(TOOL)
            mon.use_tool_id(TOOL, "vf-yield")
        rnd = self.rnd

        def cb(code, lineno):
            if not code.co_filename.endswith(self.suffixes):
                return mon.DISABLE
            with self._lock:
                self.events += 1
                x = rnd.random()
                do = x < self.p
                lng = do and rnd.random() < self.p_long
                if do:
                    self.yields += 1
            if do:
                time.sleep(self.long_s if lng else 0)
        mon.register_callback(TOOL, mon.events.LINE, cb)
        mon.set_events(TOOL, mon.events.LINE)
        mon.restart_events()
        return self

    def __exit__(self, *a):
        mon = sys.monitoring
        mon.set_events(TOOL, 0)
        mon.register_callback(TOOL, mon.events.LINE, None)
        mon.free_tool_id(TOOL)


# ---------------------------------------------------------------------------------------------
class PauseAt(object):
    """Race placement: the thread called `thread_name` is held at its k-th LINE event inside the chosen files for at most `hold`
    seconds (or until release()), once.  `at_point` is set when it is held; `where` names the place."""

    def __init__(self, file_suffixes, k, thread_name, hold=0.15, funcs=None):
        self.suffixes = tuple(file_suffixes)
        self.funcs = funcs
        self.k = k
        self.thread_name = thread_name
        self.hold = hold
        self.at_point = threading.Event()
        self.resume = threading.Event()
        self.where = None
        self.events = 0
        self._done = False

    def release(self):
        self.resume.set()

    def __enter__(self):
        mon = sys.monitoring
        try:
            mon.use_tool_id(TOOL, "vf-pause")
        except ValueError:
            mon.free_tool_id(TOOL)
            mon.use_tool_id(TOOL, "vf-pause")

        def cb(code, lineno):
            if not code.co_filename.endswith(self.suffixes):
                return mon.DISABLE
            if self._done or threading.current_thread().name != self.thread_name:
                return None
            if self.funcs is not None and code.co_name not in self.funcs:
                return None
            self.events += 1
            if self.events < self.k:
                return None
            self._done = True
            self.where = "%s:%s:%d" % (os.path.basename(code.co_filename), code.co_name, lineno)
            self.at_point.set()
            self.resume.wait(self.hold)
        mon.register_callback(TOOL, mon.events.LINE, cb)
        mon.set_events(TOOL, mon.events.LINE)
        mon.restart_events()
        return self

    def __exit__(self, *a):
        mon = sys.monitoring
        self.resume.set()
        mon.set_events(TOOL, 0)
        mon.register_callback(TOOL, mon.events.LINE, None)
        mon.free_tool_id(TOOL)
