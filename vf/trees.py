"""Generators of well-formed stanza trees (tuples (tag, attrs, children, data)) for C01/C02/C09.

Well-formed (C01's quantifier): non-empty Latin-1 strings not ending in '@' and not the two reserved
stream words; a node has binary content, or children, or neither.
"""
from vf import gen
from vf.refcodec import PRIMARY, SECONDARY

RESERVED = ("", "xmlstreamstart", "xmlstreamend")
WORDS = [w for w in PRIMARY + SECONDARY if w not in RESERVED]
LATIN1_NO_AT = "".join(chr(i) for i in range(1, 256) if chr(i) != "@")


def ok_string(s):
    return bool(s) and not s.endswith("@") and s not in RESERVED[1:]


def features(tree, acc=None, depth=0):
    """Feature tags of a tree (which format classes it exercises)."""
    f = set() if acc is None else acc
    tag, attrs, children, data = tree
    for role, s in [("tag", tag)] + [("key", k) for k in attrs] + [("val", v) for v in attrs.values()]:
        f.add(sclass(s))
    n = 1 + 2 * len(attrs) + (1 if children or data is not None else 0)
    f.add("hdr16" if n >= 256 else "hdr8")
    if data is not None:
        L = len(data)
        f.add("bin31" if L >= (1 << 20) else "bin20" if L >= 256 else "bin8")
        if depth > 0 and L >= (1 << 20):
            f.add("bin31-nested")
    if children:
        f.add("list16" if len(children) >= 256 else "list8")
        for c in children:
            features(c, f, depth + 1)
    return f


def sclass(s):
    if s in PRIMARY:
        return "s:token1"
    if s in SECONDARY:
        return "s:token2"
    if "@" in s:
        i = s.index("@")
        if i == 0:
            return "s:at-leading"
        if s.count("@") > 1:
            return "s:jid-nested"
        return "s:jid"
    L = len(s)
    if all(c in gen.NIBBLE for c in s):
        return "s:nibble<128" if L < 128 else "s:nibble>=128"
    if all(c in gen.HEXU for c in s):
        return "s:hex<128" if L < 128 else "s:hex>=128"
    if L >= (1 << 20):
        return "s:raw31"
    if L >= 256:
        return "s:raw20"
    if any(ord(c) > 127 for c in s):
        return "s:raw8-highbit"
    return "s:raw8"


def nontrivial(tree):
    f = features(tree)
    tag, attrs, children, data = tree
    has = bool(attrs) or bool(children) or data is not None
    interesting = f - {"s:token1", "hdr8", "bin8", "list8"}
    return has and bool(interesting)


# ---------------------------------------------------------------------------------------------
def rand_string(r, long_ok=True):
    c = r.random()
    if c < 0.22:
        return r.choice(WORDS)
    if c < 0.34:
        return gen.s_from(r, gen.NIBBLE, gen.boundary_len(r))
    if c < 0.44:
        return gen.s_from(r, gen.HEXU, gen.boundary_len(r))
    if c < 0.60:
        return rand_jid(r)
    if c < 0.72:
        return gen.s_from(r, gen.ALNUM + "_-:/. ", gen.boundary_len(r))
    if c < 0.84:
        s = gen.s_from(r, gen.LATIN1, gen.boundary_len(r))
        while s.endswith("@"):
            s = s[:-1] + "x"
        return s
    if c < 0.88:
        return "@" + gen.s_from(r, gen.ALNUM, r.randint(1, 10))
    if c < 0.94 and long_ok:
        n = r.choice([256, 257, 300, 1000, 4095, 4096, 65535, 65536, 70000])
        return gen.s_from(r, r.choice([gen.NIBBLE, gen.HEXU, gen.ALNUM, LATIN1_NO_AT]), n)
    return r.choice(["0", "1", "-", ".", "A", "F", "a", "x", "00", "A0", "\x01", "\xff"])


def rand_jid(r):
    c = r.random()
    server = r.choice(["s.whatsapp.net", "g.us", "broadcast", "c.us", "example.org", "lid", gen.s_from(r, gen.ALNUM + ".", r.randint(1, 12))])
    if c < 0.4:
        user = gen.s_from(r, gen.DIGITS, r.randint(1, 20))
    elif c < 0.55:
        user = "%s-%s" % (gen.s_from(r, gen.DIGITS, r.randint(5, 15)), gen.s_from(r, gen.DIGITS, 10))
    elif c < 0.7:
        user = gen.s_from(r, gen.ALNUM, r.randint(1, 16))
    elif c < 0.8:
        user = r.choice(WORDS)
    elif c < 0.9:
        user = gen.s_from(r, gen.HEXU, r.randint(1, 40))
    else:
        user = gen.s_from(r, LATIN1_NO_AT, r.randint(1, 10))
    s = user + "@" + server
    if r.random() < 0.1:
        s = s + "@" + r.choice(["x", "g.us", "1"])
    while s.endswith("@"):
        s += "x"
    return s


def rand_size(r, maxdata):
    c = r.random()
    if c < 0.35:
        return r.randint(0, 40)
    if c < 0.6:
        return r.choice([0, 1, 127, 128, 254, 255, 256, 257, 65535, 65536, 65537])
    if c < 0.9:
        return r.randint(0, 5000)
    # log-uniform up to maxdata
    import math
    return min(maxdata, int(math.exp(r.uniform(math.log(256), math.log(maxdata)))))


def rand_data(r, n):
    c = r.random()
    if n == 0:
        return b""
    if c < 0.15:
        return r.choice(WORDS).encode("latin-1")
    if c < 0.3 and n < 300:
        return gen.s_from(r, r.choice([gen.NIBBLE, gen.HEXU]), n).encode()
    if c < 0.35:
        return rand_jid(r).encode("latin-1")
    if n > 4096:
        unit = gen.blob(r, 1024)
        return (unit * (n // 1024 + 1))[:n]
    return gen.blob(r, n)


def rand_tree(r, depth=0, maxdepth=4, maxdata=1 << 16, budget=None):
    budget = budget if budget is not None else [r.choice([5, 20, 60, 400])]
    tag = rand_string(r, long_ok=r.random() < 0.3)
    c = r.random()
    nattr = 0 if c < 0.2 else (r.randint(1, 6) if c < 0.9 else r.choice([127, 128, 129, 200]))
    if nattr > 100 and budget[0] < 100:
        nattr = r.randint(1, 6)
    attrs = {}
    while len(attrs) < nattr:
        k = rand_string(r, long_ok=False) if nattr < 20 else gen.s_from(r, gen.ALNUM, 6)
        attrs[k] = rand_string(r, long_ok=r.random() < 0.2) if nattr < 20 else gen.s_from(r, gen.ALNUM + gen.DIGITS, r.randint(1, 4))
    budget[0] -= 1
    kind = r.random()
    children, data = [], None
    if depth >= maxdepth or budget[0] <= 0:
        kind = min(kind, 0.69)
    if kind < 0.3:
        pass
    elif kind < 0.7:
        data = rand_data(r, rand_size(r, maxdata))
    else:
        c2 = r.random()
        nch = r.randint(1, 4) if c2 < 0.85 else r.choice([127, 128, 255, 256, 300])
        if nch > 100:
            if budget[0] > 300 or depth == 0:
                children = [(r.choice(["item", "user", "x1"]), {"i": str(i)} if r.random() < 0.5 else {}, [], None) for i in range(nch)]
            else:
                nch = r.randint(1, 4)
        if not children:
            for _ in range(nch):
                children.append(rand_tree(r, depth + 1, maxdepth, maxdata, budget))
    return (tag, attrs, children, data)


# ---------------------------------------------------------------------------------------------
def big(n, fill=0x41):
    unit = bytes((fill + i) % 256 for i in range(251))
    return (unit * (n // 251 + 1))[:n]


def sweep(part=None, big_sizes=True):
    """Systematic cases, (id, tree). `part` selects a slice (i, n) of the sweep."""
    k = 0

    def mine():
        nonlocal k
        k += 1
        return part is None or (k % part[1]) == part[0]

    # every dictionary word in the three string positions
    for i, w in enumerate(WORDS):
        if mine():
            yield "word/tag/%d" % i, (w, {}, [], None)
        if mine():
            yield "word/key/%d" % i, ("x", {w: "v1"}, [], None)
        if mine():
            yield "word/val/%d" % i, ("x", {"k": w}, [], None)
    # packed strings of every length 1..255 (value position and JID user position, tag position)
    for n in range(1, 256):
        nib = ("1234567890-." * 22)[:n]
        hx = ("0123456789ABCDEF" * 16)[:n]
        hx_only = ("ABCDEF" * 43)[:n]
        if mine():
            yield "pack/nib/%d" % n, ("x", {"v": nib, "w": nib[::-1]}, [], None)
        if mine():
            yield "pack/hex/%d" % n, ("x", {"v": hx_only, "w": ("F" + hx)[:n]}, [], None)
        if mine():
            yield "pack/jiduser/%d" % n, ("x", {"j": nib + "@s.whatsapp.net", "h": hx_only + "@g.us"}, [], None)
        if mine():
            yield "pack/tag/%d" % n, (nib, {hx_only: "1"}, [], None)
        if mine():
            yield "pack/lastF/%d" % n, ("x", {"v": (hx_only + "F")[-n:] if n > 1 else "F"}, [], None)
    # '@' positions
    ats = ["1@s.whatsapp.net", "a@b", "@lead", "@", "a@b@c", "user@@x", "1-2@g.us", "x@1", "@a@b", "a@s.whatsapp.net@g.us",
           "49123@s.whatsapp.net", "type@id", "A@F", "-@."]
    for i, s in enumerate(ats):
        if not ok_string(s):
            continue
        if mine():
            yield "at/val/%d" % i, ("x", {"k": s}, [], None)
        if mine():
            yield "at/tag/%d" % i, (s, {}, [], None)
        if mine():
            yield "at/key/%d" % i, ("x", {s: "1"}, [], None)
    # raw string lengths around the width boundaries
    for n in (1, 2, 127, 128, 254, 255, 256, 257, 1000, 65535, 65536, 70000):
        s = ("ab cd_" * (n // 6 + 1))[:n]
        if mine():
            yield "rawlen/val/%d" % n, ("x", {"k": s}, [], None)
        if mine():
            yield "rawlen/tag/%d" % n, (s, {}, [], None)
        nb = ("0123456789" * (n // 10 + 1))[:n]
        if mine():
            yield "rawlen/digits/%d" % n, ("x", {"k": nb}, [], None)
    # content sizes
    sizes = [0, 1, 255, 256, 257, 65535, 65536]
    if big_sizes:
        sizes += [(1 << 20) - 1, 1 << 20, (1 << 20) + 1]
    for n in sizes:
        leaf = ("enc", {"v": "2"}, [], big(n))
        if mine():
            yield "data/alone/%d" % n, leaf
        if mine():
            yield "data/sibling/%d" % n, ("message", {"id": "A1"}, [leaf, ("c", {"k": "v"}, [], None)], None)
        if mine():
            yield "data/sibling-before/%d" % n, ("message", {}, [("c", {"k": "v"}, [], None), leaf, ("d", {}, [], b"tail")], None)
        if mine():
            yield "data/nested2/%d" % n, ("a", {}, [("b", {"x": "1"}, [leaf, ("after", {"p": "q"}, [], b"zz")], None), ("c2", {}, [], None)], None)
    # list sizes
    for n in (1, 2, 127, 128, 255, 256, 300):
        if mine():
            yield "children/%d" % n, ("list", {}, [("item", {"i": str(i)}, [], None) for i in range(n)], None)
    for n in (0, 1, 126, 127, 128, 200):
        attrs = {"k%03d" % i: "v%d" % i for i in range(n)}
        if mine():
            yield "attrs/%d" % n, ("x", attrs, [], None)
        if mine():
            yield "attrs+data/%d" % n, ("x", dict(attrs), [], b"payload")
        if mine():
            yield "attrs+children/%d" % n, ("x", dict(attrs), [("c", {}, [], None)], None)
    # every byte value as content / as a one-char string
    if mine():
        yield "data/allbytes", ("x", {}, [], bytes(range(256)))
    for b in range(1, 256):
        if chr(b) == "@":
            continue
        if mine():
            yield "char/%d" % b, ("x", {"k": chr(b), chr(b): "v"}, [], None)
