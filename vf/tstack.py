"""Transport harness: real segments + noise + coder layers between a wire probe and a top probe, and a NoiseServer.

The harness thread plays the network thread (delivers server bytes through the bottom probe); the library's own
handshake worker thread runs the client side of the handshake.
"""
import os
import threading
import time

from vf import noisepeer, probes, refcodec, treeeq


def make_profile(name, phone="4915112345678", server_static=None, edge_routing_info=None, pushname="Verif", keypair=None,
                 create_dir=True):
    from yowsup.config.v1.config import Config
    from yowsup.profile.profile import YowProfile
    from yowsup.common.tools import StorageTools
    from consonance.structs.keypair import KeyPair
    from consonance.structs.publickey import PublicKey
    kp = keypair or KeyPair.generate()
    cfg = Config(phone=phone, cc=phone[:2], pushname=pushname, client_static_keypair=kp,
                 server_static_public=PublicKey(server_static) if server_static else None,
                 edge_routing_info=edge_routing_info, mcc="262", mnc="01", fdid="fd-" + name)
    prof = YowProfile(name, cfg)
    if create_dir:
        os.makedirs(StorageTools.getStorageForProfile(name), exist_ok=True)
    return prof


class Wire(probes.Probe):
    """Bottom probe: everything the stack writes goes to .outbytes (and to the current server, if attached)."""

    def __init__(self):
        super(Wire, self).__init__("wire", forward_down=False)
        self.server = None
        self.wlock = threading.Lock()
        self.writes = []          # (thread id, bytes)
        self.after_feed = None    # callback(bytes) run in the writing thread after the server took the bytes (a write may block)

    def send(self, data):
        b = bytes(data)
        with self.wlock:
            self.writes.append((threading.get_ident(), b))
            if self.server is not None:
                self.server.feed(b)
        if self.after_feed is not None:
            self.after_feed(b)


class Transport(object):
    def __init__(self, profile, with_coder=True, extra_top=None, with_auth=False):
        from yowsup.stacks import YowStack
        from yowsup.layers.noise.layer import YowNoiseLayer
        from yowsup.layers.noise.layer_noise_segments import YowNoiseSegmentsLayer
        from yowsup.layers.coder import YowCoderLayer
        self.wire = Wire()
        self.top = probes.Probe("top")
        layers = [self.wire, YowNoiseSegmentsLayer, YowNoiseLayer]
        if with_coder:
            layers.append(YowCoderLayer)
        layers.append(self.top)
        self.with_auth = with_auth
        if with_auth:
            # the library's authentication layer above the recording probe: logins are then started the way the library does it,
            # by the 'connected' announcement of the network layer (here: of the wire)
            from yowsup.layers.auth import YowAuthenticationProtocolLayer
            layers.append(YowAuthenticationProtocolLayer)
        self.stack = YowStack(tuple(layers), reversed=False, props={"profile": profile})
        self.noise = self.stack.getLayer(2)
        self.profile = profile
        self.server = None
        self.net = None
        self.net_stack = None

    def attach(self, server):
        self.server = server
        self.wire.server = server

    def auth(self, passive=False):
        from yowsup.layers import YowLayerEvent
        from yowsup.layers.auth import YowAuthenticationProtocolLayer
        if getattr(self, "with_auth", False):
            from yowsup.layers.network import YowNetworkLayer
            self.stack.setProp(YowAuthenticationProtocolLayer.PROP_PASSIVE, passive)
            self.wire.emitEvent(YowLayerEvent(YowNetworkLayer.EVENT_STATE_CONNECTED))
            return
        self.stack.broadcastEvent(YowLayerEvent(YowAuthenticationProtocolLayer.EVENT_AUTH, passive=passive))

    def disconnected(self):
        """The connection went down: announced the way the network layer does (detached: its direct upper neighbour handles
        the event at once, the layers above when the stack's loop runs - here right afterwards, in the caller)."""
        from yowsup.layers import YowLayerEvent
        from yowsup.layers.network import YowNetworkLayer
        self.wire.emitEvent(YowLayerEvent(YowNetworkLayer.EVENT_STATE_DISCONNECTED, reason="test", detached=True))
        self.pump_deferred()

    def pump_deferred(self):
        import queue
        from yowsup.stacks import YowStack
        q = YowStack._YowStack__detachedQueue
        n = 0
        while True:
            try:
                cb = q.get(False)
            except queue.Empty:
                return n
            cb()
            n += 1

    def deliver(self, data):
        """Hand bytes to the harness's network thread (the only thread that calls into the stack from below)."""
        if self.net is None:
            self.net = NetThread(self.wire)
            self.net.start()
        self.net.put(data)

    def net_sync(self, timeout=20.0):
        """Wait until the network thread has delivered everything. Returns 'ok', 'raised', 'blocked' or 'timeout'."""
        if self.net is None:
            return "ok"
        t0 = time.time()
        while True:
            if self.net.idle():
                return "raised" if self.net.errors else "ok"
            if time.time() - t0 > timeout:
                st = probes.thread_states([self.net])
                frames = st.get(self.net.name, [])
                self.net_stack = frames[:8]
                return "blocked" if probes.parked_forever(frames) or probes.blocked_on_lock(frames) else "timeout"
            time.sleep(0.0003)

    def close(self):
        if self.net is not None:
            self.net.stop()

    def worker_threads(self):
        return [t for t in threading.enumerate() if t.__class__.__name__ == "WANoiseProtocolHandshakeWorker"]

    def wait(self, cond, timeout=20.0, poll=0.0005):
        """Polls cond(); returns True as soon as it holds. A timeout is reported as 'blocked' with thread states."""
        t0 = time.time()
        while True:
            if cond():
                return True
            if time.time() - t0 > timeout:
                return False
            time.sleep(poll)

    def quiescent_blocked(self):
        """True when every handshake worker is parked in an untimed wait (no timer can wake it)."""
        st = probes.thread_states()
        ws = [n for n in st if n.startswith("Thread-") or "Handshake" in n]
        return ws and all(probes.parked_forever(st[n]) for n in ws)


class NetThread(threading.Thread):
    def __init__(self, wire):
        super(NetThread, self).__init__(name="verif-net-%d" % id(wire))
        self.daemon = True
        self.wire = wire
        self.q = []
        self.cv = threading.Condition()
        self.busy = False
        self.errors = []
        self.stopped = False

    def put(self, data):
        with self.cv:
            self.q.append(data)
            self.cv.notify()

    def idle(self):
        with self.cv:
            return not self.q and not self.busy

    def stop(self):
        with self.cv:
            self.stopped = True
            self.cv.notify()

    def run(self):
        while True:
            with self.cv:
                while not self.q and not self.stopped:
                    self.cv.wait(0.5)
                if self.stopped and not self.q:
                    return
                data = self.q.pop(0)
                self.busy = True
            try:
                self.wire.receive(data)
            except Exception as e:  # noqa
                import traceback
                self.errors.append((type(e).__name__, str(e), [fs.name for fs in traceback.extract_tb(e.__traceback__) if "/yowsup/" in fs.filename or "consonance" in fs.filename][-3:]))
            finally:
                with self.cv:
                    self.busy = False


def decode_frames(payloads):
    return [refcodec.decode(p) for p in payloads]
