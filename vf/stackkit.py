"""Assembled protocol stacks between probes, for C06/C07/C08 (no network, no noise: stanza trees in, stanza trees out)."""
import itertools

from vf import probes

FLAGS = ["groups", "media", "privacy", "profiles"]


def selections():
    for bits in itertools.product([False, True], repeat=4):
        yield dict(zip(FLAGS, bits))


def sel_name(sel):
    return "+".join(k for k in FLAGS if sel[k]) or "basic"


_profile_counter = [0]


def make_profile():
    from vf import tstack
    _profile_counter[0] += 1
    return tstack.make_profile("kit%d" % _profile_counter[0], phone="4915%08d" % _profile_counter[0])


class Kit(object):
    """bottom probe | [control, (send, receive), mid probe] | protocol group | top (probe or given layer instance)."""

    def __init__(self, sel, with_enc, top=None, profile=None, props=None):
        from yowsup.stacks import YowStack, YowStackBuilder
        from yowsup.layers import YowParallelLayer, YowLayerEvent
        from yowsup.layers.axolotl import AxolotlSendLayer, AxolotlControlLayer, AxolotlReceivelayer
        from yowsup.layers.network import YowNetworkLayer
        from yowsup.layers.protocol_iq import YowIqProtocolLayer
        self.sel, self.with_enc = sel, with_enc
        self.bottom = probes.Probe("bottom", forward_down=False)
        self.mid = probes.Probe("mid")
        self.top = top if top is not None else probes.Probe("top", forward_up=False)
        layers = [self.bottom]
        if with_enc:
            layers += [AxolotlControlLayer, YowParallelLayer((AxolotlSendLayer, AxolotlReceivelayer))]
        layers += [self.mid, YowParallelLayer(YowStackBuilder.getProtocolLayers(**sel)), self.top]
        self.profile = profile or make_profile()
        p_ = {"profile": self.profile, YowIqProtocolLayer.PROP_PING_INTERVAL: 0}
        p_.update(props or {})
        p_ = {k: v for k, v in p_.items() if v is not Ellipsis}      # (Ellipsis: leave the property unset)
        self.stack = YowStack(tuple(layers), reversed=False, props=p_)
        self.group = self.stack.getLayer(len(layers) - 2)
        if with_enc:
            from yowsup.axolotl.manager import AxolotlManager
            old = AxolotlManager.COUNT_GEN_PREKEYS
            AxolotlManager.COUNT_GEN_PREKEYS = 3
            try:
                # the axolotl layers take their manager from the profile when a connection comes up
                self.stack.emitEvent(YowLayerEvent(YowNetworkLayer.EVENT_STATE_CONNECTED))
            finally:
                AxolotlManager.COUNT_GEN_PREKEYS = old
        self.clear()

    def clear(self):
        self.bottom.clear()
        self.mid.clear()
        if isinstance(self.top, probes.Probe):
            self.top.clear()

    def sublayer(self, clsname):
        for s in self.group.sublayers:
            if s.__class__.__name__ == clsname:
                return s
        return None

    def inject(self, tree):
        """A stanza arriving from the wire."""
        from vf import treeeq
        self.bottom.receive(treeeq.to_node(tree))

    def send(self, entity):
        """An entity sent by the application (from above the protocol group)."""
        if isinstance(self.top, probes.Probe):
            self.top.send(entity)
        else:
            self.top.toLower(entity)


def owner_module(cls):
    """The optional module an entity class belongs to (the package that defines it), or None for the basic set."""
    m = cls.__module__
    for flag, pkg in (("groups", "protocol_groups"), ("media", "protocol_media"), ("privacy", "protocol_privacy"), ("profiles", "protocol_profiles")):
        if ".%s." % pkg in m:
            return flag
    return None
