"""Server side of WhatsApp's Noise_XX / IK / XXfallback_25519_AESGCM_SHA256 transport: responder double + strict peer.

Built on dissononce's HandshakeState (third party, trusted) with WhatsApp's "no MixHash while the cipher has no key"
quirk applied on the responder side as well. After the handshake it decrypts client->server segments strictly in
counter order (any reordering, duplication or torn frame is a decrypt failure) and encrypts server->client frames.
"""
import struct

from dissononce.processing.impl.handshakestate import HandshakeState
from dissononce.processing.impl.symmetricstate import SymmetricState
from dissononce.processing.impl.cipherstate import CipherState
from dissononce.processing.handshakepatterns.interactive.IK import IKHandshakePattern
from dissononce.processing.handshakepatterns.interactive.XX import XXHandshakePattern
from dissononce.processing.modifiers.fallback import FallbackPatternModifier
from dissononce.cipher.aesgcm import AESGCMCipher
from dissononce.hash.sha256 import SHA256Hash
from dissononce.dh.x25519.x25519 import X25519DH
from dissononce.dh.x25519.public import PublicKey
from dissononce.exceptions.decrypt import DecryptFailedException
from consonance.proto import wa20_pb2

PROLOGUE = b"WA\x04\x00"
EDGE = b"ED\x00\x01"


class WAServerSymmetricState(SymmetricState):
    def encrypt_and_hash(self, plaintext):
        ct = self._cipherstate.encrypt_with_ad(self._h, plaintext)
        if self._cipherstate.has_key():
            self.mix_hash(ct)
        return ct

    def decrypt_and_hash(self, ciphertext):
        had_key = self._cipherstate.has_key()
        pt = self._cipherstate.decrypt_with_ad(self._h, ciphertext)
        if had_key:
            self.mix_hash(ciphertext)
        return pt


def new_handshakestate():
    return HandshakeState(WAServerSymmetricState(CipherState(AESGCMCipher()), SHA256Hash()), X25519DH())


def gen_static():
    return X25519DH().generate_keypair()


def frame(seg):
    return struct.pack(">I", len(seg))[1:] + seg


def certificate(static_pub_bytes, issuer="VerifHarness"):
    d = wa20_pb2.NoiseCertificate.Details()
    d.serial = 1
    d.issuer = issuer
    d.key = static_pub_bytes
    c = wa20_pb2.NoiseCertificate()
    c.details = d.SerializeToString()
    c.signature = b"\x00" * 64
    return c.SerializeToString()


class NoiseServer(object):
    """One server-side connection. feed() client bytes; replies accumulate in .out (bytes to deliver to the client)."""

    def __init__(self, static=None, corrupt_reply=False):
        self.static = static or gen_static()
        self.buf = bytearray()
        self.state = "prologue"      # prologue -> hello -> (finish) -> transport | error
        self.variant = None          # "XX" | "IK" | "XXfallback"
        self.hs = None
        self.send_cs = None
        self.recv_cs = None
        self.client_payload = None
        self.routing_info = None
        self.received = []           # decrypted client->server transport payloads, in order
        self.out = bytearray()       # bytes for the client
        self.errors = []
        self.corrupt_reply = corrupt_reply
        self.frames_in = 0
        self.raw_in = 0

    @property
    def static_public(self):
        return self.static.public.data

    # -- input ------------------------------------------------------------------------------
    def feed(self, data):
        self.raw_in += len(data)
        self.buf.extend(data)
        try:
            self._advance()
        except Exception as e:  # noqa: any parse/crypto failure is a protocol error of the byte stream
            self.errors.append("%s: %s" % (type(e).__name__, e))
            self.state = "error"

    def _take_frame(self):
        if len(self.buf) < 3:
            return None
        n = (self.buf[0] << 16) | (self.buf[1] << 8) | self.buf[2]
        if len(self.buf) < 3 + n:
            return None
        seg = bytes(self.buf[3:3 + n])
        del self.buf[:3 + n]
        self.frames_in += 1
        return seg

    def _advance(self):
        while self.state != "error":
            if self.state == "prologue":
                if len(self.buf) < 4:
                    return
                if bytes(self.buf[:4]) == EDGE:
                    if len(self.buf) < 7:
                        return
                    n = (self.buf[4] << 16) | (self.buf[5] << 8) | self.buf[6]
                    if len(self.buf) < 7 + n + 4:
                        return
                    self.routing_info = bytes(self.buf[7:7 + n])
                    del self.buf[:7 + n]
                if bytes(self.buf[:4]) != PROLOGUE:
                    raise ValueError("connection does not start with the prologue: %r" % bytes(self.buf[:8]))
                del self.buf[:4]
                self.state = "hello"
                continue
            seg = self._take_frame()
            if seg is None:
                return
            if self.state == "hello":
                self._on_client_hello(seg)
            elif self.state == "finish":
                self._on_client_finish(seg)
            elif self.state == "transport":
                try:
                    self.received.append(bytes(self.recv_cs.decrypt_with_ad(b"", seg)))
                except DecryptFailedException:
                    raise ValueError("transport frame %d cannot be decrypted in counter order (len %d)" % (len(self.received), len(seg)))

    def _on_client_hello(self, seg):
        m = wa20_pb2.HandshakeMessage()
        m.ParseFromString(seg)
        if not m.HasField("client_hello"):
            raise ValueError("first segment is not a client hello")
        ch = m.client_hello
        self.hs = new_handshakestate()
        if ch.HasField("static") and len(ch.static):
            # IK attempt
            self.hs.initialize(handshake_pattern=IKHandshakePattern(), initiator=False, prologue=PROLOGUE, s=self.static)
            payload = bytearray()
            try:
                self.hs.read_message(ch.ephemeral + ch.static + ch.payload, payload)
            except DecryptFailedException:
                # client used another server key: answer with XXfallback
                self.variant = "XXfallback"
                self.hs = new_handshakestate()
                self.hs.initialize(handshake_pattern=FallbackPatternModifier().modify(XXHandshakePattern()), initiator=False,
                                   prologue=PROLOGUE, s=self.static, re=PublicKey(ch.ephemeral))
                self._send_server_hello_full()
                self.state = "finish"
                return
            self.variant = "IK"
            self._set_payload(bytes(payload))
            buf = bytearray()
            pair = self.hs.write_message(b"", buf)
            sh = wa20_pb2.HandshakeMessage.ServerHello()
            sh.ephemeral = bytes(buf[:32])
            sh.payload = self._maybe_corrupt(bytes(buf[32:]))
            out = wa20_pb2.HandshakeMessage()
            out.server_hello.MergeFrom(sh)
            self.out += frame(out.SerializeToString())
            self._transport(pair)
        else:
            self.variant = "XX"
            self.hs.initialize(handshake_pattern=XXHandshakePattern(), initiator=False, prologue=PROLOGUE, s=self.static)
            self.hs.read_message(ch.ephemeral, bytearray())
            self._send_server_hello_full()
            self.state = "finish"

    def _maybe_corrupt(self, b):
        if self.corrupt_reply and b:
            return b[:-1] + bytes([b[-1] ^ 0x55])
        return b

    def _send_server_hello_full(self):
        buf = bytearray()
        self.hs.write_message(certificate(self.static.public.data), buf)
        sh = wa20_pb2.HandshakeMessage.ServerHello()
        sh.ephemeral = bytes(buf[:32])
        sh.static = bytes(buf[32:80])
        sh.payload = self._maybe_corrupt(bytes(buf[80:]))
        out = wa20_pb2.HandshakeMessage()
        out.server_hello.MergeFrom(sh)
        self.out += frame(out.SerializeToString())

    def _on_client_finish(self, seg):
        m = wa20_pb2.HandshakeMessage()
        m.ParseFromString(seg)
        if not m.HasField("client_finish"):
            raise ValueError("expected client finish")
        payload = bytearray()
        pair = self.hs.read_message(m.client_finish.static + m.client_finish.payload, payload)
        self._set_payload(bytes(payload))
        self._transport(pair)

    def _set_payload(self, b):
        cp = wa20_pb2.ClientPayload()
        cp.ParseFromString(b)
        self.client_payload = cp

    def _transport(self, pair):
        if pair is None:
            raise ValueError("handshake did not yield cipher states")
        # Split(): first cipher state is initiator->responder
        self.recv_cs, self.send_cs = pair[0], pair[1]
        self.state = "transport"

    # -- output -----------------------------------------------------------------------------
    def encrypt(self, plaintext):
        """Framed transport segment for the client (counter advances)."""
        assert self.state == "transport"
        return frame(bytes(self.send_cs.encrypt_with_ad(b"", bytes(plaintext))))

    def take_out(self):
        b = bytes(self.out)
        del self.out[:]
        return b

    @property
    def client_static(self):
        return bytes(self.hs.rs.data) if self.hs is not None and self.hs.rs is not None else None
