"""Independent implementation of the WhatsApp binary-XML frame, written from the format description.

Frame   := flags(1 byte; bit 1 = remainder is zlib-deflated) node
node    := list-header(n) string(tag) { string(key) string(value) }*  [ content ]      n = 1 + 2*attrs + (1 if content)
list    := 0x00 (empty) | 0xF8 n8 | 0xF9 n16
content := list of nodes | binary | string-form
binary  := 0xFC len8 bytes | 0xFD len20 bytes | 0xFE len31 bytes   (len20: 3 bytes, top nibble of the first ignored;
                                                                    len31: 4 bytes big endian, top bit ignored)
string  := token (3..235: primary dictionary) | 0xEC..0xEF idx (secondary dictionary page 0..3)
         | 0xFA string-or-0 string (JID pair user@server; user 0x00 = server only)
         | 0xFF packed (alphabet 0-9 - . ; nibble 15 pads an odd count) | 0xFB packed (alphabet 0-9 A-F)
         | binary forms above read as Latin-1 text
packed  := b(1 byte: bit 7 = odd number of symbols, bits 0..6 = number of bytes) bytes

Trees are plain tuples (tag, attrs, children, data). Shares no code with yowsup's encoder/decoder; the
token tables come from the frozen copy data/tokens.json.
"""
import hashlib
import json
import os
import zlib

_DATA = os.path.join(os.path.dirname(os.path.dirname(os.path.abspath(__file__))), "data", "tokens.json")
_tok = json.load(open(_DATA))
PRIMARY = _tok["primary"]
SECONDARY = _tok["secondary"]
assert hashlib.sha256(json.dumps({"primary": PRIMARY, "secondary": SECONDARY}, sort_keys=True).encode()).hexdigest() == _tok["sha256"]
assert len(PRIMARY) == 236 and len(SECONDARY) == 1024

_P_INDEX = {}
for _i, _w in enumerate(PRIMARY):
    _P_INDEX.setdefault(_w, []).append(_i)
_S_INDEX = {}
for _i, _w in enumerate(SECONDARY):
    _S_INDEX.setdefault(_w, []).append(_i)

NIB = "0123456789-."
HEX = "0123456789ABCDEF"


class FormatError(Exception):
    pass


# =============================================================================================
# decoder
class _Cur(object):
    __slots__ = ("b", "i")

    def __init__(self, b):
        self.b = b
        self.i = 0

    def u8(self):
        if self.i >= len(self.b):
            raise FormatError("unexpected end of frame at %d" % self.i)
        v = self.b[self.i]
        self.i += 1
        return v

    def take(self, n):
        if self.i + n > len(self.b):
            raise FormatError("length %d exceeds remaining %d bytes at %d" % (n, len(self.b) - self.i, self.i))
        v = self.b[self.i:self.i + n]
        self.i += n
        return v


def _list_size(c, t):
    if t == 0:
        return 0
    if t == 0xF8:
        return c.u8()
    if t == 0xF9:
        return (c.u8() << 8) | c.u8()
    raise FormatError("byte %d is not a list header" % t)


def _binlen(c, t):
    if t == 0xFC:
        return c.u8()
    if t == 0xFD:
        return ((c.u8() & 0x0F) << 16) | (c.u8() << 8) | c.u8()
    if t == 0xFE:
        return ((c.u8() & 0x7F) << 24) | (c.u8() << 16) | (c.u8() << 8) | c.u8()
    raise FormatError("not a binary header %d" % t)


def _packed(c, t):
    h = c.u8()
    odd, n = h >> 7, h & 0x7F
    raw = c.take(n)
    alpha = NIB if t == 0xFF else HEX
    out = []
    for k, byte in enumerate(raw):
        for half, v in ((0, byte >> 4), (1, byte & 15)):
            last = (k == n - 1 and half == 1)
            if last and odd:
                if v != 15:
                    raise FormatError("odd packed string not padded with 15")
                continue
            if v >= len(alpha):
                raise FormatError("packed symbol %d outside alphabet" % v)
            out.append(alpha[v])
    if odd and n == 0:
        raise FormatError("odd flag on empty packed string")
    return "".join(out)


def _string(c, t, allow_none=False):
    if t == 0:
        if allow_none:
            return None
        raise FormatError("empty-string token where a string is required")
    if 3 <= t <= 235:
        return PRIMARY[t]
    if 0xEC <= t <= 0xEF:
        return SECONDARY[(t - 0xEC) * 256 + c.u8()]
    if t == 0xFA:
        user = _string(c, c.u8(), allow_none=True)
        server = _string(c, c.u8())
        return server if user is None else user + "@" + server
    if t in (0xFF, 0xFB):
        return _packed(c, t)
    if t in (0xFC, 0xFD, 0xFE):
        return bytes(c.take(_binlen(c, t))).decode("latin-1")
    raise FormatError("byte %d cannot start a string" % t)


def _node(c):
    n = _list_size(c, c.u8())
    if n == 0:
        raise FormatError("node with empty list")
    tag = _string(c, c.u8())
    attrs = {}
    for _ in range((n - 1) // 2):
        k = _string(c, c.u8())
        v = _string(c, c.u8())
        attrs[k] = v
    children, data = [], None
    if n % 2 == 0:
        t = c.u8()
        if t in (0, 0xF8, 0xF9):
            children = [_node(c) for _ in range(_list_size(c, t))]
        elif t in (0xFC, 0xFD, 0xFE):
            data = bytes(c.take(_binlen(c, t)))
        else:
            data = _string(c, t).encode("latin-1")
    return (tag, attrs, children, data)


def decode(frame):
    frame = bytes(frame)
    if not frame:
        raise FormatError("empty frame")
    body = frame[1:]
    if frame[0] & 2:
        body = zlib.decompress(body)
    c = _Cur(body)
    node = _node(c)
    if c.i != len(body):
        raise FormatError("%d trailing bytes after the node" % (len(body) - c.i))
    return node


# =============================================================================================
# encoder with explicit choices
class Chooser(object):
    """Replays a choice vector; records the arity met at each site (missing entries default to 0)."""

    def __init__(self, vector=()):
        self.vector = list(vector)
        self.arity = []
        self.kinds = []
        self.taken = []

    def pick(self, kind, options):
        i = len(self.arity)
        self.arity.append(len(options))
        self.kinds.append(kind)
        j = self.vector[i] if i < len(self.vector) else 0
        if j >= len(options):
            j = 0
        self.taken.append(options[j])
        return options[j]

    def next_vector(self):
        """Mixed-radix successor of the vector just used (DFS over the choice tree); None when done."""
        v = [(self.vector[i] if i < len(self.vector) and self.vector[i] < self.arity[i] else 0) for i in range(len(self.arity))]
        i = len(v) - 1
        while i >= 0:
            if v[i] + 1 < self.arity[i]:
                return v[:i] + [v[i] + 1]
            i -= 1
        return None


class RandomChooser(Chooser):
    def __init__(self, rnd, p_alt=0.5):
        Chooser.__init__(self)
        self.rnd = rnd
        self.p = p_alt

    def pick(self, kind, options):
        self.arity.append(len(options))
        self.kinds.append(kind)
        j = self.rnd.randrange(len(options)) if (len(options) > 1 and self.rnd.random() < self.p) else 0
        self.vector.append(j)
        self.taken.append(options[j])
        return options[j]


class MirrorChooser(Chooser):
    """Always the first option = the canonical (minimal) encoding."""

    def pick(self, kind, options):
        self.arity.append(len(options))
        self.kinds.append(kind)
        self.taken.append(options[0])
        return options[0]


def _w_list(out, n, ch):
    opts = []
    if n == 0:
        opts.append("l0")
    if 0 < n < 256:
        opts.append("l8")
    if n < 65536:
        opts.append("l16")
    if not opts:
        raise FormatError("list too long")
    o = ch.pick("list", opts) if len(opts) > 1 else opts[0]
    if o == "l0":
        out.append(0)
    elif o == "l8":
        out += bytes([0xF8, n])
    else:
        out += bytes([0xF9, n >> 8, n & 255])


def _w_bin(out, b, form):
    n = len(b)
    if form == "raw8":
        out += bytes([0xFC, n])
    elif form == "raw20":
        out += bytes([0xFD, n >> 16, (n >> 8) & 255, n & 255])
    else:
        out += bytes([0xFE, n >> 24, (n >> 16) & 255, (n >> 8) & 255, n & 255])
    out += b


def _bin_forms(n):
    f = []
    if n < 256:
        f.append("raw8")
    if n < (1 << 20):
        f.append("raw20")
    if n < (1 << 31):
        f.append("raw31")
    return f


def _w_packed(out, s, form):
    alpha = NIB if form == "nib" else HEX
    vals = [alpha.index(chx) for chx in s]
    odd = len(vals) & 1
    if odd:
        vals.append(15)
    nb = len(vals) // 2
    out += bytes([0xFF if form == "nib" else 0xFB, (odd << 7) | nb])
    out += bytes((vals[2 * i] << 4) | vals[2 * i + 1] for i in range(nb))


def _str_options(s, nested, role="value"):
    opts = []
    if s in _P_INDEX:
        for i in _P_INDEX[s]:
            if i >= 3:
                opts.append(("tok", i))
    if s in _S_INDEX:
        for i in _S_INDEX[s]:
            opts.append(("tok2", i))
    packable_len = 0 < len(s) <= 254
    if packable_len and all(chx in NIB for chx in s):
        opts.append(("nib", None))
    if packable_len and all(chx in HEX for chx in s):
        opts.append(("hex", None))
    ats = [i for i, chx in enumerate(s) if chx == "@"]
    splits = [i for i in ats if 0 < i < len(s) - 1]
    jids = []
    if splits:
        jids.append(("jid", splits[0]))
        if splits[-1] != splits[0]:
            jids.append(("jid", splits[-1]))
    raws = [(f, None) for f in _bin_forms(len(s))]
    # canonical order mirrors what a minimal encoder does: token, JID pair, packed, raw
    toks = [o for o in opts if o[0] in ("tok", "tok2")]
    packs = [o for o in opts if o[0] in ("nib", "hex")]
    if len(s) < 128 and role in ("value", "jiduser"):
        ordered = toks + jids + packs + raws
    else:
        ordered = toks + jids + raws + packs
    if not nested and "@" not in s and len(s) > 0:
        ordered.append(("jid0", None))
    return ordered


def _w_string(out, s, ch, nested=False, role="str"):
    opts = _str_options(s, nested, role)
    kind, arg = ch.pick(role, opts) if len(opts) > 1 else opts[0]
    if kind == "tok":
        out.append(arg)
    elif kind == "tok2":
        out += bytes([0xEC + arg // 256, arg % 256])
    elif kind in ("nib", "hex"):
        _w_packed(out, s, kind)
    elif kind == "jid":
        out.append(0xFA)
        _w_string(out, s[:arg], ch, nested=True, role="jiduser")
        _w_string(out, s[arg + 1:], ch, nested=True, role="jidserver")
    elif kind == "jid0":
        out.append(0xFA)
        out.append(0)
        _w_string(out, s, ch, nested=True, role="jidserver")
    else:
        _w_bin(out, s.encode("latin-1"), kind)


def _w_content(out, data, ch, string_forms):
    opts = [(f, None) for f in _bin_forms(len(data))]
    if string_forms and len(data) > 0:
        s = data.decode("latin-1")
        for o in _str_options(s, nested=True):
            if o[0] in ("tok", "tok2", "nib", "hex", "jid"):
                opts.append(("s:" + o[0], o[1]))
    kind, arg = ch.pick("content", opts) if len(opts) > 1 else opts[0]
    if kind.startswith("s:"):
        k = kind[2:]
        s = data.decode("latin-1")
        if k == "tok":
            out.append(arg)
        elif k == "tok2":
            out += bytes([0xEC + arg // 256, arg % 256])
        elif k in ("nib", "hex"):
            _w_packed(out, s, k)
        else:
            out.append(0xFA)
            _w_string(out, s[:arg], ch, nested=True, role="jiduser")
            _w_string(out, s[arg + 1:], ch, nested=True, role="jidserver")
    else:
        _w_bin(out, data, kind)


def _w_node(out, node, ch, string_content):
    tag, attrs, children, data = node
    attrs = attrs or {}
    children = children or []
    if data is not None and children:
        raise FormatError("node with both content and children")
    n = 1 + 2 * len(attrs) + (1 if (children or data is not None) else 0)
    _w_list(out, n, ch)
    _w_string(out, tag, ch, role="tag")
    for k, v in attrs.items():
        _w_string(out, k, ch, role="key")
        _w_string(out, v, ch, role="value")
    if data is not None:
        _w_content(out, data, ch, string_content)
    elif children:
        _w_list(out, len(children), ch)
        for c in children:
            _w_node(out, c, ch, string_content)


def encode(node, chooser=None, string_content=True):
    """Frame bytes for `node` under the chooser's decisions. The frame-level choice (deflate) comes first."""
    ch = chooser or MirrorChooser()
    deflate = ch.pick("frame", ["plain", "deflate"]) == "deflate"
    body = bytearray()
    _w_node(body, node, ch, string_content)
    if deflate:
        return bytes([2]) + zlib.compress(bytes(body))
    return bytes([0]) + bytes(body)


def encode_canonical(node):
    """The encoding a minimal encoder produces (tokens, JID pairs at the first '@', packed < 128, smallest lengths)."""
    return encode(node, MirrorChooser(), string_content=False)


def all_encodings(node, limit=None, string_content=True):
    """Every encoding of node (DFS over choice vectors), as (vector, taken, frame)."""
    v = []
    n = 0
    while v is not None:
        ch = Chooser(v)
        frame = encode(node, ch, string_content)
        yield [(v[i] if i < len(v) else 0) for i in range(len(ch.arity))], ch.taken, frame
        n += 1
        if limit and n >= limit:
            return
        v = ch.next_vector()


def count_sites(node, string_content=True):
    ch = MirrorChooser()
    encode(node, ch, string_content)
    return ch.arity, ch.kinds
