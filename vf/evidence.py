"""Accumulator for what a worker observed, mergeable across workers, and the evidence writer."""
import hashlib
import json
import os

MAX_SAMPLES = 12
MAX_VIOLATIONS_KEPT = 40


def h(obj):
    """Stable short hash of a canonical case description."""
    if not isinstance(obj, (bytes, bytearray)):
        obj = json.dumps(obj, sort_keys=True, default=repr).encode("utf-8", "replace")
    return hashlib.blake2b(bytes(obj), digest_size=8).hexdigest()


def jsonable(x, depth=0):
    if depth > 12:
        return repr(x)[:200]
    if isinstance(x, (str, int, float, bool)) or x is None:
        if isinstance(x, str) and len(x) > 2000:
            return x[:2000] + "...[%d chars]" % len(x)
        return x
    if isinstance(x, (bytes, bytearray)):
        b = bytes(x)
        if len(b) > 600:
            return {"hex_prefix": b[:300].hex(), "len": len(b), "blake2": h(b)}
        return {"hex": b.hex()}
    if isinstance(x, dict):
        return {str(k): jsonable(v, depth + 1) for k, v in x.items()}
    if isinstance(x, (list, tuple, set, frozenset)):
        l = list(x)
        if len(l) > 400:
            return [jsonable(v, depth + 1) for v in l[:400]] + ["...[%d items]" % len(l)]
        return [jsonable(v, depth + 1) for v in l]
    return repr(x)[:500]


class Acc(object):
    """What one worker (or the merged run) observed."""

    def __init__(self):
        self.evaluations = 0
        self.counters = {}
        self.distinct = set()          # hashes of distinct non-trivial cases
        self.samples = []
        self.violations = []           # {"key","what","witness"}
        self.violation_count = 0
        self.inconclusive = []         # reasons
        self.sets = {}                 # name -> set of str (distinct things seen)
        self.distinct_enum = 0         # cases distinct by construction (complete enumerations)

    # -- recording --------------------------------------------------------------------------
    def count(self, name, n=1):
        self.counters[name] = self.counters.get(name, 0) + n

    def maxi(self, name, v):
        k = "max:" + name
        if v > self.counters.get(k, -1):
            self.counters[k] = v

    def seen(self, setname, value):
        self.sets.setdefault(setname, set()).add(value if isinstance(value, str) else json.dumps(jsonable(value), sort_keys=True))

    def case(self, desc, nontrivial=True):
        """Register one evaluated case; desc is its canonical description (hashable to JSON)."""
        self.evaluations += 1
        if nontrivial:
            self.distinct.add(desc if isinstance(desc, str) and len(desc) == 16 else h(desc))

    def case_enum(self, nontrivial=True):
        """One case of a complete enumeration: distinct by construction, no hash kept."""
        self.evaluations += 1
        if nontrivial:
            self.distinct_enum += 1

    def ndistinct(self):
        return len(self.distinct) + self.distinct_enum

    def sample(self, s):
        if len(self.samples) < MAX_SAMPLES:
            self.samples.append(jsonable(s))

    def violation(self, key, what, witness):
        self.violation_count += 1
        # keep at most a few witnesses per key
        same = sum(1 for v in self.violations if v["key"] == key)
        if same < 3 and len(self.violations) < MAX_VIOLATIONS_KEPT:
            self.violations.append({"key": key, "what": what, "witness": jsonable(witness)})
        self.count("violations_by_key:" + key)

    def inconc(self, reason):
        if reason not in self.inconclusive:
            self.inconclusive.append(reason)

    # -- (de)serialisation ------------------------------------------------------------------
    def dump(self):
        return {
            "evaluations": self.evaluations, "counters": self.counters,
            "distinct": sorted(self.distinct), "distinct_enum": self.distinct_enum, "samples": self.samples,
            "violations": self.violations, "violation_count": self.violation_count,
            "inconclusive": self.inconclusive,
            "sets": {k: sorted(v) for k, v in self.sets.items()},
        }

    def merge(self, d):
        self.evaluations += d["evaluations"]
        for k, v in d["counters"].items():
            if k.startswith("max:"):
                self.counters[k] = max(self.counters.get(k, -1), v)
            else:
                self.counters[k] = self.counters.get(k, 0) + v
        self.distinct.update(d["distinct"])
        self.distinct_enum += d.get("distinct_enum", 0)
        for s in d["samples"]:
            if len(self.samples) < MAX_SAMPLES:
                self.samples.append(s)
        for v in d["violations"]:
            same = sum(1 for w in self.violations if w["key"] == v["key"])
            if same < 3 and len(self.violations) < MAX_VIOLATIONS_KEPT:
                self.violations.append(v)
        self.violation_count += d["violation_count"]
        for r in d["inconclusive"]:
            self.inconc(r)
        for k, v in d["sets"].items():
            self.sets.setdefault(k, set()).update(v)


def write_evidence(path, prop, tier, seed, level, acc, rule, wall_s, assumptions, extra=None,
                   exhaustive=None, violations=0):
    cov = {
        "evaluations": acc.evaluations,
        "distinct_nontrivial": acc.ndistinct(),
        "rule": rule,
        "samples": acc.samples,
        "observed": {k: acc.counters[k] for k in sorted(acc.counters)},
        "distinct_seen": {k: len(v) for k, v in sorted(acc.sets.items())},
    }
    small = {k: sorted(v) for k, v in acc.sets.items() if len(v) <= 80}
    if small:
        cov["distinct_seen_values"] = small
    if exhaustive is not None:
        cov["exhaustive"] = exhaustive
    if extra:
        cov.update(extra)
    ev = {
        "property_id": prop, "tier": tier, "seed": seed, "level": level, "coverage": cov,
        "assumptions": assumptions, "wall_s": round(wall_s, 3), "violations": violations,
    }
    os.makedirs(os.path.dirname(path), exist_ok=True)
    tmp = path + ".tmp"
    with open(tmp, "w") as f:
        json.dump(ev, f, indent=1, sort_keys=False)
        f.write("\n")
    os.replace(tmp, path)
    return ev
