"""Loopback harness for the real connection dispatchers (socket and asyncore) of the network layer.

A local TCP server thread plays the WhatsApp server with the Noise responder double; the client is the library's
complete default stack with its real dispatcher. Only 127.0.0.1 is ever connected to (the audit hook enforces it).
"""
import queue
import socket
import threading
import time

from vf import noisepeer, probes, refcodec


class Conn(object):
    def __init__(self, sock, static):
        self.sock = sock
        self.srv = noisepeer.NoiseServer(static=static)
        self.closed_by_peer = False
        self.greeted = False
        self.stanzas = []          # decoded client stanzas
        self.raw = bytearray()     # every byte read from the socket
        self.sent_raw = bytearray()  # every byte written to the socket
        self.answered = set()
        self.tail_on_eof = None      # bytes to write when the client half-closes (the rest of a frame that was on its way)
        self.stalled = False         # this side has stopped reading (a peer that hangs); kill() drops the connection then
        self.close_delay = 0         # seconds this side waits after the client's half-close before it closes too (a slow peer)
        self.seen = 0
        self.lock = threading.Lock()

    def send_partial_stanza(self, tree, k):
        """Writes only the first k bytes of the stanza's frame now; the rest goes out when the client half-closes."""
        with self.lock:
            b = self.srv.encrypt(refcodec.encode_canonical(tree))
            k = max(1, min(len(b) - 1, k))
            self.sent_raw += b[:k]
            self.tail_on_eof = b[k:]
            self.sock.sendall(b[:k])

    def send_stanza(self, tree):
        with self.lock:
            b = self.srv.encrypt(refcodec.encode_canonical(tree))
            self.sent_raw += b
            self.sock.sendall(b)

    def kill(self):
        """Drops the connection without reading what is still on its way (the client sees a reset)."""
        import struct
        try:
            self.sock.setsockopt(socket.SOL_SOCKET, socket.SO_LINGER, struct.pack("ii", 1, 0))
            self.sock.close()
        except OSError:
            pass


class LoopServer(threading.Thread):
    def __init__(self, auto_success=True, slow_reader=False, answer_uploads=False):
        super(LoopServer, self).__init__(name="verif-loopserver")
        self.daemon = True
        self.answer_uploads = answer_uploads    # confirm key uploads (iq set encrypt) like the real server
        self.slow_reader = slow_reader      # small receive window, small slow reads: the client's writes go partial (backlog)
        self.lsock = socket.socket()
        self.lsock.setsockopt(socket.SOL_SOCKET, socket.SO_REUSEADDR, 1)
        if slow_reader:
            self.lsock.setsockopt(socket.SOL_SOCKET, socket.SO_RCVBUF, 4096)
        self.lsock.bind(("127.0.0.1", 0))
        self.lsock.listen(8)
        self.port = self.lsock.getsockname()[1]
        self.static = noisepeer.gen_static()
        self.conns = []
        self.auto_success = auto_success
        self.stop_flag = False
        self.errors = []

    def run(self):
        try:
            self.lsock.settimeout(0.2)
        except OSError:
            return
        while not self.stop_flag:
            try:
                s, _ = self.lsock.accept()
            except socket.timeout:
                continue
            except OSError:
                return
            c = Conn(s, self.static)
            self.conns.append(c)
            t = threading.Thread(target=self.serve, args=(c,), name="verif-loopconn-%d" % len(self.conns))
            t.daemon = True
            t.start()

    def serve(self, c):
        c.sock.settimeout(0.2)
        while not self.stop_flag:
            if c.stalled:
                time.sleep(0.01)
                continue
            try:
                if self.slow_reader and c.srv.state == "transport":
                    time.sleep(0.0004)
                    data = c.sock.recv(8192)
                else:
                    data = c.sock.recv(65536)
            except socket.timeout:
                continue
            except OSError:
                c.closed_by_peer = True
                return
            if not data:
                # the client half-closed (or closed): a real server closes its side as well
                c.closed_by_peer = True
                try:
                    if c.close_delay:
                        time.sleep(c.close_delay)
                    if c.tail_on_eof:
                        try:
                            c.sock.sendall(c.tail_on_eof)     # what was already on its way when the client hung up
                            time.sleep(0.02)
                        except OSError:
                            pass
                    c.sock.close()
                except OSError:
                    pass
                return
            c.raw += data
            try:
                with c.lock:
                    c.srv.feed(data)
                    out = c.srv.take_out()
                    if out:
                        c.sent_raw += out
                        c.sock.sendall(out)
                while c.seen < len(c.srv.received):
                    try:
                        c.stanzas.append(refcodec.decode(c.srv.received[c.seen]))
                    except refcodec.FormatError as e:
                        self.errors.append(str(e))
                    c.seen += 1
                    if self.answer_uploads and c.stanzas:
                        t_ = c.stanzas[-1]
                        if t_[0] == "iq" and t_[1].get("xmlns") == "encrypt" and t_[1].get("type") == "set" and t_[1].get("id") not in c.answered:
                            c.answered.add(t_[1].get("id"))
                            c.send_stanza(("iq", {"id": t_[1]["id"], "type": "result", "from": "s.whatsapp.net"}, [], None))
                if c.srv.state == "transport" and not c.greeted and self.auto_success:
                    c.greeted = True
                    c.send_stanza(("success", {"t": "1600000000", "props": "4", "creation": "1500000000", "location": "frc"}, [], None))
            except OSError:
                return

    def close_conn(self, c):
        try:
            c.sock.shutdown(socket.SHUT_RDWR)
        except OSError:
            pass
        c.sock.close()

    def stop(self):
        self.stop_flag = True
        try:
            self.lsock.close()
        except OSError:
            pass
        for c in self.conns:
            try:
                c.sock.close()
            except OSError:
                pass


class RealClient(object):
    """Default layers + two probes + an application layer, with the library's real dispatcher."""

    def __init__(self, name, port, dispatcher, props=None):
        from vf import tstack, world
        from yowsup.stacks import YowStack, YowStackBuilder
        from yowsup.layers.network import YowNetworkLayer
        from yowsup.layers.protocol_iq import YowIqProtocolLayer
        from yowsup.axolotl.manager import AxolotlManager
        AxolotlManager.COUNT_GEN_PREKEYS = 12
        self.profile = tstack.make_profile(name, phone="4916" + ("%08d" % (abs(hash(name)) % 10 ** 8)))
        # persist the config so that a changed server key can be stored
        from yowsup.config.manager import ConfigManager
        ConfigManager().save(name, self.profile.config)
        self.app = world.app_class()()
        self.log = []
        outer = self

        class Rec(object):
            phone = name
            generation = 0
            world = None
        self.app.client = self
        self.world = self
        self.phone = name
        self.generation = 0
        self.probe_low, self.probe_top = probes.Probe("low", transparent_detached="up"), probes.Probe("top")
        layers = YowStackBuilder.getDefaultLayers()
        layers = (layers[0], self.probe_low) + layers[1:] + (self.app, self.probe_top)
        p = {"profile": self.profile, YowIqProtocolLayer.PROP_PING_INTERVAL: 0,
             YowNetworkLayer.PROP_DISPATCHER: dispatcher}
        p.update(props or {})
        self.stack = YowStack(layers, reversed=False, props=p)
        self.stack.setProp(YowNetworkLayer.PROP_ENDPOINT, ("127.0.0.1", port))
        self.net = self.stack.getLayer(0)
        self.app_log = []
        self.thread_errors = []
        self.net_threads = []

    # world-like interface used by the application layer
    def log_app(self, client, kind, entity):
        self.app_log.append((kind, entity))

    def connect_async(self):
        """connect() blocks for the life of the connection (both dispatchers run their read loop in the caller)."""
        def run():
            try:
                self.app.connect()
            except Exception as e:  # noqa
                import traceback
                self.thread_errors.append(("connect", type(e).__name__, str(e)[:200], traceback.format_exc()[-400:]))
        t = threading.Thread(target=run, name="verif-netthread-%d" % len(self.net_threads))
        t.daemon = True
        t.start()
        self.net_threads.append(t)
        return t

    def pump(self):
        """Deliver deferred events (what stack.loop() does), in the calling thread."""
        from yowsup.stacks import YowStack
        q = YowStack._YowStack__detachedQueue
        n = 0
        while True:
            try:
                cb = q.get(False)
            except queue.Empty:
                return n
            try:
                cb()
            except Exception as e:  # noqa
                self.thread_errors.append(("pump", type(e).__name__, str(e)[:200], ""))
            n += 1

    def start_loop(self):
        """What stack.loop() does, in its own thread: deliver deferred events. (A deferred reconnect blocks this thread for
        the life of the new connection, exactly as it blocks the application's loop thread.)"""
        self.loop_stop = False

        def run():
            while not self.loop_stop:
                self.pump()
                time.sleep(0.002)
        t = threading.Thread(target=run, name="verif-loopthread")
        t.daemon = True
        t.start()
        self.loop_thread = t

    def stop_loop(self):
        self.loop_stop = True

    def wait(self, cond, timeout=15.0):
        """True as soon as cond() holds. After `timeout` seconds the wait goes on (up to 4 x timeout) for as long as some thread of
        this process is still moving between two looks half a second apart: on a loaded machine slow is not stuck. False only
        when nothing moves any more (or after 4 x timeout)."""
        t0 = time.time()
        while time.time() - t0 < timeout:
            if cond():
                return True
            time.sleep(0.002)
        if timeout < 3:
            return cond()
        from vf import probes

        def snap():
            return {n: [f[:3] for f in fr[:2]] for n, fr in probes.thread_states().items() if n != threading.current_thread().name}
        prev = snap()
        still = 0
        while time.time() - t0 < 4 * timeout:
            t1 = time.time()
            while time.time() - t1 < 0.5:
                if cond():
                    return True
                time.sleep(0.005)
            now = snap()
            still = still + 1 if now == prev else 0
            prev = now
            if still >= 2:
                return cond()
        return cond()

    def events(self, name):
        return self.probe_low.event_names().count(name)
