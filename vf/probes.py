"""Pass-through recording layers, lock census, blocked-state detector."""
import itertools
import sys
import threading

from yowsup.layers import YowLayer, YowParallelLayer

_seq = itertools.count()


class Probe(YowLayer):
    """Records everything that crosses it. forward=False makes it a sink in that direction."""

    def __init__(self, name="probe", forward_up=True, forward_down=True, transparent_detached=None):
        super(Probe, self).__init__()
        self.transparent_detached = transparent_detached    # "up" for a probe placed directly above a layer emitting detached events
        self.name = name
        self.sent = []       # data travelling downward through this probe
        self.received = []   # data travelling upward
        self.events = []     # (seq, thread, name, args)
        self.log = []        # (seq, thread, dir, data)
        self.forward_up = forward_up
        self.forward_down = forward_down
        self.on_send = None
        self.on_receive = None
        self.consume = set()  # event names this probe consumes

    def __str__(self):
        return "Probe(%s)" % self.name

    def send(self, data):
        self.sent.append(data)
        self.log.append((next(_seq), threading.get_ident(), "down", data))
        if self.on_send:
            self.on_send(data)
        if self.forward_down:
            self.toLower(data)

    def receive(self, data):
        self.received.append(data)
        self.log.append((next(_seq), threading.get_ident(), "up", data))
        if self.on_receive:
            self.on_receive(data)
        if self.forward_up:
            self.toUpper(data)

    def onEvent(self, ev):
        self.events.append((next(_seq), threading.get_ident(), ev.getName(), dict(ev.args)))
        if ev.getName() in self.consume:
            return True
        if self.transparent_detached == "up" and ev.isDetached():
            # A detached event is handled synchronously by the emitter's direct upper neighbour and deferred for the rest. A
            # probe inserted directly above the emitter must not take that place: the real neighbour handles the event now,
            # the rest is deferred from there, exactly as without the probe.
            up = getattr(self, "_YowLayer__upper", None)
            if up is None:
                return False
            if up.onEvent(ev):
                return True
            ev.detached = False
            self.getStack().execDetached(lambda: up.emitEvent(ev))
            return True
        return False

    def event_names(self):
        return [e[2] for e in self.events]

    def clear(self):
        del self.sent[:], self.received[:], self.events[:], self.log[:]


def all_layers(stack):
    """Every layer instance of a stack, sublayers of parallel groups included, bottom to top."""
    out = []
    i = 0
    while True:
        try:
            l = stack.getLayer(i)
        except IndexError:
            break
        out.append(l)
        if isinstance(l, YowParallelLayer):
            out.extend(l.sublayers)
        i += 1
    return out


_LOCK_TYPES = (type(threading.Lock()), type(threading.RLock()))


def lock_census(stack_or_layers):
    """[(layer, attribute name, lock object)] for every attribute of every layer that is a lock."""
    layers = stack_or_layers if isinstance(stack_or_layers, (list, tuple)) else all_layers(stack_or_layers)
    found = []
    for l in layers:
        for k, v in list(vars(l).items()):
            if isinstance(v, _LOCK_TYPES) or (hasattr(v, "acquire") and hasattr(v, "release") and hasattr(v, "locked")):
                found.append((l, k, v))
    return found


def held_locks(stack_or_layers):
    res = []
    for l, k, v in lock_census(stack_or_layers):
        try:
            if v.locked():
                res.append("%s.%s" % (l.__class__.__name__, k))
        except AttributeError:
            # RLock (no locked() before 3.14): owned by the calling thread = leaked by it (the census runs outside any
            # critical section); otherwise a non-blocking acquire tells whether another thread owns it
            if getattr(v, "_is_owned", lambda: False)():
                res.append("%s.%s" % (l.__class__.__name__, k))
            elif not v.acquire(False):
                res.append("%s.%s" % (l.__class__.__name__, k))
            else:
                v.release()
    return res


_BLOCKING = {("threading.py", "wait"), ("queue.py", "get"), ("threading.py", "acquire")}


def thread_states(threads=None):
    """For each live thread (optionally restricted): innermost frames as (file, func, line)."""
    frames = sys._current_frames()
    out = {}
    for t in threading.enumerate():
        if threads is not None and t not in threads:
            continue
        f = frames.get(t.ident)
        st = []
        while f is not None and len(st) < 80:
            st.append((f.f_code.co_filename.rsplit("/", 1)[-1], f.f_code.co_name, f.f_lineno, f.f_code.co_filename))
            f = f.f_back
        out[t.name] = st
    return out


def parked_forever(stack_frames):
    """True when the thread sits in an untimed blocking Queue.get (the only untimed waits the library performs:
    handshake worker / network thread waiting for a segment). A Condition/Event wait reached from anywhere else
    (Thread.start, timed waits) is not "forever"."""
    if not stack_frames:
        return False
    names = [(f[0], f[1]) for f in stack_frames[:4]]
    if names[0] == ("queue.py", "get"):
        return True
    if names[0] == ("threading.py", "wait") and len(names) > 1 and names[1] == ("queue.py", "get"):
        return True
    return False


def blocked_on_lock(stack_frames):
    """Innermost Python frame sits on a source line that acquires a lock (C-level Lock/RLock.acquire has no frame)."""
    import linecache
    if not stack_frames:
        return False
    fn, func, line = stack_frames[0][:3]
    full = stack_frames[0][3] if len(stack_frames[0]) > 3 else None
    src = linecache.getline(full, line) if full else ""
    return ("acquire(" in src) or ("with " in src and "lock" in src.lower())


def stuck(threads, wait=1.5, samples=3):
    """For threads that should have finished: {name: frames} when every one that is still alive sat on exactly the same source
    line in all `samples` looks, `wait` seconds apart (blocked); None when any of them moved (slow, not stuck: inconclusive)."""
    import time
    alive = [t for t in threads if t.is_alive()]
    if not alive:
        return None
    first = thread_states(alive)
    for _ in range(samples - 1):
        time.sleep(wait)
        alive = [t for t in alive if t.is_alive()]
        if not alive:
            return None
        now = thread_states(alive)
        for n, fr in now.items():
            if [f[:3] for f in fr[:3]] != [f[:3] for f in first.get(n, [])[:3]]:
                return None
    return {n: fr for n, fr in first.items() if any(t.name == n for t in alive)}
